import Proofs.DkgShare

/-! Agreement between two *different* honest participants of Feldman-VSS-Qual (neither is the dealer).

A participant's complaint is the only broadcast it emits, and *when* it is emitted depends on the order in
which that participant received its private share and the dealer's vector. A direct lock-step comparison of two
participants is therefore circular (each one's input contains the other's output). The proof goes through a
**shadow observer** instead: the very same state machine (`Proofs.DkgCommute.step`), run by a fictitious
participant `Z` whose index is out of range, whose share is marked as received and always matches (the crypto
record `shadowOps` accepts every share for `Z`'s own index and is `O` for every other index). `Z` never emits,
never owns a table entry, and processes exactly the broadcasts a real participant `A` processes, in `A`'s own
order, plus `A`'s complaint at the very moment `A` emits it. `shadow_step` shows that the public part of `A`'s
state (verdict, vector, complaint table, timeouts) equals that of `Z` after every delivery. Two honest
participants `A` and `B` of one execution give two shadows that saw the same stream of broadcasts per sender and
round (reliable broadcast; an honest complaint lands in the round it was emitted), so by the order-independence
theorem of `Proofs.DkgRounds`, applied to `Z`, the two shadows — hence `A` and `B` — reach the same verdict. -/

namespace Proofs.DkgAgree
open Model Model.Dkg Proofs.DkgCommute

/-- the crypto record of the shadow observer: every share is accepted for index `zme`, nothing else changes -/
@[reducible] def shadowOps (O : Ops) (zme : Nat) : Ops :=
  { O with checkLog := fun v k x => if k = zme then true else O.checkLog v k x }

variable {O : Ops} {zme : Nat}

/-- the public part of a participant's state coincides with the shadow's -/
structure PubEq (a : St O) (z : St (shadowOps O zme)) : Prop where
  size : a.size = z.size
  threshold : a.threshold = z.threshold
  dealer : a.dealer = z.dealer
  disq : a.disqualified = z.disqualified
  vAR : a.vAReceived = z.vAReceived
  vA : a.vA = z.vA
  tbl : a.complaints = z.complaints
  st : a.sharesTimeout = z.sharesTimeout
  ct : a.complaintsTimeout = z.complaintsTimeout

/-- what makes `Z` a passive observer -/
structure ZInv (z : St (shadowOps O zme)) : Prop where
  me : z.me = zme
  xr : z.xReceived = true
  noz : ∀ kc ∈ z.complaints, kc.1 ≠ zme
  hsize : z.size ≤ zme
  hdealer : z.dealer < z.size
  hbyte : z.size ≤ 256

theorem PubEq.find {a : St O} {z : St (shadowOps O zme)} (h : PubEq a z) (k : Nat) : a.find k = z.find k := by
  unfold St.find; rw [h.tbl]

theorem PubEq.cc {a : St O} {z : St (shadowOps O zme)} (h : PubEq a z) (k : Nat) (hk : k ≠ zme) (c : Complaint) :
    a.checkComplaint k c = z.checkComplaint k c := by
  unfold St.checkComplaint
  rw [← h.vA]
  cases a.vA with
  | none => rfl
  | some v => simp [hk]

theorem PubEq.ccf {a : St O} {z : St (shadowOps O zme)} (h : PubEq a z) (k : Nat) (hk : k ≠ zme) :
    a.checkComplaint k = z.checkComplaint k := funext (h.cc k hk)

/-- updates with the same table entry and the same verdict keep the public parts equal -/
theorem pub_applyUpd {a : St O} {z : St (shadowOps O zme)} (h : PubEq a z) (k : Nat) (ua uz : Upd)
    (he : ua.entry = uz.entry) (hd : ua.disq = uz.disq) : PubEq (applyUpd a k ua) (applyUpd z k uz) := by
  have a1 := applyUpd_vA a k ua
  have a2 := applyUpd_rest a k ua
  have z1 := applyUpd_vA z k uz
  have z2 := applyUpd_rest z k uz
  refine ⟨?_, ?_, ?_, ?_, ?_, ?_, ?_, ?_, ?_⟩
  · rw [a2.1, z2.1]; exact h.size
  · rw [a2.2.1, z2.2.1]; exact h.threshold
  · rw [a1.2.2.2.1, z1.2.2.2.1]; exact h.dealer
  · rw [applyUpd_disq, applyUpd_disq, hd, h.disq]
  · rw [a1.2.1, z1.2.1]; exact h.vAR
  · rw [a1.1, z1.1]; exact h.vA
  · rw [applyUpd_complaints, applyUpd_complaints, he]
    cases uz.entry with
    | none => exact h.tbl
    | some c => show (k, c) :: a.complaints.filter _ = (k, c) :: z.complaints.filter _; rw [h.tbl]
  · rw [a2.2.2.2.2.2.1, z2.2.2.2.2.2.1]; exact h.st
  · rw [a2.2.2.2.2.2.2, z2.2.2.2.2.2.2]; exact h.ct

theorem zinv_applyUpd {z : St (shadowOps O zme)} (h : ZInv z) (k : Nat) (hk : k ≠ zme) (u : Upd) :
    ZInv (applyUpd z k u) := by
  have z1 := applyUpd_vA z k u
  have z2 := applyUpd_rest z k u
  refine ⟨by rw [z1.2.2.1]; exact h.me, by rw [z1.2.2.2.2]; exact h.xr, ?_, by rw [z2.1]; exact h.hsize,
    by rw [z1.2.2.2.1, z2.1]; exact h.hdealer, by rw [z2.1]; exact h.hbyte⟩
  rw [applyUpd_complaints]
  cases u.entry with
  | none => exact h.noz
  | some c =>
    intro kc hkc
    change kc ∈ (k, c) :: z.complaints.filter _ at hkc
    rcases List.mem_cons.1 hkc with h1 | h1
    · rw [h1]; exact hk
    · exact h.noz kc (List.mem_filter.1 h1).1


/-! ### the complaint a participant broadcasts, as a delivery at the shadow -/

/-- the participant's own entry carries the `received` flag: its complaint has been built and broadcast -/
def recvOf : Option Complaint → Bool
  | some c => c.received
  | none => false

def ownRecv (s : St O) : Bool := recvOf (s.find s.me)

def cmplMsg (d : Nat) : Bytes := [tagComplaint, UInt8.ofNat d]

/-- the broadcast complaint of participant `k` against the dealer, as a delivery -/
def zCmpl (k d : Nat) : Dl := .bcast k (cmplMsg d)

theorem zstep_cmpl (z : St (shadowOps O zme)) (zi : ZInv z) (k : Nat) (hk : k < z.size) (hkd : k ≠ z.dealer)
    (hdq : z.disqualified = false) (hct : z.complaintsTimeout = false) :
    step z (zCmpl k z.dealer) = rcOk z k := by
  have hme : z.me ≠ z.dealer := by rw [zi.me]; have := zi.hdealer; have := zi.hsize; omega
  rw [step_classify z _ hme hdq]
  have hzk : z.me ≠ k := by rw [zi.me]; have := zi.hsize; omega
  have hb : (UInt8.ofNat z.dealer).toNat = z.dealer := by
    have := zi.hdealer; have := zi.hbyte
    simp [UInt8.toNat_ofNat']; omega
  have hp : parseC z [UInt8.ofNat z.dealer] = some z.dealer := by
    unfold parseC
    simp only [List.length_singleton, ne_eq, not_true_eq_false, if_false, List.headD_cons, hb]
    have := zi.hdealer
    rw [if_neg (by omega)]
  show interp z (classifyB z k (cmplMsg z.dealer)) = rcOk z k
  unfold classifyB cmplMsg
  rw [if_neg hzk]
  simp only [List.length_cons, List.length_nil, Nat.add_eq_zero_iff, if_false, List.headD_cons,
    List.drop_succ_cons, List.drop_zero, hct, Bool.false_eq_true]
  rw [if_neg (by decide), if_pos trivial, hp]
  simp only [hkd, if_false, ne_eq, not_true_eq_false]
  rfl

/-- **the participant's own complaint is, publicly, the complaint the others receive**: building the complaint
    at `t` and delivering it to the shadow lead to the same public state -/
theorem pub_buildComplaint {t : St O} {z : St (shadowOps O zme)} (h : PubEq t z) (zi : ZInv z)
    (hdq : t.disqualified = false) (hvok : VecOK t) (hme : t.me < t.size) (hmd : t.me ≠ t.dealer)
    (hct : t.complaintsTimeout = false) :
    PubEq (FvssQ.buildComplaint t).1 (if ownRecv t then z else step z (zCmpl t.me t.dealer)) ∧
    ZInv (if ownRecv t then z else step z (zCmpl t.me t.dealer)) := by
  have hmz : t.me ≠ zme := by have := zi.hsize; rw [← h.size] at this; omega
  rw [bc_upd]
  by_cases ho : ownRecv t = true
  · rw [if_pos ho]
    refine ⟨?_, zi⟩
    unfold ownRecv at ho
    cases hf : t.find t.me with
    | none => rw [hf] at ho; cases ho
    | some c =>
      rw [hf] at ho
      change c.received = true at ho
      have : bcU (some c) (t.vAReceived && t.vA.isSome) (t.checkComplaint t.me) = {} := by
        unfold bcU; simp only [ho, if_true]
      rw [this, applyUpd_empty]
      exact h
  · rw [if_neg ho]
    have hzd : z.disqualified = false := by rw [← h.disq]; exact hdq
    have hzc : z.complaintsTimeout = false := by rw [← h.ct]; exact hct
    rw [h.dealer, zstep_cmpl z zi t.me (by rw [← h.size]; exact hme) (by rw [← h.dealer]; exact hmd) hzd hzc, rcOk_upd]
    refine ⟨?_, zinv_applyUpd zi _ hmz _⟩
    rw [← h.find, ← h.vAR, ← h.ccf t.me hmz]
    unfold ownRecv at ho
    cases hf : t.find t.me with
    | none => exact pub_applyUpd h _ _ _ rfl rfl
    | some c =>
      rw [hf] at ho
      change ¬ c.received = true at ho
      have hr : c.received = false := by simpa using ho
      unfold bcU rcU
      simp only [hr, Bool.false_eq_true, if_false]
      by_cases har : c.answerReceived = true
      · simp only [har, if_true, and_true]
        by_cases hv : t.vAReceived = true
        · have hsome : t.vA.isSome = true := hvok hv hdq
          simp only [hv, hsome, Bool.and_self, if_true]
          by_cases hc : t.checkComplaint t.me (recv c) = true
          · simp only [hc, if_true]
            exact pub_applyUpd h _ _ _ rfl rfl
          · have hc' : t.checkComplaint t.me (recv c) = false := by simpa using hc
            simp only [hc', Bool.false_eq_true, if_false]
            exact pub_applyUpd h _ _ _ rfl rfl
        · have hv' : t.vAReceived = false := by simpa using hv
          simp only [hv', Bool.false_and, Bool.false_eq_true, if_false]
          exact pub_applyUpd h _ _ _ rfl rfl
      · have har' : c.answerReceived = false := by simpa using har
        simp only [har', Bool.false_eq_true, if_false, and_false]
        exact pub_applyUpd h _ _ _ rfl rfl


/-! ### frames -/

theorem pub_congr {a a' : St O} {z z' : St (shadowOps O zme)} (h : PubEq a z)
    (a1 : a'.size = a.size) (a2 : a'.threshold = a.threshold) (a3 : a'.dealer = a.dealer)
    (z1 : z'.size = z.size) (z2 : z'.threshold = z.threshold) (z3 : z'.dealer = z.dealer)
    (h4 : a'.disqualified = z'.disqualified) (h5 : a'.vAReceived = z'.vAReceived) (h6 : a'.vA = z'.vA)
    (h7 : a'.complaints = z'.complaints) (h8 : a'.sharesTimeout = z'.sharesTimeout)
    (h9 : a'.complaintsTimeout = z'.complaintsTimeout) : PubEq a' z' :=
  ⟨by rw [a1, z1]; exact h.size, by rw [a2, z2]; exact h.threshold, by rw [a3, z3]; exact h.dealer, h4, h5, h6, h7, h8, h9⟩

theorem zinv_congr {z z' : St (shadowOps O zme)} (h : ZInv z) (h1 : z'.me = z.me) (h2 : z'.xReceived = z.xReceived)
    (h3 : z'.complaints = z.complaints) (h4 : z'.size = z.size) (h5 : z'.dealer = z.dealer) : ZInv z' :=
  ⟨by rw [h1]; exact h.me, by rw [h2]; exact h.xr, by rw [h3]; exact h.noz, by rw [h4]; exact h.hsize,
    by rw [h4, h5]; exact h.hdealer, by rw [h4]; exact h.hbyte⟩

/-- invariants of the real participant used by the simulation -/
structure AInv (a : St O) : Prop where
  inv : Inv a
  melt : a.me < a.size
  tmo : a.complaintsTimeout = true → a.sharesTimeout = true

theorem ownRecv_congr {s t : St O} (h1 : t.me = s.me) (h2 : t.complaints = s.complaints) : ownRecv t = ownRecv s := by
  unfold ownRecv St.find; rw [h1, h2]

theorem ownRecv_bc (t : St O) : ownRecv (FvssQ.buildComplaint t).1 = true := by
  obtain ⟨c, hc, hr⟩ := Proofs.DkgCommute.own_after_bc t
  unfold ownRecv
  rw [(bc_cfg t).1, hc]
  exact hr

/-- the deliveries the shadow sees for the complaint `a` may have emitted while moving to `a'` -/
def emitted (a a' : St O) : List Dl := if !ownRecv a && ownRecv a' then [zCmpl a.me a.dealer] else []

/-- a step of the real participant that ends in `buildComplaint` -/
theorem shadow_bc {a t : St O} {z' : St (shadowOps O zme)} (h : PubEq t z') (zi : ZInv z')
    (hdq : t.disqualified = false) (hvok : VecOK t) (hme : t.me < t.size) (hmd : t.me ≠ t.dealer)
    (hct : t.complaintsTimeout = false) (h1 : t.me = a.me) (h2 : t.dealer = a.dealer)
    (h3 : t.complaints = a.complaints) :
    PubEq (FvssQ.buildComplaint t).1 (runList z' (emitted a (FvssQ.buildComplaint t).1)) ∧
    ZInv (runList z' (emitted a (FvssQ.buildComplaint t).1)) := by
  have hb := pub_buildComplaint h zi hdq hvok hme hmd hct
  have ho : ownRecv t = ownRecv a := ownRecv_congr h1 h3
  unfold emitted
  rw [ownRecv_bc, ← ho, ← h1, ← h2]
  by_cases hr : ownRecv t = true
  · rw [if_pos hr] at hb
    simp only [hr, Bool.not_true, Bool.false_and, Bool.false_eq_true, if_false]
    exact hb
  · rw [if_neg hr] at hb
    have hr' : ownRecv t = false := by simpa using hr
    simp only [hr', Bool.not_false, Bool.true_and, if_true]
    exact hb


/-! ### the shadow classifies a broadcast like the real participant -/

theorem classifyB_pub {a : St O} {z : St (shadowOps O zme)} (h : PubEq a z) (o : Nat) (m : Bytes)
    (hao : a.me ≠ o) (hzo : z.me ≠ o) : classifyB z o m = classifyB a o m := by
  unfold classifyB parseC parseA
  rw [if_neg hao, if_neg hzo, ← h.dealer, ← h.size, ← h.ct]

theorem classifyB_cmpl (s : St O) (o : Nat) (m : Bytes) (k : Nat) (h : classifyB s o m = .cmpl k) : k = o := by
  unfold classifyB at h
  repeat' (first | split at h | (simp only [] at h; split at h))
  all_goals first | (cases h; rfl) | cases h

theorem classifyB_vec (s : St O) (o : Nat) (m : Bytes) (d : Bytes) (h : classifyB s o m = .vec d) : o = s.dealer := by
  unfold classifyB at h
  repeat' (first | split at h | (simp only [] at h; split at h))
  all_goals first | assumption | cases h

theorem parseA_lt (s : St O) (data : Bytes) (j : Nat) (sc : Option Nat) (hp : parseA s data = some (j, sc)) :
    j < s.size := by
  unfold parseA at hp
  split at hp
  · cases hp
  · split at hp
    · cases hp
    · cases hp; omega

theorem classifyB_ans (s : St O) (o : Nat) (m : Bytes) (j : Nat) (sc : Option Nat) (h : classifyB s o m = .ans j sc) :
    j < s.size := by
  unfold classifyB at h
  repeat' (first | split at h | (simp only [] at h; split at h))
  all_goals first | cases h | skip
  rename_i hp
  exact parseA_lt s _ j sc hp


/-! ### one delivery at the real participant, and the matching deliveries at the shadow -/

theorem raU_pub (fc : Option Complaint) (v : Bool) (chk : Complaint → Bool) (d1 m1 d2 m2 : Bool) (sc : Option Nat) :
    (raU fc v chk d1 m1 sc).entry = (raU fc v chk d2 m2 sc).entry ∧
    (raU fc v chk d1 m1 sc).disq = (raU fc v chk d2 m2 sc).disq := by
  unfold raU
  cases fc with
  | none => cases sc <;> exact ⟨rfl, rfl⟩
  | some c =>
    simp only []
    split
    · exact ⟨rfl, rfl⟩
    · split
      · cases sc <;> exact ⟨rfl, rfl⟩
      · exact ⟨rfl, rfl⟩

theorem raU_recv (fc : Option Complaint) (v : Bool) (chk : Complaint → Bool) (d m : Bool) (sc : Option Nat)
    (c : Complaint) (h : (raU fc v chk d m sc).entry = some c) :
    c.received = recvOf fc := by
  cases fc with
  | none => exact raU_recv_none v chk d m sc c h
  | some c0 => exact raU_recv_some c0 v chk d m sc c h

/-- the public part of a delivery: what the shadow is given when the real participant processes `e` -/
def pubPart (a : St O) : Dl → List Dl
  | .bcast o m => if o = a.me then [] else [.bcast o m]
  | .priv _ _ => []

/-- the shadow's deliveries for one delivery at the real participant: the broadcast itself, then the participant's
    complaint if this delivery made the participant emit it -/
def zEvents (a : St O) (e : Dl) : List Dl := pubPart a e ++ emitted a (step a e)

theorem pubPart_bcast (a : St O) (o : Nat) (m : Bytes) : pubPart a (.bcast o m) = if o = a.me then [] else [.bcast o m] := rfl
theorem pubPart_priv (a : St O) (o : Nat) (m : Bytes) : pubPart a (.priv o m) = [] := rfl

theorem runList_single (z : St O) (x : Dl) : runList z [x] = step z x := rfl

theorem emitted_nil {a a' : St O} (h : ownRecv a' = ownRecv a) : emitted a a' = [] := by
  unfold emitted
  rw [h]
  cases ownRecv a <;> rfl

theorem any_congr_mem {α : Type} (l : List α) (p q : α → Bool) (h : ∀ x ∈ l, p x = q x) : l.any p = l.any q := by
  induction l with
  | nil => rfl
  | cons x t ih =>
    rw [List.any_cons, List.any_cons, h x (List.mem_cons_self), ih (fun y hy => h y (List.mem_cons_of_mem _ hy))]

theorem anyBad_pub {a : St O} {z : St (shadowOps O zme)} (h : PubEq a z) (zi : ZInv z) (v : O.Vec) :
    anyBad (setVec a v) = anyBad (setVec z v) := by
  unfold anyBad
  rw [setVec_complaints, setVec_complaints, h.tbl]
  apply any_congr_mem
  intro kc hkc
  have hk : kc.1 ≠ zme := zi.noz kc hkc
  unfold entryBad
  rw [cc_setVec, cc_setVec]
  simp [hk]

theorem ownRecv_applyUpd_other (s : St O) (k : Nat) (u : Upd) (hk : s.me ≠ k) : ownRecv (applyUpd s k u) = ownRecv s := by
  unfold ownRecv
  rw [(applyUpd_vA s k u).2.2.1, find_applyUpd_other s s.me k u hk]


theorem classifyB_share (s : St O) (o : Nat) (m : Bytes) (d : Bytes) : classifyB s o m ≠ .share d := by
  intro h
  unfold classifyB at h
  repeat' (first | split at h | (simp only [] at h; split at h))
  all_goals cases h

theorem ownRecv_raOk (a : St O) (j : Nat) (v : Bool) (chk : Complaint → Bool) (d m : Bool) (sc : Option Nat) :
    ownRecv (applyUpd a j (raU (a.find j) v chk d m sc)) = ownRecv a := by
  by_cases hj : a.me = j
  · subst hj
    unfold ownRecv
    rw [(applyUpd_vA a a.me _).2.2.1, find_applyUpd]
    cases he : (raU (a.find a.me) v chk d m sc).entry with
    | none => rfl
    | some c =>
      have hr := raU_recv _ _ _ _ _ _ c he
      simp only [if_true]
      exact hr
  · exact ownRecv_applyUpd_other a j _ hj

/-- **simulation step**: after any delivery at the real participant, its public state equals that of the shadow,
    which was given the same broadcast and, if this delivery made the participant emit its complaint, that
    complaint -/
theorem shadow_step {a : St O} {z : St (shadowOps O zme)} (ai : AInv a) (zi : ZInv z) (h : PubEq a z) (e : Dl)
    (he : e.sender < a.size) :
    PubEq (step a e) (runList z (zEvents a e)) ∧ ZInv (runList z (zEvents a e)) := by
  have hzme : z.me ≠ z.dealer := by rw [zi.me]; have := zi.hdealer; have := zi.hsize; omega
  have hasz : a.size ≤ zme := by rw [h.size]; exact zi.hsize
  have hamz : a.me ≠ zme := by have := ai.melt; omega
  by_cases hd : a.disqualified = true
  · have hzd : z.disqualified = true := by rw [← h.disq]; exact hd
    unfold zEvents
    rw [step_disq a e hd ai.inv.hme, emitted_nil rfl, List.append_nil]
    cases e with
    | priv o m => exact ⟨h, zi⟩
    | bcast o m =>
      rw [pubPart_bcast]
      by_cases ho : o = a.me
      · rw [if_pos ho]; exact ⟨h, zi⟩
      · rw [if_neg ho]
        rw [runList_single, step_disq z _ hzd hzme]; exact ⟨h, zi⟩
  · have hd' : a.disqualified = false := by simpa using hd
    have hzd : z.disqualified = false := by rw [← h.disq]; exact hd'
    have hctOf : a.sharesTimeout = false → a.complaintsTimeout = false := by
      intro hst
      cases hc : a.complaintsTimeout with
      | false => rfl
      | true => rw [ai.tmo hc] at hst; cases hst
    cases e with
    | priv o m =>
      unfold zEvents
      rw [pubPart_priv, List.nil_append, step_classify a _ ai.inv.hme hd']
      have hcl : classify a (.priv o m) = (if a.me = o then .noop else if o = a.dealer then .share m else .noop) := rfl
      rw [hcl]
      by_cases ho : a.me = o
      · rw [if_pos ho]
        show PubEq a (runList z (emitted a a)) ∧ ZInv (runList z (emitted a a))
        rw [emitted_nil rfl]; exact ⟨h, zi⟩
      · rw [if_neg ho]
        by_cases hod : o = a.dealer
        · rw [if_pos hod]
          show PubEq (FvssQ.receiveShare a a.dealer m).1 (runList z (emitted a (FvssQ.receiveShare a a.dealer m).1)) ∧
            ZInv (runList z (emitted a (FvssQ.receiveShare a a.dealer m).1))
          by_cases hn : a.sharesTimeout = true ∨ a.xReceived = true
          · rw [rs_noop a a.dealer rfl m hn, emitted_nil rfl]; exact ⟨h, zi⟩
          · have hst : a.sharesTimeout = false := by
              cases hs : a.sharesTimeout with
              | false => rfl
              | true => exact absurd (Or.inl hs) hn
            have hx : a.xReceived = false := by
              cases hs : a.xReceived with
              | false => rfl
              | true => exact absurd (Or.inr hs) hn
            rw [rs_eq a a.dealer rfl m hst hx]
            cases parseShare O m with
            | none =>
              simp only []
              exact shadow_bc (a := a) (t := markX a)
                (pub_congr h rfl rfl rfl rfl rfl rfl h.disq h.vAR h.vA h.tbl h.st h.ct) zi hd' ai.inv.vecok
                ai.melt ai.inv.hme (hctOf hst) rfl rfl rfl
            | some x =>
              simp only []
              have hp' : PubEq (setX a x) z := pub_congr h rfl rfl rfl rfl rfl rfl h.disq h.vAR h.vA h.tbl h.st h.ct
              unfold rsOk
              by_cases hv : a.vAReceived = true
              · rw [if_pos hv]
                by_cases hl : (!(setX a x).verifyShare) = true
                · rw [if_pos hl]
                  exact shadow_bc (a := a) (t := setX a x) hp' zi hd' ai.inv.vecok ai.melt ai.inv.hme (hctOf hst) rfl rfl rfl
                · rw [if_neg hl, emitted_nil (a := a) (a' := setX a x) (ownRecv_congr rfl rfl)]; exact ⟨hp', zi⟩
              · rw [if_neg hv, emitted_nil (a := a) (a' := setX a x) (ownRecv_congr rfl rfl)]; exact ⟨hp', zi⟩
        · rw [if_neg hod]
          show PubEq a (runList z (emitted a a)) ∧ ZInv (runList z (emitted a a))
          rw [emitted_nil rfl]; exact ⟨h, zi⟩
    | bcast o m =>
      have hos : o < a.size := he
      by_cases ho : o = a.me
      · unfold zEvents
        rw [pubPart_bcast, if_pos ho]
        have hs : step a (.bcast o m) = a := by
          rw [step_classify a _ ai.inv.hme hd']
          show interp a (classifyB a o m) = a
          unfold classifyB; rw [if_pos ho.symm]; rfl
        rw [hs, emitted_nil rfl]; exact ⟨h, zi⟩
      · have hao : a.me ≠ o := fun x => ho x.symm
        have hzo : z.me ≠ o := by rw [zi.me]; omega
        have hoz : o ≠ zme := by omega
        unfold zEvents
        rw [pubPart_bcast, if_neg ho]
        show PubEq (step a (.bcast o m)) (runList (step z (.bcast o m)) (emitted a (step a (.bcast o m)))) ∧
          ZInv (runList (step z (.bcast o m)) (emitted a (step a (.bcast o m))))
        rw [step_classify a _ ai.inv.hme hd', step_classify z _ hzme hzd]
        show PubEq (interp a (classifyB a o m)) (runList (interp z (classifyB z o m)) (emitted a (interp a (classifyB a o m)))) ∧
          ZInv (runList (interp z (classifyB z o m)) (emitted a (interp a (classifyB a o m))))
        rw [classifyB_pub h o m hao hzo]
        cases hK : classifyB a o m with
        | noop =>
          show PubEq a (runList z (emitted a a)) ∧ ZInv (runList z (emitted a a))
          rw [emitted_nil rfl]; exact ⟨h, zi⟩
        | disq =>
          show PubEq (setDisq a true) (runList (setDisq z true) (emitted a (setDisq a true))) ∧
            ZInv (runList (setDisq z true) (emitted a (setDisq a true)))
          rw [emitted_nil (a := a) (a' := setDisq a true) (ownRecv_congr rfl rfl)]
          exact ⟨pub_congr h rfl rfl rfl rfl rfl rfl rfl h.vAR h.vA h.tbl h.st h.ct, zinv_congr zi rfl rfl rfl rfl rfl⟩
        | cmpl k =>
          have hk := classifyB_cmpl a o m k hK
          subst hk
          show PubEq (rcOk a k) (runList (rcOk z k) (emitted a (rcOk a k))) ∧ ZInv (runList (rcOk z k) (emitted a (rcOk a k)))
          rw [rcOk_upd a, rcOk_upd z, emitted_nil (ownRecv_applyUpd_other a _ _ hao)]
          rw [← h.find, ← h.vAR, ← h.ccf _ hoz]
          exact ⟨pub_applyUpd h _ _ _ rfl rfl, zinv_applyUpd zi _ hoz _⟩
        | ans j sc =>
          have hj : j < a.size := classifyB_ans a o m j sc hK
          have hjz : j ≠ zme := by omega
          show PubEq (raOk a j sc) (runList (raOk z j sc) (emitted a (raOk a j sc))) ∧
            ZInv (runList (raOk z j sc) (emitted a (raOk a j sc)))
          rw [raOk_upd a, raOk_upd z, emitted_nil (ownRecv_raOk a j _ _ _ _ sc)]
          rw [← h.find, ← h.vAR, ← h.ccf _ hjz]
          obtain ⟨e1, e2⟩ := raU_pub (a.find j) a.vAReceived (a.checkComplaint j) a.disqualified (decide (j = a.me))
            z.disqualified (decide (j = z.me)) sc
          exact ⟨pub_applyUpd h _ _ _ e1 e2, zinv_applyUpd zi _ hjz _⟩
        | share d => exact absurd hK (classifyB_share a o m d)
        | vec d =>
          show PubEq (FvssQ.receiveVerifVector a a.dealer d).1
              (runList (FvssQ.receiveVerifVector z z.dealer d).1 (emitted a (FvssQ.receiveVerifVector a a.dealer d).1)) ∧
            ZInv (runList (FvssQ.receiveVerifVector z z.dealer d).1 (emitted a (FvssQ.receiveVerifVector a a.dealer d).1))
          by_cases hn : a.sharesTimeout = true ∨ a.vAReceived = true
          · have hnz : z.sharesTimeout = true ∨ z.vAReceived = true := by rw [← h.st, ← h.vAR]; exact hn
            rw [rv_noop a a.dealer rfl d hn, rv_noop z z.dealer rfl d hnz, emitted_nil rfl]; exact ⟨h, zi⟩
          · have hst : a.sharesTimeout = false := by
              cases hs : a.sharesTimeout with
              | false => rfl
              | true => exact absurd (Or.inl hs) hn
            have hv : a.vAReceived = false := by
              cases hs : a.vAReceived with
              | false => rfl
              | true => exact absurd (Or.inr hs) hn
            have hstz : z.sharesTimeout = false := by rw [← h.st]; exact hst
            have hvz : z.vAReceived = false := by rw [← h.vAR]; exact hv
            rw [rv_eq a a.dealer rfl d hst hv, rv_eq z z.dealer rfl d hstz hvz]
            have hpv : parseVec z d = parseVec a d := by unfold parseVec; rw [← h.threshold, ← h.size]
            rw [hpv]
            cases parseVec a d with
            | none =>
              simp only []
              rw [emitted_nil (a := a) (a' := vecBad a) (ownRecv_congr rfl rfl)]
              exact ⟨pub_congr h rfl rfl rfl rfl rfl rfl rfl rfl h.vA h.tbl h.st h.ct, zinv_congr zi rfl rfl rfl rfl rfl⟩
            | some v =>
              simp only []
              have hp' : PubEq (setVec a v) (setVec z v) := pub_congr h rfl rfl rfl rfl rfl rfl h.disq rfl rfl h.tbl h.st h.ct
              have zi' : ZInv (setVec z v) := zinv_congr zi rfl rfl rfl rfl rfl
              have hzside : rvOk z v = if anyBad (setVec a v) then setDisq (setVec z v) true else setVec z v := by
                unfold rvOk
                rw [← anyBad_pub h zi v]
                have hzv : (setVec z v).verifyShare = true := by rw [vs_setVec]; simp [zi.me]
                rw [if_pos zi.xr, hzv]
                rfl
              rw [hzside]
              unfold rvOk
              by_cases hb : anyBad (setVec a v) = true
              · rw [if_pos hb, if_pos hb, emitted_nil (a := a) (a' := setDisq (setVec a v) true) (ownRecv_congr rfl rfl)]
                exact ⟨pub_congr h rfl rfl rfl rfl rfl rfl rfl rfl rfl h.tbl h.st h.ct, zinv_congr zi rfl rfl rfl rfl rfl⟩
              · rw [if_neg hb, if_neg hb]
                by_cases hx : a.xReceived = true
                · rw [if_pos hx]
                  by_cases hl : (!(setVec a v).verifyShare) = true
                  · rw [if_pos hl]
                    exact shadow_bc (a := a) (t := setVec a v) hp' zi' hd' (fun _ _ => rfl) ai.melt ai.inv.hme (hctOf hst)
                      rfl rfl rfl
                  · rw [if_neg hl, emitted_nil (a := a) (a' := setVec a v) (ownRecv_congr rfl rfl)]; exact ⟨hp', zi'⟩
                · rw [if_neg hx, emitted_nil (a := a) (a' := setVec a v) (ownRecv_congr rfl rfl)]; exact ⟨hp', zi'⟩


/-! ### invariants of the real participant along deliveries and timeouts -/

theorem step_cfg (a : St O) (hme : a.me ≠ a.dealer) (e : Dl) : SameCfg a (step a e) := by
  rw [step_run a e hme]; exact run_cfg a _

theorem ainv_step {a : St O} (ai : AInv a) (e : Dl) : AInv (step a e) := by
  have c := step_cfg a ai.inv.hme e
  refine ⟨inv_step a ai.inv e, by rw [c.1, c.2.2.1]; exact ai.melt, ?_⟩
  rw [c.2.2.2.2.1, c.2.2.2.2.2.1]; exact ai.tmo

theorem tstep_me_size (a : St O) : (tstep a).me = a.me ∧ (tstep a).size = a.size ∧ (tstep a).dealer = a.dealer := by
  rw [tstep_eq]
  have hb := bc_cfg (stFlag a)
  repeat' (first | split | (simp only []; split))
  all_goals first | exact ⟨rfl, rfl, rfl⟩ | exact ⟨hb.1, hb.2.2.1, hb.2.1⟩

theorem ainv_tstep {a : St O} (ai : AInv a) : AInv (tstep a) := by
  have c := tstep_me_size a
  exact ⟨inv_tstep a ai.inv, by rw [c.1, c.2.1]; exact ai.melt, fun _ => tstep_st a⟩

/-- **simulation of the timeout**: the shadow takes the same timeout and is then given the complaint the
    participant emits at the timeout (it lands in the next round) -/
theorem shadow_tstep {a : St O} {z : St (shadowOps O zme)} (ai : AInv a) (zi : ZInv z) (h : PubEq a z) :
    PubEq (tstep a) (runList (tstep z) (emitted a (tstep a))) ∧ ZInv (runList (tstep z) (emitted a (tstep a))) := by
  rw [tstep_eq a, tstep_eq z, ← h.disq, ← h.st, ← h.vAR, ← h.tbl, ← h.threshold, zi.xr]
  have pst : PubEq (stFlag a) (stFlag z) := pub_congr h rfl rfl rfl rfl rfl rfl h.disq h.vAR h.vA h.tbl rfl h.ct
  have pct : PubEq (ctFlag a) (ctFlag z) := pub_congr h rfl rfl rfl rfl rfl rfl h.disq h.vAR h.vA h.tbl h.st rfl
  have zst : ZInv (stFlag z) := zinv_congr zi rfl rfl rfl rfl rfl
  have zct : ZInv (ctFlag z) := zinv_congr zi rfl rfl rfl rfl rfl
  by_cases hd : a.disqualified = true
  · rw [if_pos hd, if_pos hd]
    by_cases hst : (!a.sharesTimeout) = true
    · rw [if_pos hst, if_pos hst, emitted_nil (a := a) (a' := stFlag a) (ownRecv_congr rfl rfl)]; exact ⟨pst, zst⟩
    · rw [if_neg hst, if_neg hst, emitted_nil (a := a) (a' := ctFlag a) (ownRecv_congr rfl rfl)]; exact ⟨pct, zct⟩
  · have hd' : a.disqualified = false := by simpa using hd
    rw [if_neg hd, if_neg hd]
    by_cases hst : (!a.sharesTimeout) = true
    · rw [if_pos hst, if_pos hst]
      have hst' : a.sharesTimeout = false := by simpa using hst
      by_cases hv : (!a.vAReceived) = true
      · rw [if_pos hv, if_pos hv, emitted_nil (a := a) (a' := setDisq (stFlag a) true) (ownRecv_congr rfl rfl)]
        exact ⟨pub_congr h rfl rfl rfl rfl rfl rfl rfl h.vAR h.vA h.tbl rfl h.ct, zinv_congr zi rfl rfl rfl rfl rfl⟩
      · rw [if_neg hv, if_neg hv]
        simp only [Bool.not_true, Bool.false_eq_true, if_false]
        by_cases hx : (!a.xReceived) = true
        · rw [if_pos hx]
          have hct : a.complaintsTimeout = false := by
            cases hc : a.complaintsTimeout with
            | false => rfl
            | true => rw [ai.tmo hc] at hst'; cases hst'
          exact shadow_bc (a := a) (t := stFlag a) pst zst hd' ai.inv.vecok ai.melt ai.inv.hme hct rfl rfl rfl
        · rw [if_neg hx, emitted_nil (a := a) (a' := stFlag a) (ownRecv_congr rfl rfl)]; exact ⟨pst, zst⟩
    · rw [if_neg hst, if_neg hst]
      by_cases hl : a.complaints.length > a.threshold
      · rw [if_pos hl, if_pos hl, emitted_nil (a := a) (a' := setDisq (ctFlag a) true) (ownRecv_congr rfl rfl)]
        exact ⟨pub_congr h rfl rfl rfl rfl rfl rfl rfl h.vAR h.vA h.tbl h.st rfl, zinv_congr zi rfl rfl rfl rfl rfl⟩
      · rw [if_neg hl, if_neg hl, emitted_nil (a := a) (a' := ctFlag a) (ownRecv_congr rfl rfl)]; exact ⟨pct, zct⟩

/-! ### whole rounds -/

/-- the shadow's schedule for a round of the real participant -/
def zSched (a : St O) : List Dl → List Dl
  | [] => []
  | e :: l => zEvents a e ++ zSched (step a e) l

theorem runList_append (s : St O) (l1 l2 : List Dl) : runList s (l1 ++ l2) = runList (runList s l1) l2 := by
  unfold runList; rw [List.foldl_append]

theorem runList_size (a : St O) (hme : a.me ≠ a.dealer) (inv : Inv a) (l : List Dl) : (runList a l).size = a.size := by
  induction l generalizing a with
  | nil => rfl
  | cons e t ih =>
    show (runList (step a e) t).size = a.size
    have c := step_cfg a hme e
    rw [ih (step a e) (by rw [c.1, c.2.1]; exact hme) (inv_step a inv e), c.2.2.1]

theorem shadow_run {a : St O} {z : St (shadowOps O zme)} (ai : AInv a) (zi : ZInv z) (h : PubEq a z) (l : List Dl)
    (hl : ∀ e ∈ l, e.sender < a.size) :
    PubEq (runList a l) (runList z (zSched a l)) ∧ ZInv (runList z (zSched a l)) := by
  induction l generalizing a z with
  | nil => exact ⟨h, zi⟩
  | cons e t ih =>
    show PubEq (runList (step a e) t) (runList z (zEvents a e ++ zSched (step a e) t)) ∧
      ZInv (runList z (zEvents a e ++ zSched (step a e) t))
    rw [runList_append]
    obtain ⟨p1, z1⟩ := shadow_step ai zi h e (hl e (List.mem_cons_self))
    have c := step_cfg a ai.inv.hme e
    exact ih (ainv_step ai e) z1 p1 (fun x hx => by rw [c.2.2.1]; exact hl x (List.mem_cons_of_mem _ hx))


/-- the shadow's three rounds for the three rounds of the real participant: a complaint emitted at a timeout is
    delivered at the start of the next round -/
def zR1 (a : St O) (r1 : List Dl) : List Dl := zSched a r1
def zR2 (a : St O) (r1 r2 : List Dl) : List Dl :=
  emitted (runList a r1) (tstep (runList a r1)) ++ zSched (tstep (runList a r1)) r2
def zR3 (a : St O) (r1 r2 r3 : List Dl) : List Dl :=
  emitted (runList (tstep (runList a r1)) r2) (tstep (runList (tstep (runList a r1)) r2)) ++
    zSched (tstep (runList (tstep (runList a r1)) r2)) r3

theorem ainv_runList {a : St O} (ai : AInv a) (l : List Dl) : AInv (runList a l) := by
  induction l generalizing a with
  | nil => exact ai
  | cons e t ih => exact ih (ainv_step ai e)

/-- **the public state of a participant at the end of the three rounds is that of its shadow** -/
theorem shadow_final {a : St O} {z : St (shadowOps O zme)} (ai : AInv a) (zi : ZInv z) (h : PubEq a z)
    (r1 r2 r3 : List Dl) (h1 : ∀ e ∈ r1, e.sender < a.size) (h2 : ∀ e ∈ r2, e.sender < a.size)
    (h3 : ∀ e ∈ r3, e.sender < a.size) :
    PubEq (final a r1 r2 r3) (final z (zR1 a r1) (zR2 a r1 r2) (zR3 a r1 r2 r3)) := by
  unfold final zR1 zR2 zR3
  obtain ⟨p1, z1⟩ := shadow_run ai zi h r1 h1
  have a1 := ainv_runList ai r1
  obtain ⟨p1', z1'⟩ := shadow_tstep a1 z1 p1
  have a1' := ainv_tstep a1
  have s1 : (tstep (runList a r1)).size = a.size := by
    rw [(tstep_me_size _).2.1, runList_size a ai.inv.hme ai.inv r1]
  obtain ⟨p2, z2⟩ := shadow_run a1' z1' p1' r2 (by rw [s1]; exact h2)
  have a2 := ainv_runList a1' r2
  obtain ⟨p2', z2'⟩ := shadow_tstep a2 z2 p2
  have a2' := ainv_tstep a2
  have s2 : (tstep (runList (tstep (runList a r1)) r2)).size = a.size := by
    rw [(tstep_me_size _).2.1, runList_size _ a1'.inv.hme a1'.inv r2, s1]
  obtain ⟨p3, _⟩ := shadow_run a2' z2' p2' r3 (by rw [s2]; exact h3)
  rw [runList_append, runList_append]
  exact p3


/-! ### tie: what the shadow is given is what the participant really broadcasts -/

/-- the callbacks and messages a delivery produces -/
def stepOuts (s : St O) : Dl → List Out
  | .bcast o m => (FvssQ.bcastBody s o m).2
  | .priv o m => (FvssQ.privBody s o m).2

/-- the broadcast messages among the outputs -/
def bcasts : List Out → List Bytes
  | [] => []
  | .bcast m :: l => m :: bcasts l
  | _ :: l => bcasts l

@[simp] theorem bcasts_nil : bcasts [] = [] := rfl
@[simp] theorem bcasts_flag (i : Nat) (l : List Out) : bcasts (.flag i :: l) = bcasts l := rfl
@[simp] theorem bcasts_disq (i : Nat) (l : List Out) : bcasts (.disq i :: l) = bcasts l := rfl
@[simp] theorem bcasts_send (i : Nat) (m : Bytes) (l : List Out) : bcasts (.send i m :: l) = bcasts l := rfl
@[simp] theorem bcasts_bcast (m : Bytes) (l : List Out) : bcasts (.bcast m :: l) = m :: bcasts l := rfl
theorem bcasts_append (l1 l2 : List Out) : bcasts (l1 ++ l2) = bcasts l1 ++ bcasts l2 := by
  induction l1 with
  | nil => rfl
  | cons x t ih => cases x <;> simp [ih]

theorem bc_bcasts (t : St O) : bcasts (FvssQ.buildComplaint t).2 = if ownRecv t then [] else [cmplMsg t.dealer] := by
  unfold FvssQ.buildComplaint ownRecv cmplMsg
  cases hf : t.find t.me with
  | none => simp [recvOf]
  | some c =>
    simp only [recvOf]
    by_cases hr : c.received = true
    · simp [hr]
    · simp only [hr, Bool.false_eq_true, if_false]
      repeat' (first | split | (simp only []; split))
      all_goals simp [bcasts_append]


theorem L_same (s t : St O) (c : Bytes) (h : ownRecv t = ownRecv s) :
    ([] : List Bytes) = if ownRecv s then [] else if ownRecv t then [c] else [] := by
  rw [h]; cases ownRecv s <;> rfl

theorem L_bc (s t : St O) (h1 : ownRecv t = ownRecv s) (hd : t.dealer = s.dealer) :
    bcasts (FvssQ.buildComplaint t).2 =
      if ownRecv s then [] else if ownRecv (FvssQ.buildComplaint t).1 then [cmplMsg s.dealer] else [] := by
  rw [bc_bcasts, ownRecv_bc, h1, hd]
  cases ownRecv s <;> rfl

/-- the broadcasts among the outputs `r.2` of a handler run from `s` are exactly the complaint, if and only if
    the handler set the `received` flag of the participant's own entry -/
def Good (s : St O) (r : St O × List Out) : Prop :=
  bcasts r.2 = if ownRecv s then [] else if ownRecv r.1 then [cmplMsg s.dealer] else []

theorem good_same (s t : St O) (outs : List Out) (h : ownRecv t = ownRecv s) (ho : bcasts outs = []) : Good s (t, outs) := by
  unfold Good; rw [ho]; exact L_same s t _ h

theorem good_bc (s t : St O) (h1 : ownRecv t = ownRecv s) (hd : t.dealer = s.dealer) : Good s (FvssQ.buildComplaint t) :=
  L_bc s t h1 hd

theorem good_bc_flag (s t : St O) (i : Nat) (h1 : ownRecv t = ownRecv s) (hd : t.dealer = s.dealer) :
    Good s ((FvssQ.buildComplaint t).1, (FvssQ.buildComplaint t).2 ++ [.flag i]) := by
  unfold Good
  rw [bcasts_append]
  simp only [bcasts_flag, bcasts_nil, List.append_nil]
  exact L_bc s t h1 hd

theorem rs_good (s : St O) (o : Nat) (d : Bytes) : Good s (FvssQ.receiveShare s o d) := by
  unfold FvssQ.receiveShare FvssQ.badShare
  repeat' (first | split | (simp only []; split))
  all_goals first
    | exact good_same _ _ _ (ownRecv_congr rfl rfl) rfl
    | exact good_bc_flag _ _ _ (ownRecv_congr rfl rfl) rfl
    | exact good_bc _ _ (ownRecv_congr rfl rfl) rfl

theorem rv_good (s : St O) (o : Nat) (d : Bytes) : Good s (FvssQ.receiveVerifVector s o d) := by
  unfold FvssQ.receiveVerifVector
  repeat' (first | split | (simp only []; split))
  all_goals first
    | exact good_same _ _ _ (ownRecv_congr rfl rfl) rfl
    | exact good_bc _ _ (ownRecv_congr rfl rfl) rfl

theorem rc_no_bcast (s : St O) (hme : s.me ≠ s.dealer) (o : Nat) (d : Bytes) : bcasts (FvssQ.receiveComplaint s o d).2 = [] := by
  unfold FvssQ.receiveComplaint
  repeat' (first | split | (simp only []; split))
  all_goals first | rfl | (simp only [St.setC] at *; contradiction) | simp_all

theorem ra_no_bcast (s : St O) (o : Nat) (d : Bytes) : bcasts (FvssQ.receiveComplaintAnswer s o d).2 = [] := by
  unfold FvssQ.receiveComplaintAnswer
  repeat' (first | split | (simp only []; split))
  all_goals first | rfl | simp_all


theorem rc_good (s : St O) (hme : s.me ≠ s.dealer) (o : Nat) (ho : s.me ≠ o) (d : Bytes) : Good s (FvssQ.receiveComplaint s o d) := by
  have hb := rc_no_bcast s hme o d
  have hs : ownRecv (FvssQ.receiveComplaint s o d).1 = ownRecv s := by
    by_cases hct : s.complaintsTimeout = true
    · unfold FvssQ.receiveComplaint; rw [if_pos hct]
    · have hct' : s.complaintsTimeout = false := by simpa using hct
      rw [rc_eq s o d hme hct']
      cases parseC s d with
      | none => simp only []; split <;> exact ownRecv_congr rfl rfl
      | some ce =>
        simp only []
        split
        · rfl
        · split
          · rfl
          · rw [rcOk_upd]; exact ownRecv_applyUpd_other s o _ ho
  unfold Good; rw [hb]; exact L_same s _ _ hs

theorem ra_good (s : St O) (o : Nat) (d : Bytes) : Good s (FvssQ.receiveComplaintAnswer s o d) := by
  have hb := ra_no_bcast s o d
  have hs : ownRecv (FvssQ.receiveComplaintAnswer s o d).1 = ownRecv s := by
    by_cases hod : o = s.dealer
    · subst hod
      rw [ra_eq]
      cases parseA s d with
      | none => exact ownRecv_congr rfl rfl
      | some p =>
        obtain ⟨k, sc⟩ := p
        simp only []
        rw [raOk_upd]; exact ownRecv_raOk s k _ _ _ _ sc
    · unfold FvssQ.receiveComplaintAnswer; rw [if_pos hod]
  unfold Good; rw [hb]; exact L_same s _ _ hs

/-- **the participant broadcasts its complaint exactly when its own table entry gets the `received` flag**:
    tie between the deliveries given to the shadow (`emitted`) and the real outputs of the handlers -/
theorem step_good (a : St O) (hme : a.me ≠ a.dealer) (e : Dl) : Good a (step a e, stepOuts a e) := by
  cases e with
  | priv o m =>
    show Good a (FvssQ.privBody a o m)
    unfold FvssQ.privBody
    split
    · exact good_same _ _ _ rfl rfl
    · split
      · exact good_same _ _ _ rfl rfl
      · exact rs_good a o m
  | bcast o m =>
    show Good a (FvssQ.bcastBody a o m)
    unfold FvssQ.bcastBody
    split
    · exact good_same _ _ _ rfl rfl
    · rename_i ho
      split
      · exact good_same _ _ _ rfl rfl
      · have hbad : Good a ((if o = a.dealer then { a with disqualified := true } else a), [Out.disq o]) := by
          apply good_same _ _ _ _ rfl
          split <;> exact ownRecv_congr rfl rfl
        simp only []
        split
        · exact hbad
        · split
          · exact rv_good a o _
          · split
            · exact rc_good a hme o ho _
            · split
              · exact ra_good a o _
              · exact hbad


/-! ### the public result of `End`, and agreement -/

theorem final_relP (s : St O) (inv : Inv s) (r1 r1' r2 r2' r3 r3' : List Dl)
    (h1 : ∀ c, stream r1 c = stream r1' c) (h2 : ∀ c, stream r2 c = stream r2' c)
    (h3 : ∀ c, stream r3 c = stream r3' c) : RelP (final s r1 r2 r3) (final s r1' r2' r3') := by
  unfold final
  have a1 := round_independent s inv r1 r1' (swaps_of_streams r1 r1' h1)
  have i1 := inv_runList s inv r1
  have i1' := inv_runList s inv r1'
  have b1 := relP_tstep a1 i1.nodup
  have j1 := inv_tstep _ i1
  have j1' := inv_tstep _ i1'
  have a2 : RelP (runList (tstep (runList s r1)) r2) (runList (tstep (runList s r1')) r2') :=
    (relP_runList b1 j1 j1' r2).trans' (round_independent _ j1' r2 r2' (swaps_of_streams r2 r2' h2))
  have i2 := inv_runList _ j1 r2
  have i2' := inv_runList _ j1' r2'
  have b2 := relP_tstep a2 i2.nodup
  have j2 := inv_tstep _ i2
  have j2' := inv_tstep _ i2'
  exact (relP_runList b2 j2 j2' r3).trans' (round_independent _ j2' r3 r3' (swaps_of_streams r3 r3' h3))

/-- some registered complaint was never answered -/
def unanswered (s : St O) : Bool := s.complaints.any (fun kc => kc.2.received && !kc.2.answerReceived)

/-- the public part of what `End` returns: `none` = failure, otherwise the group key and the public key shares -/
def pubRes (s : St O) : Option (Bytes × List Bytes) :=
  if s.disqualified = true ∨ unanswered s = true then none
  else match s.vA with
    | none => none
    | some v => if O.groupKeyIsIdentity v then none else some (O.groupKey v, O.pubShares v)

/-- `End` fails when the public result is a failure; otherwise it returns the public result with the private
    share, unless that share is zero -/
theorem endRes_pubRes (s : St O) : endRes s =
    match pubRes s with
    | none => .failure
    | some Yys => if s.x = 0 then .failure else .keys s.x Yys.1 Yys.2 := by
  rw [endRes_eq]
  unfold pubRes unanswered
  by_cases h : s.disqualified = true ∨ (s.complaints.any fun kc => kc.2.received && !kc.2.answerReceived) = true
  · rw [if_pos h, if_pos h]
  · rw [if_neg h, if_neg h]
    cases s.vA with
    | none => rfl
    | some v =>
      simp only []
      by_cases hi : O.groupKeyIsIdentity v = true
      · rw [if_pos hi, if_pos hi]
        simp only []
        split <;> rfl
      · rw [if_neg hi, if_neg hi]

theorem pubRes_pubEq {a : St O} {z : St (shadowOps O zme)} (h : PubEq a z) : pubRes a = pubRes z := by
  unfold pubRes unanswered
  rw [← h.disq, ← h.tbl, ← h.vA]
  split
  · rfl
  · cases a.vA with
    | none => rfl
    | some v => rfl

theorem pubRes_relP {s t : St O} (h : RelP s t) : pubRes s = pubRes t := by
  unfold pubRes unanswered
  rcases h with h | h
  · simp [h.1, h.2]
  · obtain ⟨_, _, _, _, _, _, g7, _, _, _, _, g12, g13, _, _⟩ := h
    rw [g13, g7, List.Perm.any_eq g12]

/-- a participant right after `Start` (not the dealer) -/
def fresh (O : Ops) (size threshold me dealer : Nat) : St O :=
  { size := size, threshold := threshold, me := me, dealer := dealer, running := true }

/-- the shadow observer right after `Start` -/
def freshZ (O : Ops) (size threshold zme dealer : Nat) : St (shadowOps O zme) :=
  { size := size, threshold := threshold, me := zme, dealer := dealer, running := true, xReceived := true }

theorem inv_fresh (size threshold me dealer : Nat) (h : me ≠ dealer) : Inv (fresh O size threshold me dealer) := by
  refine ⟨h, List.nodup_nil, ?_, ?_, ?_⟩
  · intro k c hc; cases hc
  · intro hv; cases hv
  · intro c hc; cases hc

theorem inv_freshZ (size threshold zme dealer : Nat) (h : zme ≠ dealer) : Inv (freshZ O size threshold zme dealer) := by
  refine ⟨h, List.nodup_nil, ?_, ?_, ?_⟩
  · intro k c hc; cases hc
  · intro hv; cases hv
  · intro c hc; cases hc

/-- **agreement on the public result**: two honest participants (neither is the dealer) whose shadows were given
    the same stream of broadcasts per sender in each round — i.e. every broadcast of a third party lands in the same
    round at both, in the sender's order, and each one's own complaint lands at the other in the round in which
    it was emitted — leave `End` with the same public result: both fail, or both hold the same group key and the
    same vector of public key shares. No assumption on the dealer, on the other senders, on the private messages
    or on the order of deliveries within a round. -/
theorem agreement_pub (size threshold dealer ma mb : Nat) (hd : dealer < size) (hs : size ≤ 256)
    (hma : ma < size) (hmb : mb < size) (hmad : ma ≠ dealer) (hmbd : mb ≠ dealer)
    (ra1 ra2 ra3 rb1 rb2 rb3 : List Dl)
    (ba1 : ∀ e ∈ ra1, e.sender < size) (ba2 : ∀ e ∈ ra2, e.sender < size) (ba3 : ∀ e ∈ ra3, e.sender < size)
    (bb1 : ∀ e ∈ rb1, e.sender < size) (bb2 : ∀ e ∈ rb2, e.sender < size) (bb3 : ∀ e ∈ rb3, e.sender < size)
    (h1 : ∀ c, stream (zR1 (fresh O size threshold ma dealer) ra1) c = stream (zR1 (fresh O size threshold mb dealer) rb1) c)
    (h2 : ∀ c, stream (zR2 (fresh O size threshold ma dealer) ra1 ra2) c =
      stream (zR2 (fresh O size threshold mb dealer) rb1 rb2) c)
    (h3 : ∀ c, stream (zR3 (fresh O size threshold ma dealer) ra1 ra2 ra3) c =
      stream (zR3 (fresh O size threshold mb dealer) rb1 rb2 rb3) c) :
    pubRes (final (fresh O size threshold ma dealer) ra1 ra2 ra3) =
      pubRes (final (fresh O size threshold mb dealer) rb1 rb2 rb3) := by
  have zi : ZInv (freshZ O size threshold size dealer) :=
    ⟨rfl, rfl, fun kc hkc => (by cases hkc), Nat.le_refl _, hd, hs⟩
  have aiA : AInv (fresh O size threshold ma dealer) := ⟨inv_fresh size threshold ma dealer hmad, hma, fun h => by cases h⟩
  have aiB : AInv (fresh O size threshold mb dealer) := ⟨inv_fresh size threshold mb dealer hmbd, hmb, fun h => by cases h⟩
  have pA : PubEq (fresh O size threshold ma dealer) (freshZ O size threshold size dealer) :=
    ⟨rfl, rfl, rfl, rfl, rfl, rfl, rfl, rfl, rfl⟩
  have pB : PubEq (fresh O size threshold mb dealer) (freshZ O size threshold size dealer) :=
    ⟨rfl, rfl, rfl, rfl, rfl, rfl, rfl, rfl, rfl⟩
  have fA := shadow_final aiA zi pA ra1 ra2 ra3 ba1 ba2 ba3
  have fB := shadow_final aiB zi pB rb1 rb2 rb3 bb1 bb2 bb3
  have hz : size ≠ dealer := by omega
  have rel := final_relP (freshZ O size threshold size dealer) (inv_freshZ size threshold size dealer hz) _ _ _ _ _ _ h1 h2 h3
  rw [pubRes_pubEq fA, pubRes_pubEq fB]
  exact pubRes_relP rel


/-! ### the hypothesis in the vocabulary of the network -/

theorem tstep_good (a : St O) : Good a (FvssQ.timeoutBody a) := by
  unfold FvssQ.timeoutBody FvssQ.setSharesTimeout FvssQ.setComplaintsTimeout
  repeat' (first | split | (simp only []; split))
  all_goals first
    | exact good_same _ _ _ (ownRecv_congr rfl rfl) rfl
    | exact good_bc _ _ (ownRecv_congr rfl rfl) rfl

theorem emitted_of_good (a a' : St O) (outs : List Out) (h : Good a (a', outs)) :
    emitted a a' = (bcasts outs).map (Dl.bcast a.me) := by
  unfold Good at h
  unfold emitted zCmpl
  rw [h]
  cases ownRecv a <;> cases ownRecv a' <;> rfl

/-- everything the participant broadcasts while the deliveries of a round are handled, in order -/
def roundOuts (a : St O) : List Dl → List Bytes
  | [] => []
  | e :: l => bcasts (stepOuts a e) ++ roundOuts (step a e) l

/-- what the participant broadcasts at a timeout -/
def timeoutOuts (a : St O) : List Bytes := bcasts (FvssQ.timeoutBody a).2

theorem stream_append (l1 l2 : List Dl) (c : Nat × Bool) : stream (l1 ++ l2) c = stream l1 c ++ stream l2 c := by
  unfold stream; rw [List.filter_append]

theorem stream_map_bcast (k : Nat) (ms : List Bytes) (c : Nat × Bool) :
    stream (ms.map (Dl.bcast k)) c = if c = (k, false) then ms.map (Dl.bcast k) else [] := by
  unfold stream
  induction ms with
  | nil => simp
  | cons m t ih =>
    rw [List.map_cons, List.filter_cons, ih]
    by_cases hc : c = (k, false)
    · subst hc; simp [Dl.chan, Dl.sender, Dl.isPriv]
    · have : ((Dl.bcast k m).chan == c) = false := by
        simp only [Dl.chan, Dl.sender, Dl.isPriv, beq_eq_false_iff_ne, ne_eq]
        exact fun h => hc h.symm
      simp [this, hc]

theorem stream_pubPart (a : St O) (e : Dl) (c : Nat × Bool) :
    stream (pubPart a e) c = if c.2 = true ∨ c.1 = a.me then [] else stream [e] c := by
  obtain ⟨o, p⟩ := c
  cases e with
  | priv o' m =>
    rw [pubPart_priv]
    unfold stream
    cases p
    · simp [Dl.chan, Dl.isPriv]
    · simp
  | bcast o' m =>
    rw [pubPart_bcast]
    unfold stream
    by_cases h1 : o' = a.me
    · rw [if_pos h1]
      cases p
      · by_cases h2 : o = a.me
        · simp [h2]
        · have : ¬ (o' = o) := by rw [h1]; exact fun h => h2 h.symm
          simp [h2, Dl.chan, Dl.sender, Dl.isPriv, this]
      · simp
    · rw [if_neg h1]
      cases p
      · by_cases h2 : o = a.me
        · subst h2
          simp [Dl.chan, Dl.sender, Dl.isPriv, h1]
        · simp [h2]
      · simp [Dl.chan, Dl.isPriv]

theorem step_me (a : St O) (hme : a.me ≠ a.dealer) (e : Dl) : (step a e).me = a.me ∧ (step a e).dealer = a.dealer :=
  ⟨(step_cfg a hme e).1, (step_cfg a hme e).2.1⟩

/-- **the streams of the shadow's round**: on the participant's own channel, exactly what the participant
    broadcast; on every other broadcast channel, what the participant received; nothing on private channels -/
theorem stream_zSched (a : St O) (hme : a.me ≠ a.dealer) (l : List Dl) (c : Nat × Bool) :
    stream (zSched a l) c =
      if c.2 = true then [] else if c.1 = a.me then (roundOuts a l).map (Dl.bcast a.me) else stream l c := by
  induction l generalizing a with
  | nil =>
    show stream [] c = _
    unfold stream roundOuts
    simp
  | cons e t ih =>
    have hs := step_me a hme e
    have ih' := ih (step a e) (by rw [hs.1, hs.2]; exact hme)
    show stream (zEvents a e ++ zSched (step a e) t) c = _
    unfold zEvents
    rw [stream_append, stream_append, ih', stream_pubPart, emitted_of_good a _ _ (step_good a hme e), stream_map_bcast, hs.1]
    obtain ⟨o, p⟩ := c
    show (if p = true ∨ o = a.me then [] else stream [e] (o, p)) ++
      (if (o, p) = (a.me, false) then (bcasts (stepOuts a e)).map (Dl.bcast a.me) else []) ++
      (if p = true then [] else if o = a.me then (roundOuts (step a e) t).map (Dl.bcast a.me) else stream t (o, p)) =
      if p = true then [] else if o = a.me then (roundOuts a (e :: t)).map (Dl.bcast a.me) else stream (e :: t) (o, p)
    cases p
    · by_cases h2 : o = a.me
      · subst h2
        simp [roundOuts]
      · have : ¬ ((o, false) = (a.me, false)) := by
          intro h; exact h2 (Prod.mk.inj h).1
        simp only [Bool.false_eq_true, false_or, h2, if_false, this, List.append_nil]
        rw [← stream_append]; rfl
    · have : ¬ ((o, true) = (a.me, false)) := by
        intro h; cases (Prod.mk.inj h).2
      simp [this]


/-- what the participant broadcasts in each of the three rounds (a broadcast made at a timeout belongs to the
    next round) -/
def bR1 (a : St O) (r1 : List Dl) : List Bytes := roundOuts a r1
def bR2 (a : St O) (r1 r2 : List Dl) : List Bytes :=
  timeoutOuts (runList a r1) ++ roundOuts (tstep (runList a r1)) r2
def bR3 (a : St O) (r1 r2 r3 : List Dl) : List Bytes :=
  timeoutOuts (runList (tstep (runList a r1)) r2) ++ roundOuts (tstep (runList (tstep (runList a r1)) r2)) r3

theorem runList_me (a : St O) (inv : Inv a) (l : List Dl) : (runList a l).me = a.me ∧ (runList a l).dealer = a.dealer := by
  induction l generalizing a with
  | nil => exact ⟨rfl, rfl⟩
  | cons e t ih =>
    have c := step_me a inv.hme e
    have := ih (step a e) (inv_step a inv e)
    exact ⟨this.1.trans c.1, this.2.trans c.2⟩

theorem stream_emitted_tstep (a : St O) (c : Nat × Bool) :
    stream (emitted a (tstep a)) c = if c = (a.me, false) then (timeoutOuts a).map (Dl.bcast a.me) else [] := by
  have h : Good a (tstep a, (FvssQ.timeoutBody a).2) := tstep_good a
  rw [emitted_of_good a _ _ h, stream_map_bcast]
  rfl

theorem stream_round (a0 a : St O) (hme : a.me ≠ a.dealer) (hm : a.me = a0.me) (pre : List Bytes) (l : List Dl) (c : Nat × Bool)
    (E : List Dl) (hE : stream E c = if c = (a0.me, false) then pre.map (Dl.bcast a0.me) else []) :
    stream (E ++ zSched a l) c =
      if c.2 = true then [] else if c.1 = a0.me then (pre ++ roundOuts a l).map (Dl.bcast a0.me) else stream l c := by
  rw [stream_append, hE, stream_zSched a hme l c, hm]
  obtain ⟨o, p⟩ := c
  cases p
  · by_cases h2 : o = a0.me
    · subst h2; simp
    · have : ¬ ((o, false) = (a0.me, false)) := fun h => h2 (Prod.mk.inj h).1
      simp [h2, this]
  · have : ¬ ((o, true) = (a0.me, false)) := fun h => by cases (Prod.mk.inj h).2
    simp [this]

/-- the streams of the shadow's three rounds, in terms of what the participant received and broadcast -/
theorem stream_zR (a : St O) (ai : AInv a) (r1 r2 r3 : List Dl) (c : Nat × Bool) :
    (stream (zR1 a r1) c = if c.2 = true then [] else if c.1 = a.me then (bR1 a r1).map (Dl.bcast a.me) else stream r1 c) ∧
    (stream (zR2 a r1 r2) c = if c.2 = true then [] else if c.1 = a.me then (bR2 a r1 r2).map (Dl.bcast a.me) else stream r2 c) ∧
    (stream (zR3 a r1 r2 r3) c = if c.2 = true then [] else if c.1 = a.me then (bR3 a r1 r2 r3).map (Dl.bcast a.me) else stream r3 c) := by
  have a1 := ainv_runList ai r1
  have a1' := ainv_tstep a1
  have a2 := ainv_runList a1' r2
  have a2' := ainv_tstep a2
  have m1 : (runList a r1).me = a.me := (runList_me a ai.inv r1).1
  have m1' : (tstep (runList a r1)).me = a.me := by rw [(tstep_me_size _).1, m1]
  have m2 : (runList (tstep (runList a r1)) r2).me = a.me := by rw [(runList_me _ a1'.inv r2).1, m1']
  have m2' : (tstep (runList (tstep (runList a r1)) r2)).me = a.me := by rw [(tstep_me_size _).1, m2]
  refine ⟨stream_zSched a ai.inv.hme r1 c, ?_, ?_⟩
  · unfold zR2 bR2
    apply stream_round a _ a1'.inv.hme m1' (timeoutOuts (runList a r1)) r2 c
    rw [stream_emitted_tstep, m1]
  · unfold zR3 bR3
    apply stream_round a _ a2'.inv.hme m2' (timeoutOuts (runList (tstep (runList a r1)) r2)) r3 c
    rw [stream_emitted_tstep, m2]

/-- **reliable broadcast and round synchrony for one round, seen by two honest participants `ma` and `mb`**:
    every broadcast of a third participant (the dealer included) reaches both in this round, in the sender's order;
    what `ma` broadcast in this round (`outA`) is what `mb` received from `ma` in this round, and vice versa.
    Nothing is assumed about private messages, nor about the order in which anything is delivered. -/
structure Net (ma mb : Nat) (ra rb : List Dl) (outA outB : List Bytes) : Prop where
  third : ∀ o, o ≠ ma → o ≠ mb → stream ra (o, false) = stream rb (o, false)
  a_to_b : stream rb (ma, false) = outA.map (Dl.bcast ma)
  b_to_a : stream ra (mb, false) = outB.map (Dl.bcast mb)

theorem streams_of_net {ma mb : Nat} (hab : ma ≠ mb) {ra rb : List Dl} {outA outB : List Bytes}
    (N : Net ma mb ra rb outA outB) (ZA ZB : List Dl)
    (hA : ∀ c : Nat × Bool, stream ZA c = if c.2 = true then [] else if c.1 = ma then outA.map (Dl.bcast ma) else stream ra c)
    (hB : ∀ c : Nat × Bool, stream ZB c = if c.2 = true then [] else if c.1 = mb then outB.map (Dl.bcast mb) else stream rb c) :
    ∀ c, stream ZA c = stream ZB c := by
  intro c
  rw [hA c, hB c]
  obtain ⟨o, p⟩ := c
  cases p
  · simp only [Bool.false_eq_true, if_false]
    by_cases h1 : o = ma
    · subst h1
      rw [if_pos rfl, if_neg hab, N.a_to_b]
    · rw [if_neg h1]
      by_cases h2 : o = mb
      · subst h2
        rw [if_pos rfl, N.b_to_a]
      · rw [if_neg h2]; exact N.third o h1 h2
  · simp

/-- **C07, agreement**: in one execution of Feldman-VSS-Qual, two honest participants that are not the dealer end
    with the same public result — both fail, or both hold the same group public key and the same vector of public
    key shares — whatever the dealer and the other participants send (privately or by broadcast, well formed or
    not, in any round), and in whatever order each of the two receives the messages of a round. The only
    assumptions are those of the property: reliable broadcast with round synchrony (`Net`, once per round), and that
    the two participants themselves run the protocol (their broadcasts are the outputs of the state machine). -/
theorem agreement (size threshold dealer ma mb : Nat) (hd : dealer < size) (hs : size ≤ 256)
    (hma : ma < size) (hmb : mb < size) (hmad : ma ≠ dealer) (hmbd : mb ≠ dealer) (hab : ma ≠ mb)
    (ra1 ra2 ra3 rb1 rb2 rb3 : List Dl)
    (ba1 : ∀ e ∈ ra1, e.sender < size) (ba2 : ∀ e ∈ ra2, e.sender < size) (ba3 : ∀ e ∈ ra3, e.sender < size)
    (bb1 : ∀ e ∈ rb1, e.sender < size) (bb2 : ∀ e ∈ rb2, e.sender < size) (bb3 : ∀ e ∈ rb3, e.sender < size)
    (n1 : Net ma mb ra1 rb1 (bR1 (fresh O size threshold ma dealer) ra1) (bR1 (fresh O size threshold mb dealer) rb1))
    (n2 : Net ma mb ra2 rb2 (bR2 (fresh O size threshold ma dealer) ra1 ra2) (bR2 (fresh O size threshold mb dealer) rb1 rb2))
    (n3 : Net ma mb ra3 rb3 (bR3 (fresh O size threshold ma dealer) ra1 ra2 ra3)
      (bR3 (fresh O size threshold mb dealer) rb1 rb2 rb3)) :
    pubRes (final (fresh O size threshold ma dealer) ra1 ra2 ra3) =
      pubRes (final (fresh O size threshold mb dealer) rb1 rb2 rb3) := by
  have aiA : AInv (fresh O size threshold ma dealer) := ⟨inv_fresh size threshold ma dealer hmad, hma, fun h => by cases h⟩
  have aiB : AInv (fresh O size threshold mb dealer) := ⟨inv_fresh size threshold mb dealer hmbd, hmb, fun h => by cases h⟩
  apply agreement_pub size threshold dealer ma mb hd hs hma hmb hmad hmbd ra1 ra2 ra3 rb1 rb2 rb3 ba1 ba2 ba3 bb1 bb2 bb3
  · exact streams_of_net hab n1 _ _ (fun c => (stream_zR _ aiA ra1 ra2 ra3 c).1) (fun c => (stream_zR _ aiB rb1 rb2 rb3 c).1)
  · exact streams_of_net hab n2 _ _ (fun c => (stream_zR _ aiA ra1 ra2 ra3 c).2.1) (fun c => (stream_zR _ aiB rb1 rb2 rb3 c).2.1)
  · exact streams_of_net hab n3 _ _ (fun c => (stream_zR _ aiA ra1 ra2 ra3 c).2.2) (fun c => (stream_zR _ aiB rb1 rb2 rb3 c).2.2)

end Proofs.DkgAgree
