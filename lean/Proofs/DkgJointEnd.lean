import Proofs.DkgJointAgree
import Proofs.DkgHonest

/-!
# Joint-Feldman: from the API calls of two participants to the agreement of their `End` results

`Proofs.DkgJointAgree` proves agreement instance by instance. Here the instances are put back together:

* `jfinal` runs the *model's API functions* (`Joint.handleBroadcast`, `Joint.handlePrivate`, `Joint.nextTimeout`) over
  three rounds of deliveries; `jfinal_fvss` shows that the participant's `n` instances are then exactly
  `final · r1 r2 r3` of the instances after `Start` (same deliveries to every instance);
* `joint_start_fvss` gives the instances right after `Joint.start`: a fresh receiver instance for every other dealer,
  the dealer's own instance (satisfying `DS`) for itself;
* `joint_feldman_agreement` is the closed statement on two Joint-Feldman participants.
-/

namespace Proofs.DkgAgree
open Model Model.Dkg Proofs.DkgCommute

variable {O : Ops}

/-! ### frames of a delivery and of a timeout, for every instance (dealer's own included) -/

theorem step_cfg_any (s : St O) (e : Dl) : SameCfg s (step s e) := by
  by_cases hme : s.me = s.dealer
  · by_cases hd : s.disqualified = true
    · rw [step_disq' s e hd]; exact SameCfg.rfl' s
    · have hd' : s.disqualified = false := by simpa using hd
      rw [dealer_step s hme hd' e]; exact applyUpd_cfg _ _ _
  · exact step_cfg s hme e

theorem runList_cfg_any (s : St O) (l : List Dl) : SameCfg s (runList s l) := by
  induction l generalizing s with
  | nil => exact SameCfg.rfl' s
  | cons e t ih => exact SameCfg.trans (step_cfg_any s e) (ih (step s e))

theorem tstep_frame (s : St O) :
    (tstep s).running = s.running ∧ (tstep s).size = s.size ∧ (tstep s).sharesTimeout = true ∧
    (tstep s).complaintsTimeout = (if s.sharesTimeout then true else s.complaintsTimeout) := by
  rw [tstep_eq]
  have hb := bc_cfg (stFlag s)
  by_cases hst : s.sharesTimeout = true
  · simp only [hst, Bool.not_true, Bool.false_eq_true, if_false, if_true]
    repeat' split
    all_goals exact ⟨rfl, rfl, hst, rfl⟩
  · have hst' : s.sharesTimeout = false := by simpa using hst
    simp only [hst', Bool.not_false, if_true, Bool.false_eq_true, if_false]
    repeat' split
    all_goals first
      | exact ⟨rfl, rfl, rfl, rfl⟩
      | exact ⟨hb.2.2.2.2.2.2, hb.2.2.1, hb.2.2.2.2.1, hb.2.2.2.2.2.1⟩

/-! ### a Joint-Feldman participant driven through the model's API -/

/-- one delivery through the API of the model (`HandleBroadcastMsg` / `HandlePrivateMsg`) -/
def jdeliver (j : JSt O) : Dl → JSt O
  | .bcast o m => (Joint.handleBroadcast j o m).1
  | .priv o m => (Joint.handlePrivate j o m).1

def jround (j : JSt O) (l : List Dl) : JSt O := l.foldl jdeliver j

def jtimeout (j : JSt O) : JSt O := (Joint.nextTimeout j).1

/-- three rounds of deliveries with the two timeouts in between -/
def jfinal (j : JSt O) (r1 r2 r3 : List Dl) : JSt O :=
  jround (jtimeout (jround (jtimeout (jround j r1)) r2)) r3

/-- the running participant: all instances run, have the participant's size and the same timeout flags -/
structure JI (n : Nat) (st ct : Bool) (j : JSt O) : Prop where
  run : j.jointRunning = true
  all : ∀ s ∈ j.fvss, s.running = true ∧ s.size = n ∧ s.sharesTimeout = st ∧ s.complaintsTimeout = ct

theorem jdeliver_fvss {n : Nat} {st ct : Bool} {j : JSt O} (h : JI n st ct j) (e : Dl) (he : e.sender < n) :
    (jdeliver j e).fvss = j.fvss.map (fun s => step s e) ∧ (jdeliver j e).size = j.size ∧
    (jdeliver j e).threshold = j.threshold ∧ JI n st ct (jdeliver j e) := by
  have hall : ∀ s ∈ j.fvss, s.running = true ∧ e.sender < s.size := fun s hs => by
    obtain ⟨a, b, _, _⟩ := h.all s hs
    exact ⟨a, by rw [b]; exact he⟩
  have key : (jdeliver j e).fvss = j.fvss.map (fun s => step s e) ∧ (jdeliver j e).size = j.size ∧
      (jdeliver j e).threshold = j.threshold ∧ (jdeliver j e).jointRunning = true := by
    cases e with
    | bcast o m =>
      refine ⟨joint_bcast j o m h.run hall, ?_, ?_, ?_⟩
      · simp only [jdeliver, Joint.handleBroadcast, h.run, Bool.not_true, Bool.false_eq_true, if_false]
      · simp only [jdeliver, Joint.handleBroadcast, h.run, Bool.not_true, Bool.false_eq_true, if_false]
      · simp only [jdeliver, Joint.handleBroadcast, h.run, Bool.not_true, Bool.false_eq_true, if_false]
    | priv o m =>
      refine ⟨joint_priv j o m h.run hall, ?_, ?_, ?_⟩
      · simp only [jdeliver, Joint.handlePrivate, h.run, Bool.not_true, Bool.false_eq_true, if_false]
      · simp only [jdeliver, Joint.handlePrivate, h.run, Bool.not_true, Bool.false_eq_true, if_false]
      · simp only [jdeliver, Joint.handlePrivate, h.run, Bool.not_true, Bool.false_eq_true, if_false]
  refine ⟨key.1, key.2.1, key.2.2.1, key.2.2.2, ?_⟩
  intro s hs
  rw [key.1] at hs
  obtain ⟨s0, hs0, rfl⟩ := List.mem_map.1 hs
  obtain ⟨a, b, c, d⟩ := h.all s0 hs0
  have f := step_cfg_any s0 e
  exact ⟨by rw [f.2.2.2.2.2.2]; exact a, by rw [f.2.2.1]; exact b, by rw [f.2.2.2.2.1]; exact c,
    by rw [f.2.2.2.2.2.1]; exact d⟩

theorem jround_fvss {n : Nat} {st ct : Bool} (l : List Dl) (j : JSt O) (h : JI n st ct j)
    (hl : ∀ e ∈ l, e.sender < n) :
    (jround j l).fvss = j.fvss.map (fun s => runList s l) ∧ (jround j l).size = j.size ∧
    (jround j l).threshold = j.threshold ∧ JI n st ct (jround j l) := by
  induction l generalizing j with
  | nil =>
    refine ⟨?_, rfl, rfl, h⟩
    show j.fvss = j.fvss.map (fun s => s)
    rw [List.map_id']
  | cons e t ih =>
    have d := jdeliver_fvss h e (hl e List.mem_cons_self)
    have r := ih (jdeliver j e) d.2.2.2 (fun x hx => hl x (List.mem_cons_of_mem _ hx))
    refine ⟨?_, r.2.1.trans d.2.1, r.2.2.1.trans d.2.2.1, r.2.2.2⟩
    show (jround (jdeliver j e) t).fvss = _
    rw [r.1, d.1, List.map_map]
    rfl

theorem jtimeout_fvss {n : Nat} {st : Bool} {j : JSt O} (h : JI n st false j) :
    (jtimeout j).fvss = j.fvss.map tstep ∧ (jtimeout j).size = j.size ∧ (jtimeout j).threshold = j.threshold ∧
    JI n true st (jtimeout j) := by
  have hall : ∀ s ∈ j.fvss, s.running = true ∧ s.complaintsTimeout = false := fun s hs =>
    ⟨(h.all s hs).1, (h.all s hs).2.2.2⟩
  have k1 : (jtimeout j).fvss = j.fvss.map tstep := joint_timeout j h.run hall
  have k2 : (jtimeout j).size = j.size ∧ (jtimeout j).threshold = j.threshold ∧ (jtimeout j).jointRunning = true := by
    simp only [jtimeout, Joint.nextTimeout, h.run, Bool.not_true, Bool.false_eq_true, if_false, and_self]
  refine ⟨k1, k2.1, k2.2.1, k2.2.2, ?_⟩
  intro s hs
  rw [k1] at hs
  obtain ⟨s0, hs0, rfl⟩ := List.mem_map.1 hs
  obtain ⟨a, b, c, d⟩ := h.all s0 hs0
  have f := tstep_frame s0
  refine ⟨by rw [f.1]; exact a, by rw [f.2.1]; exact b, f.2.2.1, ?_⟩
  rw [f.2.2.2, c, d]
  cases st <;> rfl

/-- **a Joint-Feldman participant is its `n` instances run side by side**: after three rounds through the API the
    instances are the `final` states of the instances it started from, every instance has passed both timeouts -/
theorem jfinal_fvss {n : Nat} (j : JSt O) (h : JI n false false j) (r1 r2 r3 : List Dl)
    (h1 : ∀ e ∈ r1, e.sender < n) (h2 : ∀ e ∈ r2, e.sender < n) (h3 : ∀ e ∈ r3, e.sender < n) :
    (jfinal j r1 r2 r3).fvss = j.fvss.map (fun s => final s r1 r2 r3) ∧ (jfinal j r1 r2 r3).size = j.size ∧
    (jfinal j r1 r2 r3).threshold = j.threshold ∧ JI n true true (jfinal j r1 r2 r3) := by
  have a1 := jround_fvss r1 j h h1
  have t1 := jtimeout_fvss a1.2.2.2
  have a2 := jround_fvss r2 _ t1.2.2.2 h2
  have t2 := jtimeout_fvss a2.2.2.2
  have a3 := jround_fvss r3 _ t2.2.2.2 h3
  refine ⟨?_, ?_, ?_, a3.2.2.2⟩
  · show (jround (jtimeout (jround (jtimeout (jround j r1)) r2)) r3).fvss = _
    rw [a3.1, t2.1, a2.1, t1.1, a1.1]
    simp only [List.map_map]
    rfl
  · exact a3.2.1.trans (t2.2.1.trans (a2.2.1.trans (t1.2.1.trans a1.2.1)))
  · exact a3.2.2.1.trans (t2.2.2.1.trans (a2.2.2.1.trans (t1.2.2.1.trans a1.2.2.1)))

/-! ### the instances right after `Joint.start` -/

theorem forAll_ok (f : St O → St O × List Out × Res) : ∀ (L L' : List (St O)) (o : List Out),
    Joint.forAll f L = (L', o, .ok) → L' = L.map (fun s => (f s).1) ∧ ∀ s ∈ L, (f s).2.2 = .ok
  | [], L', o, h => by
    unfold Joint.forAll at h
    cases h
    exact ⟨rfl, fun s hs => by cases hs⟩
  | s :: rest, L', o, h => by
    unfold Joint.forAll at h
    cases hf : f s with
    | mk s' r =>
      obtain ⟨o1, r1⟩ := r
      rw [hf] at h
      cases r1 with
      | ok =>
        simp only [] at h
        cases hr : Joint.forAll f rest with
        | mk rest' q =>
          obtain ⟨o2, r2⟩ := q
          rw [hr] at h
          simp only [Prod.mk.injEq] at h
          obtain ⟨h1, _, h3⟩ := h
          subst h3
          have ih := forAll_ok f rest rest' o2 hr
          refine ⟨?_, ?_⟩
          · rw [← h1, ih.1, List.map_cons, hf]
          · intro x hx
            rcases List.mem_cons.1 hx with e | e
            · rw [e, hf]
            · exact ih.2 x e
      | _ => simp only [Prod.mk.injEq] at h; exact absurd h.2.2 (by simp)

/-- what the dealer's own instance looks like after a successful `Start` -/
theorem start_dealer_frame (K : Finset Nat) (size threshold me : Nat) (seed : Bytes) (s' : St O) (outs : List Out)
    (h : Dkg.start ({ size := size, threshold := threshold, me := me, dealer := me } : St O) seed = (s', outs, .ok)) :
    (∃ a, DS K (O.vecOfPoly size a) s') ∧ s'.size = size ∧ s'.threshold = threshold ∧ s'.sharesTimeout = false ∧
      s'.complaintsTimeout = false ∧ s'.dealer = me := by
  refine ⟨ds_after_start K size threshold me seed s' outs h, ?_⟩
  unfold Dkg.start Dkg.startBody Dkg.generateShares at h
  simp only [Bool.false_eq_true, if_false, if_true] at h
  cases hg : O.genPoly seed threshold with
  | none => rw [hg] at h; simp at h
  | some a =>
    rw [hg] at h
    simp only [] at h
    cases hl : shareLoop O a me size 1 [] 0 with
    | none => rw [hl] at h; simp at h
    | some r =>
      obtain ⟨o, x⟩ := r
      rw [hl] at h
      simp only [Prod.mk.injEq, and_true] at h
      rw [← h.1]
      exact ⟨rfl, rfl, rfl, rfl, rfl⟩

/-- **the instances of a participant after `Joint.start`**: for every other dealer the fresh receiver instance, for
    itself the dealer instance produced by `Start` (holding a vector `vecOfPoly size a`, invariant `DS`) -/
theorem joint_start_fvss (K : Finset Nat) (size threshold me : Nat) (seed : Bytes) (j : JSt O) (outs : List Out)
    (hme : me < size) (h : Joint.start (Joint.init O size threshold me) seed = (j, outs, .ok)) :
    ∃ sD : St O, (∃ a, DS K (O.vecOfPoly size a) sD) ∧ sD.size = size ∧ sD.threshold = threshold ∧ sD.running = true ∧
      sD.sharesTimeout = false ∧ sD.complaintsTimeout = false ∧ sD.dealer = me ∧
      j.fvss = (List.range size).map (fun i => if i = me then sD else fresh O size threshold me i) ∧
      j.size = size ∧ j.threshold = threshold ∧ j.jointRunning = true := by
  unfold Joint.start at h
  rw [if_neg (by simp [Joint.init])] at h
  cases hf : Joint.forAll (fun s => Dkg.start { s with running := false } seed) (Joint.init O size threshold me).fvss with
  | mk fv q =>
    obtain ⟨o, r⟩ := q
    rw [hf] at h
    simp only [] at h
    cases r with
    | ok =>
      simp only [Prod.mk.injEq, and_true] at h
      obtain ⟨hj, _⟩ := h
      have fo := forAll_ok _ _ _ _ hf
      -- the dealer's own instance
      · have hmem : ({ size := size, threshold := threshold, me := me, dealer := me } : St O) ∈
            (Joint.init O size threshold me).fvss := by
          unfold Joint.init
          exact List.mem_map.2 ⟨me, List.mem_range.2 hme, rfl⟩
        have hok := fo.2 _ hmem
        cases hst : Dkg.start ({ size := size, threshold := threshold, me := me, dealer := me } : St O) seed with
        | mk sD0 q0 =>
          obtain ⟨o0, r0⟩ := q0
          have hr0 : r0 = .ok := by
            have : (Dkg.start ({ ({ size := size, threshold := threshold, me := me, dealer := me } : St O) with
              running := false }) seed).2.2 = .ok := hok
            rw [show ({ ({ size := size, threshold := threshold, me := me, dealer := me } : St O) with
              running := false }) = ({ size := size, threshold := threshold, me := me, dealer := me } : St O) from rfl,
              hst] at this
            exact this
          subst hr0
          have fr := start_dealer_frame K size threshold me seed sD0 o0 hst
          obtain ⟨⟨a, hDS⟩, f1, f2, f3, f4, f5⟩ := fr
          refine ⟨{ sD0 with running := true }, ⟨a, ds_congr hDS rfl rfl rfl rfl rfl rfl rfl⟩, f1, f2, rfl, f3, f4, f5, ?_,
            ?_, ?_, ?_⟩
          · rw [← hj]
            show fv.map (fun s => { s with running := true }) = _
            rw [fo.1]
            unfold Joint.init
            simp only [List.map_map]
            apply List.map_congr_left
            intro i _
            by_cases hi : i = me
            · subst hi
              simp only [Function.comp, if_true]
              rw [show ({ ({ size := size, threshold := threshold, me := i, dealer := i } : St O) with
                running := false }) = ({ size := size, threshold := threshold, me := i, dealer := i } : St O) from rfl, hst]
            · simp only [Function.comp, if_neg hi]
              unfold Dkg.start Dkg.startBody
              simp only [Bool.false_eq_true, if_false]
              rw [if_neg (by simpa using hi)]
              rfl
          · rw [← hj]; rfl
          · rw [← hj]; rfl
          · rw [← hj]
    | _ => simp at h

/-! ### the two instances the participants deal themselves -/

/-- **delivery hypotheses for the instance of an honest dealer**, seen by the dealer itself (rounds `rd1 rd2 rd3`) and by
    an honest receiver whose instance starts in `sR` (rounds `rr1 rr2 rr3`): the receiver gets the dealer's vector `v`
    and a share valid against it in the first round, every answer it sees is valid against `v`, only the at most `t`
    participants of `K` ever complain against the dealer (at the dealer and at the receiver), and each of them is
    answered. This is what an honest dealer, reliable broadcast and round synchrony give (the hypotheses of
    `honest_dealer_view` and `dealer_side_view` together). -/
def OwnNet (K : Finset Nat) (v : O.Vec) (sR : St O) (rd1 rd2 rd3 rr1 rr2 rr3 : List Dl) : Prop :=
  ∃ H : Honest O, H.v0 = v ∧ H.me = sR.me ∧ K.card ≤ sR.threshold ∧
    (∀ o m, Dl.bcast o m ∈ rd1 → m.headD 0 = tagComplaint → o ∈ K) ∧
    (∀ o m, Dl.bcast o m ∈ rd2 → m.headD 0 = tagComplaint → o ∈ K) ∧
    (∀ o m, Dl.bcast o m ∈ rd3 → m.headD 0 = tagComplaint → o ∈ K) ∧
    RoundOK' H K sR false rr1 ∧ RoundOK' H K sR false rr2 ∧ RoundOK' H K sR true rr3 ∧
    (∃ e ∈ rr1, ∃ d, ∀ t, CfgCT sR false t → classify t e = .vec d) ∧
    (∃ e ∈ rr1, ∃ d, ∀ t, CfgCT sR false t → classify t e = .share d) ∧
    (∀ k ∈ K, ∃ a, (∃ e ∈ rr1, ∀ t, CfgCT sR false t → classify t e = .ans k (some a)) ∨
      (∃ e ∈ rr2, ∀ t, CfgCT sR false t → classify t e = .ans k (some a)) ∨
      (∃ e ∈ rr3, ∀ t, CfgCT sR true t → classify t e = .ans k (some a)))

theorem own_instance_views_agree (K : Finset Nat) (v : O.Vec) (sD : St O) (hD : DS K v sD)
    (size threshold rcv dealer : Nat) (hne : rcv ≠ dealer) (hthr : sD.threshold = threshold)
    (rd1 rd2 rd3 rr1 rr2 rr3 : List Dl)
    (N : OwnNet K v (fresh O size threshold rcv dealer) rd1 rd2 rd3 rr1 rr2 rr3) :
    pview (final sD rd1 rd2 rd3) = pview (final (fresh O size threshold rcv dealer) rr1 rr2 rr3) := by
  obtain ⟨H, hv, hme, hK, k1, k2, k3, ok1, ok2, ok3, hvec, hshare, hans⟩ := N
  have hme' : H.me = rcv := hme
  subst hme'
  have hR : HD H (fresh O size threshold H.me dealer) := hd_init H size threshold dealer hne
  rw [dealer_side_view K v sD hD (by rw [hthr]; exact hK) rd1 rd2 rd3 k1 k2 k3,
    honest_dealer_view H K _ hR rfl rfl hK (fun k c hc => by cases hc) rr1 rr2 rr3 ok1 ok2 ok3 hvec hshare hans, hv]

/-! ### the closed statement -/

/-- **agreement of two honest Joint-Feldman participants, on executions of the model's API**: `A` and `B` are started
    with `Joint.start` (any seeds), receive three rounds of deliveries through `HandleBroadcastMsg` /
    `HandlePrivateMsg` with `NextTimeout` in between (`jfinal`), and call `End`. If
    * the network is a reliable broadcast with synchronous rounds for every third-party dealer's instance (`NetD`:
      what a third party broadcasts reaches both, possibly in different orders and interleavings; what `A`'s
      instance of dealer `d` broadcasts — computed by the model, `bR1..3` — is what `B` receives from `A` about `d`,
      and vice versa) — the dealer and every other participant may behave arbitrarily —, and
    * the two instances `A` and `B` deal themselves are delivered as an honest dealer's are (`OwnNet`, for the
      vector the dealer actually holds after `Start`),
    then both `End` calls have the same public result: both fail (too many disqualified dealers or an identity
    group key) or both return the same group public key and the same public key shares, each with its own private
    share (a participant fails privately only if its combined share is zero). -/
theorem joint_feldman_agreement (size threshold A B : Nat) (hs : size ≤ 256) (hA : A < size) (hB : B < size)
    (hab : A ≠ B) (seedA seedB : Bytes) (jA jB : JSt O) (outsA outsB : List Out)
    (stA : Joint.start (Joint.init O size threshold A) seedA = (jA, outsA, .ok))
    (stB : Joint.start (Joint.init O size threshold B) seedB = (jB, outsB, .ok))
    (rA1 rA2 rA3 rB1 rB2 rB3 : List Dl)
    (ba1 : ∀ e ∈ rA1, e.sender < size) (ba2 : ∀ e ∈ rA2, e.sender < size) (ba3 : ∀ e ∈ rA3, e.sender < size)
    (bb1 : ∀ e ∈ rB1, e.sender < size) (bb2 : ∀ e ∈ rB2, e.sender < size) (bb3 : ∀ e ∈ rB3, e.sender < size)
    (third : ∀ d, d < size → d ≠ A → d ≠ B →
      NetD d A B rA1 rB1 (bR1 (fresh O size threshold A d) rA1) (bR1 (fresh O size threshold B d) rB1) ∧
      NetD d A B rA2 rB2 (bR2 (fresh O size threshold A d) rA1 rA2) (bR2 (fresh O size threshold B d) rB1 rB2) ∧
      NetD d A B rA3 rB3 (bR3 (fresh O size threshold A d) rA1 rA2 rA3) (bR3 (fresh O size threshold B d) rB1 rB2 rB3))
    (KA KB : Finset Nat)
    (ownA : ∀ sD ∈ jA.fvss, sD.dealer = A → ∀ v, sD.vA = some v →
      OwnNet KA v (fresh O size threshold B A) rA1 rA2 rA3 rB1 rB2 rB3)
    (ownB : ∀ sD ∈ jB.fvss, sD.dealer = B → ∀ v, sD.vA = some v →
      OwnNet KB v (fresh O size threshold A B) rB1 rB2 rB3 rA1 rA2 rA3) :
    ∃ pub : Option (Bytes × List Bytes), ∃ xA xB : Nat,
      (Joint.end_ (jfinal jA rA1 rA2 rA3)).2.2 =
        (match pub with | none => .failure | some Yys => if xA = 0 then .failure else .keys xA Yys.1 Yys.2) ∧
      (Joint.end_ (jfinal jB rB1 rB2 rB3)).2.2 =
        (match pub with | none => .failure | some Yys => if xB = 0 then .failure else .keys xB Yys.1 Yys.2) := by
  obtain ⟨sDA, ⟨aA, dsA⟩, a1, a2, a3, a4, a5, a6, fvA, szA, thA, runA⟩ :=
    joint_start_fvss KA size threshold A seedA jA outsA hA stA
  obtain ⟨sDB, ⟨aB, dsB⟩, b1, b2, b3, b4, b5, b6, fvB, szB, thB, runB⟩ :=
    joint_start_fvss KB size threshold B seedB jB outsB hB stB
  have jiA : JI size false false jA := by
    refine ⟨runA, ?_⟩
    intro s hs'
    rw [fvA] at hs'
    obtain ⟨i, _, rfl⟩ := List.mem_map.1 hs'
    by_cases hi : i = A
    · rw [if_pos hi]; exact ⟨a3, a1, a4, a5⟩
    · rw [if_neg hi]; exact ⟨rfl, rfl, rfl, rfl⟩
  have jiB : JI size false false jB := by
    refine ⟨runB, ?_⟩
    intro s hs'
    rw [fvB] at hs'
    obtain ⟨i, _, rfl⟩ := List.mem_map.1 hs'
    by_cases hi : i = B
    · rw [if_pos hi]; exact ⟨b3, b1, b4, b5⟩
    · rw [if_neg hi]; exact ⟨rfl, rfl, rfl, rfl⟩
  have fA := jfinal_fvss jA jiA rA1 rA2 rA3 ba1 ba2 ba3
  have fB := jfinal_fvss jB jiB rB1 rB2 rB3 bb1 bb2 bb3
  have memA : sDA ∈ jA.fvss := by
    rw [fvA]; exact List.mem_map.2 ⟨A, List.mem_range.2 hA, by rw [if_pos rfl]⟩
  have memB : sDB ∈ jB.fvss := by
    rw [fvB]; exact List.mem_map.2 ⟨B, List.mem_range.2 hB, by rw [if_pos rfl]⟩
  have hv : (jfinal jA rA1 rA2 rA3).fvss.map pview = (jfinal jB rB1 rB2 rB3).fvss.map pview := by
    rw [fA.1, fB.1, fvA, fvB]
    simp only [List.map_map]
    apply List.map_congr_left
    intro i hi
    have hi' : i < size := List.mem_range.1 hi
    simp only [Function.comp]
    by_cases hiA : i = A
    · subst hiA
      rw [if_pos rfl, if_neg hab]
      exact own_instance_views_agree KA _ sDA dsA size threshold B i (Ne.symm hab) a2 rA1 rA2 rA3 rB1 rB2 rB3
        (ownA sDA memA a6 _ dsA.vA)
    · by_cases hiB : i = B
      · subst hiB
        rw [if_neg hiA, if_pos rfl]
        exact (own_instance_views_agree KB _ sDB dsB size threshold A i hab b2 rB1 rB2 rB3 rA1 rA2 rA3
          (ownB sDB memB b6 _ dsB.vA)).symm
      · rw [if_neg hiA, if_neg hiB]
        obtain ⟨n1, n2, n3⟩ := third i hi' hiA hiB
        exact pview_agree_instance size threshold i A B hi' hs hA hB (Ne.symm hiA) (Ne.symm hiB) hab
          rA1 rA2 rA3 rB1 rB2 rB3 ba1 ba2 ba3 bb1 bb2 bb3 n1 n2 n3
  have tA : ∀ s ∈ (jfinal jA rA1 rA2 rA3).fvss, s.sharesTimeout = true ∧ s.complaintsTimeout = true :=
    fun s hs' => ⟨(fA.2.2.2.all s hs').2.2.1, (fA.2.2.2.all s hs').2.2.2⟩
  have tB : ∀ s ∈ (jfinal jB rB1 rB2 rB3).fvss, s.sharesTimeout = true ∧ s.complaintsTimeout = true :=
    fun s hs' => ⟨(fB.2.2.2.all s hs').2.2.1, (fB.2.2.2.all s hs').2.2.2⟩
  refine ⟨jpub size threshold (jfinal jA rA1 rA2 rA3).fvss, jshare (jfinal jA rA1 rA2 rA3).fvss,
    jshare (jfinal jB rB1 rB2 rB3).fvss, ?_, ?_⟩
  · rw [joint_end _ fA.2.2.2.run tA, jres_jpub, fA.2.1, fA.2.2.1, szA, thA]
    cases jpub size threshold (jfinal jA rA1 rA2 rA3).fvss <;> rfl
  · rw [joint_end _ fB.2.2.2.run tB, jres_jpub, fB.2.1, fB.2.2.1, szB, thB,
      ← jpub_of_pviews size threshold _ _ hv]
    cases jpub size threshold (jfinal jA rA1 rA2 rA3).fvss <;> rfl

end Proofs.DkgAgree
