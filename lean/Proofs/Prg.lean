import Model.Prg

/-! Lemmas about the cipher/PRG model (C14). Core Lean only. -/

namespace Model.Prg

theorem split_lemma {α} (P F b : List α) (T rem n : Nat) (hT : T ≤ P.length)
    (hn : T + n = P.length + F.length + rem) :
    ((P ++ F ++ b).take (T + n)).drop T = P.drop T ++ F ++ b.take rem ∧
    (P ++ F ++ b).drop (T + n) = b.drop rem := by
  have e1 : (P ++ F ++ b).take (T + n) = P ++ F ++ b.take rem := by
    rw [hn, show P.length + F.length + rem = (P ++ F).length + rem by simp]
    rw [List.take_length_add_append]
  have e2 : (P ++ F ++ b).drop (T + n) = b.drop rem := by
    rw [hn, show P.length + F.length + rem = (P ++ F).length + rem by simp]
    rw [List.drop_length_add_append]
  refine ⟨?_, e2⟩
  rw [e1, List.append_assoc, List.drop_append_of_le_length hT, List.append_assoc]

variable (blk : Nat → Bytes)

theorem blocks_length (hblk : ∀ i, (blk i).length = 64) (s q : Nat) :
    (blocks blk s q).length = 64 * q := by
  induction q generalizing s with
  | zero => simp [blocks]
  | succ q ih => simp [blocks, ih, hblk]; omega

theorem blocks_append (s a b : Nat) :
    blocks blk s (a + b) = blocks blk s a ++ blocks blk (s + a) b := by
  induction a generalizing s with
  | zero => simp [blocks]
  | succ a ih =>
    have : a + 1 + b = (a + b) + 1 := by omega
    rw [this]
    simp only [blocks, List.append_assoc]
    rw [ih]
    congr 3
    omega

theorem blocks_one (s : Nat) : blocks blk s 1 = blk s := by simp [blocks]

/-- keystream prefix of `n` bytes: what RFC 8439 defines for block counters 0, 1, 2, … -/
def keystream (n : Nat) : Bytes := (blocks blk 0 (n / 64 + 1)).take n

theorem blocks_take_mono (hblk : ∀ i, (blk i).length = 64) (a b n : Nat) (h : n ≤ 64 * a) :
    (blocks blk 0 (a + b)).take n = (blocks blk 0 a).take n := by
  rw [blocks_append]
  rw [List.take_append_of_le_length]
  rw [blocks_length blk hblk]; exact h

theorem keystream_eq (hblk : ∀ i, (blk i).length = 64) (n m : Nat) (h : n ≤ 64 * m) :
    keystream blk n = (blocks blk 0 m).take n := by
  unfold keystream
  by_cases hm : n / 64 + 1 ≤ m
  · obtain ⟨d, rfl⟩ := Nat.exists_eq_add_of_le hm
    rw [blocks_take_mono blk hblk (n / 64 + 1) d n (by omega)]
  · have : m ≤ n / 64 + 1 := by omega
    obtain ⟨d, hd⟩ := Nat.exists_eq_add_of_le this
    rw [hd, blocks_take_mono blk hblk m d n h]

theorem keystream_length (hblk : ∀ i, (blk i).length = 64) (n : Nat) :
    (keystream blk n).length = n := by
  unfold keystream
  rw [List.length_take, blocks_length blk hblk]
  omega

theorem keystream_prefix (hblk : ∀ i, (blk i).length = 64) (m n : Nat) (h : m ≤ n) :
    (keystream blk n).take m = keystream blk m := by
  rw [keystream_eq blk hblk n (n / 64 + 1) (by omega), keystream_eq blk hblk m (n / 64 + 1) (by omega)]
  rw [List.take_take]
  congr 1
  omega

/-- The cipher object after `T` bytes of output. -/
def Inv (c : Cipher) (T : Nat) : Prop :=
  T ≤ 64 * c.ctr ∧ 64 * c.ctr < T + 64 ∧ c.buf = (blocks blk 0 c.ctr).drop T

theorem Inv.unique {c c' : Cipher} {T : Nat} (h : Inv blk c T) (h' : Inv blk c' T) : c = c' := by
  obtain ⟨h1, h2, h3⟩ := h
  obtain ⟨h1', h2', h3'⟩ := h'
  have : c.ctr = c'.ctr := by omega
  cases c; cases c'; simp_all

theorem Inv.buf_length (hblk : ∀ i, (blk i).length = 64) {c : Cipher} {T : Nat} (h : Inv blk c T) :
    c.buf.length = 64 * c.ctr - T := by
  rw [h.2.2, List.length_drop, blocks_length blk hblk]

theorem inv_init : Inv blk { ctr := 0, buf := [] } 0 := by
  simp [Inv, blocks]

/-- `take n` outputs bytes `T .. T+n` of the keystream and re-establishes the invariant. -/
theorem take_spec (hblk : ∀ i, (blk i).length = 64) (c : Cipher) (T n : Nat) (h : Inv blk c T) :
    (c.take blk n).2 = (keystream blk (T + n)).drop T ∧ Inv blk (c.take blk n).1 (T + n) := by
  have hlen := h.buf_length blk hblk
  obtain ⟨h1, h2, h3⟩ := h
  unfold Cipher.take
  split
  · next hle =>
    refine ⟨?_, ?_, ?_, ?_⟩
    · rw [keystream_eq blk hblk (T + n) c.ctr (by omega)]
      simp only
      rw [h3, List.drop_take]
      congr 1
      omega
    · simp only; omega
    · simp only; omega
    · simp only
      rw [h3, List.drop_drop]
  · next hgt =>
    simp only
    split
    · next hrem =>
      have hq : n - c.buf.length = 64 * ((n - c.buf.length) / 64) := by
        have := Nat.div_add_mod (n - c.buf.length) 64
        omega
      refine ⟨?_, ?_, ?_, ?_⟩
      · simp only
        rw [keystream_eq blk hblk (T + n) (c.ctr + (n - c.buf.length) / 64) (by omega)]
        rw [blocks_append, Nat.zero_add]
        rw [List.take_of_length_le (by
          rw [List.length_append, blocks_length blk hblk, blocks_length blk hblk]; omega)]
        rw [List.drop_append_of_le_length (by rw [blocks_length blk hblk]; exact h1)]
        rw [← h3]
      · simp only; omega
      · simp only; omega
      · simp only
        rw [List.drop_of_length_le]
        rw [blocks_length blk hblk]; omega
    · next hrem =>
      have hdm := Nat.div_add_mod (n - c.buf.length) 64
      have hml := Nat.mod_lt (n - c.buf.length) (by omega : 64 > 0)
      have hP := blocks_length blk hblk 0 c.ctr
      have hF := blocks_length blk hblk c.ctr ((n - c.buf.length) / 64)
      have hb := hblk (c.ctr + (n - c.buf.length) / 64)
      have hsp := split_lemma (blocks blk 0 c.ctr) (blocks blk c.ctr ((n - c.buf.length) / 64))
        (blk (c.ctr + (n - c.buf.length) / 64)) T ((n - c.buf.length) % 64) n (by omega) (by omega)
      have hall : blocks blk 0 (c.ctr + (n - c.buf.length) / 64 + 1) =
          blocks blk 0 c.ctr ++ blocks blk c.ctr ((n - c.buf.length) / 64)
            ++ blk (c.ctr + (n - c.buf.length) / 64) := by
        rw [blocks_append, blocks_append, Nat.zero_add, blocks_one, Nat.zero_add]
      refine ⟨?_, ?_, ?_, ?_⟩
      · simp only
        rw [keystream_eq blk hblk (T + n) (c.ctr + (n - c.buf.length) / 64 + 1) (by omega)]
        rw [hall, hsp.1, ← h3]
      · simp only; omega
      · simp only; omega
      · simp only
        rw [hall, hsp.2]

end Model.Prg

namespace Model

theorem natLE_length (k n : Nat) : (natLE k n).length = k := by
  induction k generalizing n with
  | zero => rfl
  | succ k ih => simp [natLE, ih]

theorem leNat_natLE (k n : Nat) : leNat (natLE k n) = n % 256 ^ k := by
  induction k generalizing n with
  | zero => simp [natLE, leNat, Nat.mod_one]
  | succ k ih =>
    simp only [natLE, leNat, ih]
    have h1 : (UInt8.ofNat (n % 256)).toNat = n % 256 := by
      simp [UInt8.toNat_ofNat']
    rw [h1, Nat.pow_succ, Nat.mul_comm (256 ^ k) 256, Nat.mod_mul]

end Model
