import Proofs.DkgJointEnd

/-!
# What an honest dealer emits at `Start`, and that a receiver accepts it

`OwnNet` (Proofs/DkgJointEnd) is a hypothesis on what an honest dealer's instance receives. Its round-one part is
discharged here from the dealer's own `Start`: the outputs of `Start` are one broadcast of the verification vector and
one private share message per other participant (`start_outputs`), and - given the three laws that tie the writers to
the readers of the crypto record (`OpsLaws`) - a receiver classifies exactly these two messages as the dealer's vector
and its own valid share (`emission_allowed`).
-/

namespace Proofs.DkgAgree
open Model Model.Dkg Proofs.DkgCommute

variable {O : Ops}

/-- the writers and readers of the crypto record agree on the polynomial `a`, and the Feldman check accepts the shares
    of `a` against the vector of `a` -/
structure OpsLaws (O : Ops) (size threshold : Nat) (a : List Nat) : Prop where
  vecLen : (O.vecBytes a).length = verifVectorSize * (threshold + 1)
  vecRead : O.readVec threshold size (O.vecBytes a) = some (O.vecOfPoly size a)
  shareLen : ∀ i, (O.writeScalar (O.polyEval a i)).length = shareSize
  shareRead : ∀ i, O.polyEval a i ≠ 0 → O.readScalar (O.writeScalar (O.polyEval a i)) = some (O.polyEval a i)
  shareOk : ∀ i, i < size → O.checkLog (O.vecOfPoly size a) i (O.polyEval a (i + 1)) = true

/-- the share loop keeps what it has output and adds the share message of every other participant it passes -/
theorem shareLoop_sends (a : List Nat) (me : Nat) : ∀ (k i : Nat) (outs : List Out) (x : Nat) (outs' : List Out) (x' : Nat),
    shareLoop O a me k i outs x = some (outs', x') →
      (∀ o ∈ outs, o ∈ outs') ∧
      ∀ j, i ≤ j → j < i + k → j - 1 ≠ me → Out.send (j - 1) (tagShare :: O.writeScalar (O.polyEval a j)) ∈ outs' := by
  intro k
  induction k with
  | zero =>
    intro i outs x outs' x' h
    unfold shareLoop at h
    cases h
    exact ⟨fun o ho => ho, fun j h1 h2 => by omega⟩
  | succ k ih =>
    intro i outs x outs' x' h
    unfold shareLoop at h
    simp only [] at h
    by_cases hme : i - 1 = me
    · rw [if_pos hme] at h
      by_cases h0 : O.polyEval a i = 0
      · rw [if_pos h0] at h; cases h
      · rw [if_neg h0] at h
        obtain ⟨r1, r2⟩ := ih (i + 1) outs _ outs' x' h
        refine ⟨r1, ?_⟩
        intro j h1 h2 h3
        by_cases hj : j = i
        · subst hj; exact absurd hme h3
        · exact r2 j (by omega) (by omega) h3
    · rw [if_neg hme] at h
      obtain ⟨r1, r2⟩ := ih (i + 1) _ x outs' x' h
      refine ⟨fun o ho => r1 o (List.mem_append_left _ ho), ?_⟩
      intro j h1 h2 h3
      by_cases hj : j = i
      · subst hj
        exact r1 _ (List.mem_append_right _ (List.mem_singleton.2 rfl))
      · exact r2 j (by omega) (by omega) h3

/-- **what `Start` emits at the dealer**: the broadcast of the verification vector of the polynomial it drew, and to
    every other participant `i` the private message carrying `a(i+1)`; the dealer keeps `vecOfPoly size a` -/
theorem start_outputs (size threshold me : Nat) (seed : Bytes) (s' : St O) (outs : List Out)
    (h : Dkg.start ({ size := size, threshold := threshold, me := me, dealer := me } : St O) seed = (s', outs, .ok)) :
    ∃ a, O.genPoly seed threshold = some a ∧ s'.a = a ∧ s'.vA = some (O.vecOfPoly size a) ∧
      Out.bcast (tagVerifVec :: O.vecBytes a) ∈ outs ∧
      ∀ i, i < size → i ≠ me → Out.send i (tagShare :: O.writeScalar (O.polyEval a (i + 1))) ∈ outs := by
  unfold Dkg.start Dkg.startBody Dkg.generateShares at h
  simp only [Bool.false_eq_true, if_false, if_true] at h
  cases hg : O.genPoly seed threshold with
  | none => rw [hg] at h; simp at h
  | some a =>
    rw [hg] at h
    simp only [] at h
    cases hl : shareLoop O a me size 1 [] 0 with
    | none => rw [hl] at h; simp at h
    | some r =>
      obtain ⟨o, x⟩ := r
      rw [hl] at h
      simp only [Prod.mk.injEq, and_true] at h
      obtain ⟨hs, ho⟩ := h
      have sl := shareLoop_sends (O := O) a me size 1 [] 0 o x hl
      refine ⟨a, rfl, by rw [← hs], by rw [← hs], ?_, ?_⟩
      · rw [← ho]; exact List.mem_append_right _ (List.mem_singleton.2 rfl)
      · intro i hi hne
        rw [← ho]
        apply List.mem_append_left
        have := sl.2 (i + 1) (by omega) (by omega) (by simpa using hne)
        simpa using this

/-- the honest-dealer record a receiver `rcv` derives from the dealer's polynomial -/
def honestOf (size threshold : Nat) (a : List Nat) (L : OpsLaws O size threshold a) (rcv : Nat) (hr : rcv < size) :
    Honest O :=
  { v0 := O.vecOfPoly size a, vb := O.vecBytes a, x0 := O.polyEval a (rcv + 1),
    sb := tagShare :: O.writeScalar (O.polyEval a (rcv + 1)), me := rcv, shareOk := L.shareOk rcv hr }

/-- **a receiver accepts what the honest dealer emits**: the dealer's broadcast and the private message addressed to
    `rcv` are classified, in every state of `rcv`'s instance, as the dealer's vector and `rcv`'s share, and both are
    deliveries an honest dealer can cause (`AllowedK`) - the round-one content of `OwnNet`. The receiver's share must not be zero (a zero share is refused by the
    reader, as in the code: probability 2^-255 for an honest dealer) -/
theorem emission_allowed (size threshold dealer rcv : Nat) (hne : rcv ≠ dealer) (hr : rcv < size) (a : List Nat)
    (L : OpsLaws O size threshold a) (hx : O.polyEval a (rcv + 1) ≠ 0) (ct : Bool) (t : St O)
    (ht : CfgCT (fresh O size threshold rcv dealer) ct t) :
    classify t (.bcast dealer (tagVerifVec :: O.vecBytes a)) = .vec (O.vecBytes a) ∧
    AllowedK (honestOf size threshold a L rcv hr) t (.vec (O.vecBytes a)) ∧
    classify t (.priv dealer (tagShare :: O.writeScalar (O.polyEval a (rcv + 1)))) =
      .share (tagShare :: O.writeScalar (O.polyEval a (rcv + 1))) ∧
    AllowedK (honestOf size threshold a L rcv hr) t (.share (tagShare :: O.writeScalar (O.polyEval a (rcv + 1)))) := by
  obtain ⟨h1, h2, h3, h4, _⟩ := ht
  have e1 : t.me = rcv := h1
  have e2 : t.dealer = dealer := h2
  have e3 : t.size = size := h3
  have e4 : t.threshold = threshold := h4
  refine ⟨?_, ⟨rfl, ?_⟩, ?_, ⟨rfl, ?_⟩⟩
  · show classifyB t dealer (tagVerifVec :: O.vecBytes a) = _
    unfold classifyB
    rw [if_neg (by rw [e1]; exact hne)]
    simp [e2, tagVerifVec]
  · show parseVec t (O.vecBytes a) = some (O.vecOfPoly size a)
    unfold parseVec
    rw [e4, e3, if_neg (fun hh => hh L.vecLen)]
    exact L.vecRead
  · show (if t.me = dealer then Kind.noop else if dealer = t.dealer then Kind.share _ else Kind.noop) = _
    rw [if_neg (by rw [e1]; exact hne), if_pos e2.symm]
  · show parseShare O (tagShare :: O.writeScalar (O.polyEval a (rcv + 1))) = some (O.polyEval a (rcv + 1))
    unfold parseShare
    rw [if_neg (by simp), if_neg (by simp [L.shareLen])]
    exact L.shareRead _ hx

end Proofs.DkgAgree
