import Proofs.DkgNonzero
import Proofs.DkgBlame
import Proofs.DkgJoint
import Proofs.DkgHonest

/-! Agreement inside Joint-Feldman, instance by instance.

In Joint-Feldman every participant runs `n` Feldman-VSS-Qual instances and every broadcast is handed to all of them.
For the instance of a dealer `d`, a broadcast of another honest participant `A ≠ d` is *irrelevant* unless it is `A`'s
complaint against `d`: `A`'s own verification vector, its answers to complaints against itself, its complaints
against other dealers are all ignored by the instance (`irrelevant_noop`). Removing the irrelevant deliveries from a
schedule changes neither the state nor what the instance broadcasts (`filter_round`, `filter_exec`), so the
two-receiver theorem `Proofs.DkgAgree.agreement` applies to every instance of a Joint-Feldman execution whose dealer
is neither of the two participants, with the network hypothesis stated on the *full* broadcast streams
(`agreement_instance`). -/

namespace Proofs.DkgAgree
open Model Model.Dkg Proofs.DkgCommute
variable {O : Ops}

/-- a broadcast of participant `A` that is not `A`'s complaint against dealer `d` -/
def irrelevant (A d : Nat) : Dl → Bool
  | .bcast o m => o == A && m != cmplMsg d
  | .priv _ _ => false

theorem cmplMsg_of_parse (s : St O) (m : Bytes) (hd : s.dealer < 256) (h0 : m.length ≠ 0) (ht : m.headD 0 = tagComplaint)
    (hp : parseC s (m.drop 1) = some s.dealer) : m = cmplMsg s.dealer := by
  unfold parseC at hp
  split at hp
  · cases hp
  · rename_i hl
    split at hp
    · cases hp
    · have hl' : (m.drop 1).length = 1 := by simpa using hl
      match m, h0, ht, hl', hp with
      | [a, b], _, ht, _, hp =>
        have ha : a = tagComplaint := ht
        have hb : b.toNat = s.dealer := by simpa using hp
        unfold cmplMsg
        rw [ha]
        congr 2
        rw [← hb]
        exact (UInt8.ofNat_toNat).symm

/-- **an irrelevant broadcast is ignored**: the state does not change and nothing is broadcast -/
theorem irrelevant_noop (s : St O) (hme : s.me ≠ s.dealer) (A : Nat) (hAd : A ≠ s.dealer) (hd : s.dealer < 256)
    (e : Dl) (h : irrelevant A s.dealer e = true) : step s e = s ∧ bcasts (stepOuts s e) = [] := by
  have hstep : step s e = s := by
    cases e with
    | priv o m => cases h
    | bcast o m =>
      have hh : (o == A && m != cmplMsg s.dealer) = true := h
      rw [Bool.and_eq_true] at hh
      have ho : o = A := by simpa using hh.1
      have hm : m ≠ cmplMsg s.dealer := by simpa using hh.2
      subst ho
      rw [step_run s _ hme]
      unfold run
      split
      · rfl
      · show interp s (classifyB s o m) = s
        have hk : classifyB s o m = .noop := by
          unfold classifyB
          by_cases h1 : s.me = o
          · rw [if_pos h1]
          · rw [if_neg h1]
            by_cases h2 : m.length = 0
            · rw [if_pos h2, if_neg hAd]
            · rw [if_neg h2]
              by_cases h3 : m.headD 0 = tagVerifVec
              · rw [if_pos h3, if_neg hAd]
              · rw [if_neg h3]
                by_cases h4 : m.headD 0 = tagComplaint
                · rw [if_pos h4]
                  by_cases h5 : s.complaintsTimeout = true
                  · rw [if_pos h5]
                  · rw [if_neg h5]
                    cases hp : parseC s (m.drop 1) with
                    | none => simp only []; rw [if_neg hAd]
                    | some ce =>
                      simp only []
                      rw [if_neg hAd]
                      by_cases h6 : ce ≠ s.dealer
                      · rw [if_pos h6]
                      · have : ce = s.dealer := by simpa using h6
                        subst this
                        exact absurd (cmplMsg_of_parse s m hd h2 h4 hp) hm
                · rw [if_neg h4]
                  by_cases h7 : m.headD 0 = tagAnswer
                  · rw [if_pos h7, if_neg hAd]
                  · rw [if_neg h7, if_neg hAd]
        rw [hk]; rfl
  refine ⟨hstep, ?_⟩
  have g : Good s (step s e, stepOuts s e) := step_good s hme e
  unfold Good at g
  rw [g]
  simp only [hstep]
  cases ownRecv s <;> rfl

/-- drop the irrelevant broadcasts of `A` from a schedule -/
def relevantOnly (A d : Nat) (l : List Dl) : List Dl := l.filter (fun e => !irrelevant A d e)

/-- **dropping the irrelevant broadcasts changes neither the state after the round nor what the instance
    broadcasts during it** -/
theorem filter_round (s : St O) (inv : Inv s) (A : Nat) (hAd : A ≠ s.dealer) (hd : s.dealer < 256) (l : List Dl) :
    runList s (relevantOnly A s.dealer l) = runList s l ∧ roundOuts s (relevantOnly A s.dealer l) = roundOuts s l := by
  induction l generalizing s with
  | nil => exact ⟨rfl, rfl⟩
  | cons e t ih =>
    have c := step_cfg s inv.hme e
    have ih' := ih (step s e) (inv_step s inv e) (by rw [c.2.1]; exact hAd) (by rw [c.2.1]; exact hd)
    rw [c.2.1] at ih'
    unfold relevantOnly at *
    rw [List.filter_cons]
    by_cases hir : irrelevant A s.dealer e = true
    · obtain ⟨h1, h2⟩ := irrelevant_noop s inv.hme A hAd hd e hir
      simp only [hir, Bool.not_true, Bool.false_eq_true, if_false]
      rw [h1] at ih'
      refine ⟨?_, ?_⟩
      · show _ = runList (step s e) t
        rw [h1]; exact ih'.1
      · show _ = bcasts (stepOuts s e) ++ roundOuts (step s e) t
        rw [h2, h1, List.nil_append]; exact ih'.2
    · have hir' : irrelevant A s.dealer e = false := by simpa using hir
      simp only [hir', Bool.not_false, if_true]
      refine ⟨?_, ?_⟩
      · show runList (step s e) _ = runList (step s e) t
        exact ih'.1
      · show bcasts (stepOuts s e) ++ roundOuts (step s e) _ = bcasts (stepOuts s e) ++ roundOuts (step s e) t
        rw [ih'.2]

/-- the same for a whole execution -/
theorem filter_exec (s : St O) (inv : Inv s) (A : Nat) (hAd : A ≠ s.dealer) (hd : s.dealer < 256) (r1 r2 r3 : List Dl) :
    final s (relevantOnly A s.dealer r1) (relevantOnly A s.dealer r2) (relevantOnly A s.dealer r3) = final s r1 r2 r3 ∧
    bR1 s (relevantOnly A s.dealer r1) = bR1 s r1 ∧
    bR2 s (relevantOnly A s.dealer r1) (relevantOnly A s.dealer r2) = bR2 s r1 r2 ∧
    bR3 s (relevantOnly A s.dealer r1) (relevantOnly A s.dealer r2) (relevantOnly A s.dealer r3) = bR3 s r1 r2 r3 := by
  have f1 := filter_round s inv A hAd hd r1
  have i1 := inv_runList s inv r1
  have j1 := inv_tstep _ i1
  have d1 : (tstep (runList s r1)).dealer = s.dealer := by rw [(tstep_me_size _).2.2, (runList_me s inv r1).2]
  have f2 := filter_round (tstep (runList s r1)) j1 A (by rw [d1]; exact hAd) (by rw [d1]; exact hd) r2
  rw [d1] at f2
  have i2 := inv_runList _ j1 r2
  have j2 := inv_tstep _ i2
  have d2 : (tstep (runList (tstep (runList s r1)) r2)).dealer = s.dealer := by
    rw [(tstep_me_size _).2.2, (runList_me _ j1 r2).2, d1]
  have f3 := filter_round (tstep (runList (tstep (runList s r1)) r2)) j2 A (by rw [d2]; exact hAd) (by rw [d2]; exact hd) r3
  rw [d2] at f3
  unfold final bR1 bR2 bR3
  rw [f1.1, f1.2, f2.1, f2.2, f3.1, f3.2]
  exact ⟨rfl, rfl, rfl, rfl⟩

/-! ### streams of a filtered schedule -/

theorem stream_filter_other (A d : Nat) (l : List Dl) (c : Nat × Bool) (h : c ≠ (A, false)) :
    stream (relevantOnly A d l) c = stream l c := by
  unfold stream relevantOnly
  rw [List.filter_filter]
  apply List.filter_congr
  intro e _
  cases e with
  | priv o m => simp [irrelevant]
  | bcast o m =>
    by_cases ho : o = A
    · subst ho
      have : ((Dl.bcast o m).chan == c) = false := by
        simp only [Dl.chan, Dl.sender, Dl.isPriv, beq_eq_false_iff_ne, ne_eq]
        exact fun e => h e.symm
      simp [this]
    · have : (o == A) = false := by simpa using ho
      simp [irrelevant, this]

theorem stream_filter_self (A d : Nat) (l : List Dl) :
    stream (relevantOnly A d l) (A, false) = (stream l (A, false)).filter (fun e => !irrelevant A d e) := by
  unfold stream relevantOnly
  rw [List.filter_filter, List.filter_filter]
  apply List.filter_congr
  intro e _
  exact Bool.and_comm _ _

/-- **reliable broadcast and round synchrony for one round of Joint-Feldman, seen by the instances of dealer `d` at
    two honest participants `ma`, `mb`**: the streams are the *full* broadcast streams (every message goes to every
    instance); among what `mb` received from `ma`, the complaints against `d` are what `ma`'s instance broadcast -/
structure NetD (d ma mb : Nat) (ra rb : List Dl) (outA outB : List Bytes) : Prop where
  third : ∀ o, o ≠ ma → o ≠ mb → stream ra (o, false) = stream rb (o, false)
  a_to_b : (stream rb (ma, false)).filter (fun e => !irrelevant ma d e) = outA.map (Dl.bcast ma)
  b_to_a : (stream ra (mb, false)).filter (fun e => !irrelevant mb d e) = outB.map (Dl.bcast mb)

theorem net_of_netD {d ma mb : Nat} (hab : ma ≠ mb) {ra rb : List Dl} {outA outB : List Bytes}
    (N : NetD d ma mb ra rb outA outB) : Net ma mb (relevantOnly mb d ra) (relevantOnly ma d rb) outA outB := by
  refine ⟨?_, ?_, ?_⟩
  · intro o h1 h2
    rw [stream_filter_other mb d ra _ (fun e => h2 (Prod.mk.inj e).1),
      stream_filter_other ma d rb _ (fun e => h1 (Prod.mk.inj e).1)]
    exact N.third o h1 h2
  · rw [stream_filter_self]; exact N.a_to_b
  · rw [stream_filter_self]; exact N.b_to_a

/-- **agreement on every instance of a Joint-Feldman execution whose dealer is neither of the two participants**
    (the dealer may be honest or not): the two honest participants end the instance with the same public result
    — the same verdict on the dealer and, if it is qualified, the same contribution to the group key and to the
    public key shares — for every behaviour of everybody else and every delivery order. -/
theorem agreement_instance (size threshold dealer ma mb : Nat) (hd : dealer < size) (hs : size ≤ 256)
    (hma : ma < size) (hmb : mb < size) (hmad : ma ≠ dealer) (hmbd : mb ≠ dealer) (hab : ma ≠ mb)
    (ra1 ra2 ra3 rb1 rb2 rb3 : List Dl)
    (ba1 : ∀ e ∈ ra1, e.sender < size) (ba2 : ∀ e ∈ ra2, e.sender < size) (ba3 : ∀ e ∈ ra3, e.sender < size)
    (bb1 : ∀ e ∈ rb1, e.sender < size) (bb2 : ∀ e ∈ rb2, e.sender < size) (bb3 : ∀ e ∈ rb3, e.sender < size)
    (n1 : NetD dealer ma mb ra1 rb1 (bR1 (fresh O size threshold ma dealer) ra1) (bR1 (fresh O size threshold mb dealer) rb1))
    (n2 : NetD dealer ma mb ra2 rb2 (bR2 (fresh O size threshold ma dealer) ra1 ra2)
      (bR2 (fresh O size threshold mb dealer) rb1 rb2))
    (n3 : NetD dealer ma mb ra3 rb3 (bR3 (fresh O size threshold ma dealer) ra1 ra2 ra3)
      (bR3 (fresh O size threshold mb dealer) rb1 rb2 rb3)) :
    pubRes (final (fresh O size threshold ma dealer) ra1 ra2 ra3) =
      pubRes (final (fresh O size threshold mb dealer) rb1 rb2 rb3) := by
  have hd256 : dealer < 256 := by omega
  have fA : final (fresh O size threshold ma dealer) (relevantOnly mb dealer ra1) (relevantOnly mb dealer ra2)
        (relevantOnly mb dealer ra3) = final (fresh O size threshold ma dealer) ra1 ra2 ra3 ∧
      bR1 (fresh O size threshold ma dealer) (relevantOnly mb dealer ra1) = bR1 (fresh O size threshold ma dealer) ra1 ∧
      bR2 (fresh O size threshold ma dealer) (relevantOnly mb dealer ra1) (relevantOnly mb dealer ra2) =
        bR2 (fresh O size threshold ma dealer) ra1 ra2 ∧
      bR3 (fresh O size threshold ma dealer) (relevantOnly mb dealer ra1) (relevantOnly mb dealer ra2)
        (relevantOnly mb dealer ra3) = bR3 (fresh O size threshold ma dealer) ra1 ra2 ra3 :=
    filter_exec (fresh O size threshold ma dealer) (inv_fresh size threshold ma dealer hmad) mb hmbd hd256 ra1 ra2 ra3
  have fB : final (fresh O size threshold mb dealer) (relevantOnly ma dealer rb1) (relevantOnly ma dealer rb2)
        (relevantOnly ma dealer rb3) = final (fresh O size threshold mb dealer) rb1 rb2 rb3 ∧
      bR1 (fresh O size threshold mb dealer) (relevantOnly ma dealer rb1) = bR1 (fresh O size threshold mb dealer) rb1 ∧
      bR2 (fresh O size threshold mb dealer) (relevantOnly ma dealer rb1) (relevantOnly ma dealer rb2) =
        bR2 (fresh O size threshold mb dealer) rb1 rb2 ∧
      bR3 (fresh O size threshold mb dealer) (relevantOnly ma dealer rb1) (relevantOnly ma dealer rb2)
        (relevantOnly ma dealer rb3) = bR3 (fresh O size threshold mb dealer) rb1 rb2 rb3 :=
    filter_exec (fresh O size threshold mb dealer) (inv_fresh size threshold mb dealer hmbd) ma hmad hd256 rb1 rb2 rb3
  have sub : ∀ (A : Nat) (l : List Dl), (∀ e ∈ l, e.sender < size) → ∀ e ∈ relevantOnly A dealer l, e.sender < size :=
    fun A l h e he => h e (List.mem_filter.1 he).1
  have := agreement (O := O) size threshold dealer ma mb hd hs hma hmb hmad hmbd hab
    (relevantOnly mb dealer ra1) (relevantOnly mb dealer ra2) (relevantOnly mb dealer ra3)
    (relevantOnly ma dealer rb1) (relevantOnly ma dealer rb2) (relevantOnly ma dealer rb3)
    (sub mb ra1 ba1) (sub mb ra2 ba2) (sub mb ra3 ba3) (sub ma rb1 bb1) (sub ma rb2 bb2) (sub ma rb3 bb3)
    (by rw [fA.2.1, fB.2.1]; exact net_of_netD hab n1)
    (by rw [fA.2.2.1, fB.2.2.1]; exact net_of_netD hab n2)
    (by rw [fA.2.2.2, fB.2.2.2]; exact net_of_netD hab n3)
  rw [fA.1, fB.1] at this
  exact this


/-! ### no blame inside Joint-Feldman -/

/-- the broadcasts an honest participant of Joint-Feldman makes: its verification vector, answers to complaints
    against itself, complaints against a dealer -/
def honestMsg (size : Nat) (m : Bytes) : Bool :=
  m.headD 0 == tagVerifVec || m.headD 0 == tagAnswer ||
  (m.headD 0 == tagComplaint && m.length == 2 && decide ((m.getD 1 0).toNat < size))

/-- **an irrelevant honest broadcast of `A` draws no blame** from the instance of another dealer (complaints only
    before the second timeout, which is when honest participants make them) -/
theorem irrelevant_honest_noblame (s : St O) (A : Nat) (hAd : A ≠ s.dealer) (m : Bytes) (hm : m.length ≠ 0)
    (hh : honestMsg s.size m = true) (hir : m ≠ cmplMsg s.dealer) (hd : s.dealer < 256)
    (hct : m.headD 0 = tagComplaint → s.complaintsTimeout = false) :
    NoBlame A (stepOuts s (.bcast A m)) := by
  show NoBlame A (FvssQ.bcastBody s A m).2
  unfold FvssQ.bcastBody
  split
  · rfl
  · split
    · rfl
    · simp only [hm, if_false]
      by_cases h1 : m.headD 0 = tagVerifVec
      · rw [if_pos h1]
        unfold FvssQ.receiveVerifVector; rw [if_pos hAd]; rfl
      · rw [if_neg h1]
        by_cases h2 : m.headD 0 = tagComplaint
        · rw [if_pos h2]
          -- a complaint against another dealer
          unfold honestMsg at hh
          have e1 : (m.headD 0 == tagVerifVec) = false := by simpa using h1
          have e2 : (m.headD 0 == tagAnswer) = false := by rw [h2]; decide
          have e3 : (m.headD 0 == tagComplaint) = true := by simpa using h2
          simp only [e1, e2, e3, Bool.false_or, Bool.true_and, Bool.and_eq_true, beq_iff_eq, decide_eq_true_eq] at hh
          obtain ⟨hl, hb⟩ := hh
          match m, hl, h2, hb, hir with
          | [a, b], _, h2, hb, hir =>
            have ha : a = tagComplaint := h2
            have hb' : b.toNat < s.size := by simpa using hb
            have hne : b.toNat ≠ s.dealer := by
              intro hbd
              apply hir
              unfold cmplMsg
              rw [ha]
              congr 2
              rw [← hbd]; exact (UInt8.ofNat_toNat).symm
            unfold FvssQ.receiveComplaint
            rw [if_neg (by simp [hct h2])]
            simp only [List.drop_succ_cons, List.drop_zero, List.length_singleton, ne_eq, not_true_eq_false, if_false,
              List.headD_cons]
            rw [if_neg (by omega), if_neg hAd, if_pos hne]
            rfl
        · rw [if_neg h2]
          have h3 : m.headD 0 = tagAnswer := by
            unfold honestMsg at hh
            have e1 : (m.headD 0 == tagVerifVec) = false := by simpa using h1
            have e3 : (m.headD 0 == tagComplaint) = false := by simpa using h2
            rw [e1, e3, Bool.false_or, Bool.false_and, Bool.false_and, Bool.or_false] at hh
            simpa using hh
          rw [if_pos h3]
          unfold FvssQ.receiveComplaintAnswer; rw [if_pos hAd]; rfl

/-- the broadcasts of `A` in a schedule are honest ones, and its complaints come before the second timeout -/
def HonestFrom (A size : Nat) (lateOK : Bool) (l : List Dl) : Prop :=
  ∀ m, Dl.bcast A m ∈ l → m.length ≠ 0 ∧ honestMsg size m = true ∧ (m.headD 0 = tagComplaint → lateOK = false)

/-- **one round of an instance inside Joint-Feldman never blames the honest participant `A`**: `A`'s broadcasts are
    honest ones; among them the complaints against this instance's dealer are none, or one (not received before,
    before the second timeout) -/
theorem run_noblame_joint (s : St O) (inv : Inv s) (A : Nat) (hA : A ≠ s.dealer) (hAme : A ≠ s.me) (hd : s.dealer < 256)
    (l : List Dl) (hon : HonestFrom A s.size s.complaintsTimeout l)
    (hl : stream (relevantOnly A s.dealer l) (A, false) = [] ∨
      (stream (relevantOnly A s.dealer l) (A, false) = [zCmpl A s.dealer] ∧ recvAt s A = false ∧ s.complaintsTimeout = false)) :
    NoBlame A (runOuts s l) := by
  -- the filtered schedule draws no blame (`run_noblame`); each dropped delivery draws none and changes nothing
  have key : ∀ (l : List Dl) (s : St O), Inv s → A ≠ s.dealer → s.dealer < 256 → HonestFrom A s.size s.complaintsTimeout l →
      NoBlame A (runOuts s (relevantOnly A s.dealer l)) → NoBlame A (runOuts s l) := by
    intro l
    induction l with
    | nil => intro s _ _ _ _ h; exact h
    | cons e t ih =>
      intro s inv hA hd hon h
      have c := step_cfg s inv.hme e
      have hon' : HonestFrom A (step s e).size (step s e).complaintsTimeout t := by
        rw [c.2.2.1, c.2.2.2.2.2.1]
        intro m hm; exact hon m (List.mem_cons_of_mem _ hm)
      unfold relevantOnly at h
      rw [List.filter_cons] at h
      show NoBlame A (stepOuts s e ++ runOuts (step s e) t)
      by_cases hir : irrelevant A s.dealer e = true
      · simp only [hir, Bool.not_true, Bool.false_eq_true, if_false] at h
        obtain ⟨h1, _⟩ := irrelevant_noop s inv.hme A hA hd e hir
        have rest := ih (step s e) (inv_step s inv e) (by rw [c.2.1]; exact hA) (by rw [c.2.1]; exact hd) hon'
          (by rw [c.2.1, h1]; exact h)
        refine NoBlame.append ?_ rest
        cases e with
        | priv o m => cases hir
        | bcast o m =>
          have hh : (o == A && m != cmplMsg s.dealer) = true := hir
          rw [Bool.and_eq_true] at hh
          have ho : o = A := by simpa using hh.1
          have hm : m ≠ cmplMsg s.dealer := by simpa using hh.2
          subst ho
          obtain ⟨g1, g2, g3⟩ := hon m (List.mem_cons_self)
          exact irrelevant_honest_noblame s o hA m g1 g2 hm hd (fun ht => by
            cases hc : s.complaintsTimeout with
            | false => rfl
            | true => rw [hc] at g3; exact absurd (g3 ht) (by decide))
      · have hir' : irrelevant A s.dealer e = false := by simpa using hir
        simp only [hir', Bool.not_false, if_true] at h
        have h' : NoBlame A (stepOuts s e ++ runOuts (step s e) (relevantOnly A s.dealer t)) := h
        unfold NoBlame at h' ⊢
        rw [List.all_append] at h' ⊢
        rw [Bool.and_eq_true] at h' ⊢
        refine ⟨h'.1, ?_⟩
        have := ih (step s e) (inv_step s inv e) (by rw [c.2.1]; exact hA) (by rw [c.2.1]; exact hd) hon'
          (by rw [c.2.1]; exact h'.2)
        exact this
  exact key l s inv hA hd hon (run_noblame s inv A hA hAme (relevantOnly A s.dealer l) hl).1


/-! ### from the instances to the result of Joint-Feldman's `End` -/

/-- what Joint `End` uses of an instance, publicly: the settled verdict and, if the dealer is qualified, its vector -/
def pview (s : St O) : Bool × Option O.Vec :=
  let t := (FvssQ.settle s).1
  (t.disqualified, if t.disqualified then none else t.vA)

theorem pview_eq (s : St O) : pview s =
    if s.disqualified = true ∨ unanswered s = true then (true, none) else (false, s.vA) := by
  unfold pview unanswered
  rw [settle_eq]
  by_cases hd : s.disqualified = true
  · simp [hd]
  · have hd' : s.disqualified = false := by simpa using hd
    by_cases hu : (s.complaints.any fun kc => kc.2.received && !kc.2.answerReceived) = true
    · simp [hd', hu]
    · have hu' : (s.complaints.any fun kc => kc.2.received && !kc.2.answerReceived) = false := by simpa using hu
      simp [hd', hu']

theorem pview_pubEq {zme : Nat} {a : St O} {z : St (shadowOps O zme)} (h : PubEq a z) : pview a = pview z := by
  rw [pview_eq, pview_eq]
  unfold unanswered
  rw [← h.disq, ← h.tbl, ← h.vA]

theorem pview_relP {s t : St O} (h : RelP s t) : pview s = pview t := by
  rw [pview_eq, pview_eq]
  unfold unanswered
  rcases h with h | h
  · simp [h.1, h.2]
  · obtain ⟨_, _, _, _, _, _, g7, _, _, _, _, g12, g13, _, _⟩ := h
    rw [g13, g7, List.Perm.any_eq g12]

/-- the public view of the final state, from the shadow's -/
theorem pview_agree (size threshold dealer ma mb : Nat) (hd : dealer < size) (hs : size ≤ 256)
    (hma : ma < size) (hmb : mb < size) (hmad : ma ≠ dealer) (hmbd : mb ≠ dealer)
    (ra1 ra2 ra3 rb1 rb2 rb3 : List Dl)
    (ba1 : ∀ e ∈ ra1, e.sender < size) (ba2 : ∀ e ∈ ra2, e.sender < size) (ba3 : ∀ e ∈ ra3, e.sender < size)
    (bb1 : ∀ e ∈ rb1, e.sender < size) (bb2 : ∀ e ∈ rb2, e.sender < size) (bb3 : ∀ e ∈ rb3, e.sender < size)
    (h1 : ∀ c, stream (zR1 (fresh O size threshold ma dealer) ra1) c = stream (zR1 (fresh O size threshold mb dealer) rb1) c)
    (h2 : ∀ c, stream (zR2 (fresh O size threshold ma dealer) ra1 ra2) c =
      stream (zR2 (fresh O size threshold mb dealer) rb1 rb2) c)
    (h3 : ∀ c, stream (zR3 (fresh O size threshold ma dealer) ra1 ra2 ra3) c =
      stream (zR3 (fresh O size threshold mb dealer) rb1 rb2 rb3) c) :
    pview (final (fresh O size threshold ma dealer) ra1 ra2 ra3) =
      pview (final (fresh O size threshold mb dealer) rb1 rb2 rb3) := by
  have zi : ZInv (freshZ O size threshold size dealer) :=
    ⟨rfl, rfl, fun kc hkc => (by cases hkc), Nat.le_refl _, hd, hs⟩
  have aiA : AInv (fresh O size threshold ma dealer) := ⟨inv_fresh size threshold ma dealer hmad, hma, fun h => by cases h⟩
  have aiB : AInv (fresh O size threshold mb dealer) := ⟨inv_fresh size threshold mb dealer hmbd, hmb, fun h => by cases h⟩
  have pA : PubEq (fresh O size threshold ma dealer) (freshZ O size threshold size dealer) :=
    ⟨rfl, rfl, rfl, rfl, rfl, rfl, rfl, rfl, rfl⟩
  have pB : PubEq (fresh O size threshold mb dealer) (freshZ O size threshold size dealer) :=
    ⟨rfl, rfl, rfl, rfl, rfl, rfl, rfl, rfl, rfl⟩
  have fA := shadow_final aiA zi pA ra1 ra2 ra3 ba1 ba2 ba3
  have fB := shadow_final aiB zi pB rb1 rb2 rb3 bb1 bb2 bb3
  have hz : size ≠ dealer := by omega
  have rel := final_relP (freshZ O size threshold size dealer) (inv_freshZ size threshold size dealer hz) _ _ _ _ _ _ h1 h2 h3
  rw [pview_pubEq fA, pview_pubEq fB]
  exact pview_relP rel

/-- **the public view of an instance agrees** (verdict after `End`'s settling and, if qualified, the dealer's vector),
    on the full broadcast streams of a Joint-Feldman execution -/
theorem pview_agree_instance (size threshold dealer ma mb : Nat) (hd : dealer < size) (hs : size ≤ 256)
    (hma : ma < size) (hmb : mb < size) (hmad : ma ≠ dealer) (hmbd : mb ≠ dealer) (hab : ma ≠ mb)
    (ra1 ra2 ra3 rb1 rb2 rb3 : List Dl)
    (ba1 : ∀ e ∈ ra1, e.sender < size) (ba2 : ∀ e ∈ ra2, e.sender < size) (ba3 : ∀ e ∈ ra3, e.sender < size)
    (bb1 : ∀ e ∈ rb1, e.sender < size) (bb2 : ∀ e ∈ rb2, e.sender < size) (bb3 : ∀ e ∈ rb3, e.sender < size)
    (n1 : NetD dealer ma mb ra1 rb1 (bR1 (fresh O size threshold ma dealer) ra1) (bR1 (fresh O size threshold mb dealer) rb1))
    (n2 : NetD dealer ma mb ra2 rb2 (bR2 (fresh O size threshold ma dealer) ra1 ra2)
      (bR2 (fresh O size threshold mb dealer) rb1 rb2))
    (n3 : NetD dealer ma mb ra3 rb3 (bR3 (fresh O size threshold ma dealer) ra1 ra2 ra3)
      (bR3 (fresh O size threshold mb dealer) rb1 rb2 rb3)) :
    pview (final (fresh O size threshold ma dealer) ra1 ra2 ra3) =
      pview (final (fresh O size threshold mb dealer) rb1 rb2 rb3) := by
  have hd256 : dealer < 256 := by omega
  have aiA : AInv (fresh O size threshold ma dealer) := ⟨inv_fresh size threshold ma dealer hmad, hma, fun h => by cases h⟩
  have aiB : AInv (fresh O size threshold mb dealer) := ⟨inv_fresh size threshold mb dealer hmbd, hmb, fun h => by cases h⟩
  have fA : final (fresh O size threshold ma dealer) (relevantOnly mb dealer ra1) (relevantOnly mb dealer ra2)
        (relevantOnly mb dealer ra3) = final (fresh O size threshold ma dealer) ra1 ra2 ra3 ∧
      bR1 (fresh O size threshold ma dealer) (relevantOnly mb dealer ra1) = bR1 (fresh O size threshold ma dealer) ra1 ∧
      bR2 (fresh O size threshold ma dealer) (relevantOnly mb dealer ra1) (relevantOnly mb dealer ra2) =
        bR2 (fresh O size threshold ma dealer) ra1 ra2 ∧
      bR3 (fresh O size threshold ma dealer) (relevantOnly mb dealer ra1) (relevantOnly mb dealer ra2)
        (relevantOnly mb dealer ra3) = bR3 (fresh O size threshold ma dealer) ra1 ra2 ra3 :=
    filter_exec (fresh O size threshold ma dealer) (inv_fresh size threshold ma dealer hmad) mb hmbd hd256 ra1 ra2 ra3
  have fB : final (fresh O size threshold mb dealer) (relevantOnly ma dealer rb1) (relevantOnly ma dealer rb2)
        (relevantOnly ma dealer rb3) = final (fresh O size threshold mb dealer) rb1 rb2 rb3 ∧
      bR1 (fresh O size threshold mb dealer) (relevantOnly ma dealer rb1) = bR1 (fresh O size threshold mb dealer) rb1 ∧
      bR2 (fresh O size threshold mb dealer) (relevantOnly ma dealer rb1) (relevantOnly ma dealer rb2) =
        bR2 (fresh O size threshold mb dealer) rb1 rb2 ∧
      bR3 (fresh O size threshold mb dealer) (relevantOnly ma dealer rb1) (relevantOnly ma dealer rb2)
        (relevantOnly ma dealer rb3) = bR3 (fresh O size threshold mb dealer) rb1 rb2 rb3 :=
    filter_exec (fresh O size threshold mb dealer) (inv_fresh size threshold mb dealer hmbd) ma hmad hd256 rb1 rb2 rb3
  have sub : ∀ (A : Nat) (l : List Dl), (∀ e ∈ l, e.sender < size) → ∀ e ∈ relevantOnly A dealer l, e.sender < size :=
    fun A l h e he => h e (List.mem_filter.1 he).1
  have N1 : Net ma mb (relevantOnly mb dealer ra1) (relevantOnly ma dealer rb1)
      (bR1 (fresh O size threshold ma dealer) (relevantOnly mb dealer ra1))
      (bR1 (fresh O size threshold mb dealer) (relevantOnly ma dealer rb1)) := by
    rw [fA.2.1, fB.2.1]; exact net_of_netD hab n1
  have N2 : Net ma mb (relevantOnly mb dealer ra2) (relevantOnly ma dealer rb2)
      (bR2 (fresh O size threshold ma dealer) (relevantOnly mb dealer ra1) (relevantOnly mb dealer ra2))
      (bR2 (fresh O size threshold mb dealer) (relevantOnly ma dealer rb1) (relevantOnly ma dealer rb2)) := by
    rw [fA.2.2.1, fB.2.2.1]; exact net_of_netD hab n2
  have N3 : Net ma mb (relevantOnly mb dealer ra3) (relevantOnly ma dealer rb3)
      (bR3 (fresh O size threshold ma dealer) (relevantOnly mb dealer ra1) (relevantOnly mb dealer ra2) (relevantOnly mb dealer ra3))
      (bR3 (fresh O size threshold mb dealer) (relevantOnly ma dealer rb1) (relevantOnly ma dealer rb2) (relevantOnly ma dealer rb3)) := by
    rw [fA.2.2.2, fB.2.2.2]; exact net_of_netD hab n3
  have := pview_agree (O := O) size threshold dealer ma mb hd hs hma hmb hmad hmbd
    (relevantOnly mb dealer ra1) (relevantOnly mb dealer ra2) (relevantOnly mb dealer ra3)
    (relevantOnly ma dealer rb1) (relevantOnly ma dealer rb2) (relevantOnly ma dealer rb3)
    (sub mb ra1 ba1) (sub mb ra2 ba2) (sub mb ra3 ba3) (sub ma rb1 bb1) (sub ma rb2 bb2) (sub ma rb3 bb3)
    (streams_of_net hab N1 _ _ (fun c => (stream_zR _ aiA (relevantOnly mb dealer ra1) (relevantOnly mb dealer ra2) (relevantOnly mb dealer ra3) c).1) (fun c => (stream_zR _ aiB (relevantOnly ma dealer rb1) (relevantOnly ma dealer rb2) (relevantOnly ma dealer rb3) c).1))
    (streams_of_net hab N2 _ _ (fun c => (stream_zR _ aiA (relevantOnly mb dealer ra1) (relevantOnly mb dealer ra2) (relevantOnly mb dealer ra3) c).2.1) (fun c => (stream_zR _ aiB (relevantOnly ma dealer rb1) (relevantOnly ma dealer rb2) (relevantOnly ma dealer rb3) c).2.1))
    (streams_of_net hab N3 _ _ (fun c => (stream_zR _ aiA (relevantOnly mb dealer ra1) (relevantOnly mb dealer ra2) (relevantOnly mb dealer ra3) c).2.2) (fun c => (stream_zR _ aiB (relevantOnly ma dealer rb1) (relevantOnly ma dealer rb2) (relevantOnly ma dealer rb3) c).2.2))
  rw [fA.1, fB.1] at this
  exact this

/-- the public part of what Joint `End` computes from its instances: `none` = failure, else the group key and the
    vector of public key shares -/
def jpub (size threshold : Nat) (L : List (St O)) : Option (Bytes × List Bytes) :=
  let pv := L.map pview
  let disq := (pv.filter (·.1)).length
  if disq > threshold ∨ size - disq ≤ threshold then none
  else match O.sumVecs (pv.filterMap (·.2)) with
    | none => none
    | some v => if O.groupKeyIsIdentity v then none else some (O.groupKey v, O.pubShares v)

/-- **Joint `End` agrees publicly as soon as every instance does**: two participants whose `n` instances have
    pairwise the same public view compute the same public result -/
theorem jpub_of_pviews (size threshold : Nat) (LA LB : List (St O)) (h : LA.map pview = LB.map pview) :
    jpub size threshold LA = jpub size threshold LB := by
  unfold jpub
  rw [h]


theorem pview_count (L : List (St O)) :
    ((L.map pview).filter (·.1)).length =
      ((L.map (fun s => (FvssQ.settle s).1)).filter (·.disqualified)).length := by
  induction L with
  | nil => rfl
  | cons s t ih =>
    simp only [List.map_cons, List.filter_cons]
    have h1 : (pview s).1 = (FvssQ.settle s).1.disqualified := rfl
    rw [h1]
    cases (FvssQ.settle s).1.disqualified <;> simp [ih]

theorem pview_vecs (L : List (St O)) :
    (L.map pview).filterMap (·.2) =
      ((L.map (fun s => (FvssQ.settle s).1)).filter (fun s => !s.disqualified)).filterMap (·.vA) := by
  induction L with
  | nil => rfl
  | cons s t ih =>
    simp only [List.map_cons, List.filter_cons, List.filterMap_cons]
    have h2 : (pview s).2 = if (FvssQ.settle s).1.disqualified then none else (FvssQ.settle s).1.vA := rfl
    rw [h2]
    cases hd : (FvssQ.settle s).1.disqualified
    · simp only [Bool.false_eq_true, if_false, Bool.not_false, if_true, List.filterMap_cons]
      cases (FvssQ.settle s).1.vA <;> simp [ih]
    · simp [ih]

/-- the participant's own combined private share: the sum of its shares in the qualified instances -/
def jshare (L : List (St O)) : Nat :=
  ((L.map (fun s => (FvssQ.settle s).1)).filter (fun s => !s.disqualified)).foldl (fun acc s => O.addScalar acc s.x) 0

/-- **Joint `End` returns the public result together with the participant's own combined share** (tie between
    `jpub` and the model of `JointFeldman.End`) -/
theorem jres_jpub (size threshold : Nat) (L : List (St O)) :
    jres size threshold L =
      match jpub size threshold L with
      | none => .failure
      | some Yys => if jshare L = 0 then .failure else .keys (jshare L) Yys.1 Yys.2 := by
  unfold jres jpub jshare
  simp only []
  rw [pview_count, pview_vecs]
  split
  · rfl
  · cases O.sumVecs (((L.map fun s => (FvssQ.settle s).1).filter fun s => !s.disqualified).filterMap (·.vA)) with
    | none => rfl
    | some v =>
      simp only []
      by_cases hx : (((L.map fun s => (FvssQ.settle s).1).filter fun s => !s.disqualified).foldl
          (fun acc s => O.addScalar acc s.x) 0) = 0
      · rw [if_pos hx]
        by_cases hi : O.groupKeyIsIdentity v = true
        · rw [if_pos hi]
        · rw [if_neg hi]
          show Res.failure = if _ = 0 then Res.failure else _
          rw [if_pos hx]
      · rw [if_neg hx]
        by_cases hi : O.groupKeyIsIdentity v = true
        · rw [if_pos hi, if_pos hi]
        · rw [if_neg hi, if_neg hi]
          show _ = if _ = 0 then Res.failure else _
          rw [if_neg hx]


/-! ### the instance of an honest dealer: the receiver's view and the dealer's own view -/

/-- **what a receiver holds of an honest dealer's instance at `End`**: under the hypotheses of
    `honest_dealer_keys` (Proofs/DkgHonest) the dealer is qualified and the stored vector is the dealer's -/
theorem honest_dealer_view (H : Honest O) (K : Finset Nat) (s0 : St O) (h0 : HD H s0)
    (hst0 : s0.sharesTimeout = false) (hct0 : s0.complaintsTimeout = false) (hK : K.card ≤ s0.threshold)
    (hk0 : keysIn K s0) (r1 r2 r3 : List Dl)
    (ok1 : RoundOK' H K s0 false r1) (ok2 : RoundOK' H K s0 false r2) (ok3 : RoundOK' H K s0 true r3)
    (hvec : ∃ e ∈ r1, ∃ d, ∀ t, CfgCT s0 false t → classify t e = .vec d)
    (hshare : ∃ e ∈ r1, ∃ d, ∀ t, CfgCT s0 false t → classify t e = .share d)
    (hans : ∀ k ∈ K, ∃ a, (∃ e ∈ r1, ∀ t, CfgCT s0 false t → classify t e = .ans k (some a)) ∨
      (∃ e ∈ r2, ∀ t, CfgCT s0 false t → classify t e = .ans k (some a)) ∨
      (∃ e ∈ r3, ∀ t, CfgCT s0 true t → classify t e = .ans k (some a))) :
    pview (final s0 r1 r2 r3) = (false, some H.v0) := by
  have c0 : CfgCT s0 false s0 := ⟨rfl, rfl, rfl, rfl, hct0⟩
  obtain ⟨h1, m1, v1, x1, a1⟩ := hd_round K r1 s0 h0 (roundOK_of' ok1 s0 c0)
  obtain ⟨ev, hev, dv, hcv⟩ := hvec
  obtain ⟨es, hes, ds, hcs⟩ := hshare
  have hv1 := v1 hst0 ev hev dv (hcv s0 c0)
  have hxr1 := x1 hst0 es hes ds (hcs s0 c0)
  have hst1 : (runList s0 r1).sharesTimeout = false := by rw [m1.cfg.2.2.2.2.1]; exact hst0
  have hct1 : (runList s0 r1).complaintsTimeout = false := by rw [m1.cfg.2.2.2.2.2.1]; exact hct0
  have ht1 : tstep (runList s0 r1) = stFlag (runList s0 r1) := by
    rw [tstep_eq]
    simp [h1.ndq, hst1, hv1, hxr1]
  have i1 := inv_tstep _ h1.inv
  rw [ht1] at i1
  have g1 : HD H (stFlag (runList s0 r1)) :=
    hd_congr_fields h1 _ i1 rfl rfl h1.ndq h1.vec h1.novec h1.share
  have c1 : CfgCT s0 false (stFlag (runList s0 r1)) :=
    ⟨m1.cfg.1, m1.cfg.2.1, m1.cfg.2.2.1, m1.cfg.2.2.2.1, hct1⟩
  obtain ⟨h2, m2, _, _, a2⟩ := hd_round K r2 _ g1 (roundOK_of' ok2 _ c1)
  have hst2 : (runList (stFlag (runList s0 r1)) r2).sharesTimeout = true := by rw [m2.cfg.2.2.2.2.1]; rfl
  have hct2 : (runList (stFlag (runList s0 r1)) r2).complaintsTimeout = false := by
    rw [m2.cfg.2.2.2.2.2.1]; exact hct1
  have hkeys2 : keysIn K (runList (stFlag (runList s0 r1)) r2) :=
    m2.keys (fun k c hf => m1.keys hk0 k c hf)
  have hthr2 : (runList (stFlag (runList s0 r1)) r2).threshold = s0.threshold := by
    rw [m2.cfg.2.2.2.1]; exact m1.cfg.2.2.2.1
  have ht2 : tstep (runList (stFlag (runList s0 r1)) r2) = ctFlag (runList (stFlag (runList s0 r1)) r2) := by
    rw [tstep_eq]
    have hlen := length_le_card K _ h2.inv.nodup hkeys2
    have : ¬ (runList (stFlag (runList s0 r1)) r2).complaints.length > (runList (stFlag (runList s0 r1)) r2).threshold := by
      rw [hthr2]; omega
    simp [h2.ndq, hst2, this]
  have i2 := inv_tstep _ h2.inv
  rw [ht2] at i2
  have g2 : HD H (ctFlag (runList (stFlag (runList s0 r1)) r2)) :=
    hd_congr_fields h2 _ i2 rfl rfl h2.ndq h2.vec h2.novec h2.share
  have c2 : CfgCT s0 true (ctFlag (runList (stFlag (runList s0 r1)) r2)) :=
    ⟨m2.cfg.1.trans m1.cfg.1, m2.cfg.2.1.trans m1.cfg.2.1, m2.cfg.2.2.1.trans m1.cfg.2.2.1,
      m2.cfg.2.2.2.1.trans m1.cfg.2.2.2.1, rfl⟩
  obtain ⟨h3, m3, _, _, a3⟩ := hd_round K r3 _ g2 (roundOK_of' ok3 _ c2)
  unfold final
  rw [ht1, ht2, pview_eq]
  have hvF : (runList (ctFlag (runList (stFlag (runList s0 r1)) r2)) r3).vAReceived = true :=
    m3.vec (m2.vec hv1)
  have hkeysF : keysIn K (runList (ctFlag (runList (stFlag (runList s0 r1)) r2)) r3) := m3.keys hkeys2
  have hansF : ∀ k ∈ K, answered (runList (ctFlag (runList (stFlag (runList s0 r1)) r2)) r3) k := by
    intro k hk
    obtain ⟨a, h | h | h⟩ := hans k hk
    · obtain ⟨e, he, hc⟩ := h
      exact m3.ans k (m2.ans k (a1 e he k a (hc s0 c0)))
    · obtain ⟨e, he, hc⟩ := h
      exact m3.ans k (a2 e he k a (hc _ c1))
    · obtain ⟨e, he, hc⟩ := h
      exact a3 e he k a (hc _ c2)
  have hnone : unanswered (runList (ctFlag (runList (stFlag (runList s0 r1)) r2)) r3) = false := by
    unfold unanswered
    rw [List.any_eq_false]
    intro kc hkc
    have hf : (runList (ctFlag (runList (stFlag (runList s0 r1)) r2)) r3).find kc.1 = some kc.2 := by
      unfold St.find
      rw [find_of_mem _ h3.inv.nodup kc.1 kc.2 hkc]; rfl
    obtain ⟨c, hc, hca⟩ := hansF kc.1 (hkeysF kc.1 kc.2 hf)
    rw [hf] at hc
    have := Option.some.inj hc
    rw [this, hca]
    simp
  rw [h3.ndq, hnone, h3.vec hvF]
  simp


/-- the dealer's own instance: it holds its vector and its share, has answered every complaint, and only
    participants of `K` have complained -/
structure DS (K : Finset Nat) (v : O.Vec) (s : St O) : Prop where
  isDealer : s.me = s.dealer
  ndq : s.disqualified = false
  vA : s.vA = some v
  vAR : s.vAReceived = true
  xR : s.xReceived = true
  answered : ∀ kc ∈ s.complaints, kc.2.answerReceived = true
  keys : keysIn K s
  nodup : KeysNodup s

theorem ds_congr {K : Finset Nat} {v : O.Vec} {s t : St O} (h : DS K v s) (h1 : t.me = s.me) (h2 : t.dealer = s.dealer)
    (h3 : t.disqualified = s.disqualified) (h4 : t.vA = s.vA) (h5 : t.vAReceived = s.vAReceived)
    (h6 : t.xReceived = s.xReceived) (h7 : t.complaints = s.complaints) : DS K v t := by
  refine ⟨by rw [h1, h2]; exact h.isDealer, by rw [h3]; exact h.ndq, by rw [h4]; exact h.vA, by rw [h5]; exact h.vAR,
    by rw [h6]; exact h.xR, by rw [h7]; exact h.answered, ?_, by unfold KeysNodup; rw [h7]; exact h.nodup⟩
  intro k c hf
  apply h.keys k c
  unfold St.find at hf ⊢; rw [← h7]; exact hf

theorem ds_setC {K : Finset Nat} {v : O.Vec} {s : St O} (h : DS K v s) (k : Nat) (c : Complaint) (hk : k ∈ K)
    (hc : c.answerReceived = true) : DS K v (s.setC k c) := by
  refine ⟨h.isDealer, h.ndq, h.vA, h.vAR, h.xR, ?_, ?_, keys_setC s k c h.nodup⟩
  · intro kc hkc
    change kc ∈ (k, c) :: s.complaints.filter _ at hkc
    rcases List.mem_cons.1 hkc with e | e
    · rw [e]; exact hc
    · exact h.answered kc (List.mem_filter.1 e).1
  · intro j c' hf
    rw [find_setC] at hf
    split at hf
    · rename_i hj; rw [hj]; exact hk
    · exact h.keys j c' hf

/-- what a complaint does at the dealer's own instance: a new complainer is registered and answered at once -/
theorem rc_dealer (s : St O) (hmd : s.me = s.dealer) (o : Nat) (hod : o ≠ s.dealer) (d : Bytes) :
    (FvssQ.receiveComplaint s o d).1 =
      if s.complaintsTimeout = true then s
      else if d.length ≠ 1 then s
      else if (d.headD 0).toNat ≥ s.size then s
      else if (d.headD 0).toNat ≠ s.dealer then s
      else match s.find o with
        | none => s.setC o { received := true, answerReceived := true }
        | some c => if c.received = true then s else s.setC o (recv c) := by
  unfold FvssQ.receiveComplaint
  by_cases h1 : s.complaintsTimeout = true
  · rw [if_pos h1, if_pos h1]
  · rw [if_neg h1, if_neg h1]
    by_cases h2 : d.length ≠ 1
    · rw [if_pos h2, if_pos h2, if_neg hod]
    · rw [if_neg h2, if_neg h2]
      simp only []
      by_cases h3 : (d.headD 0).toNat ≥ s.size
      · rw [if_pos h3, if_pos h3, if_neg hod]
      · rw [if_neg h3, if_neg h3, if_neg hod]
        by_cases h4 : (d.headD 0).toNat ≠ s.dealer
        · rw [if_pos h4, if_pos h4]
        · rw [if_neg h4, if_neg h4]
          cases hf : s.find o with
          | none =>
            simp only []
            have hmd' : (s.setC o { received := true, answerReceived := false }).me =
                (s.setC o { received := true, answerReceived := false }).dealer := hmd
            rw [if_pos hmd']
            unfold FvssQ.buildAnswer
            rw [find_setC_same]
            simp only []
            rw [setC_setC]
          | some c =>
            simp only []
            by_cases h5 : c.received = true
            · rw [if_pos h5, if_pos h5]
            · rw [if_neg h5, if_neg h5]
              have : ¬ ((s.setC o { c with received := true }).vAReceived = true ∧ c.answerReceived = true ∧
                  (s.setC o { c with received := true }).me ≠ (s.setC o { c with received := true }).dealer) :=
                fun hh => hh.2.2 hmd
              rw [if_neg this]
              rfl

/-- **every delivery at the dealer's own instance keeps it qualified with every complaint answered**, provided
    complaints come from participants of `K` only -/
theorem ds_step {K : Finset Nat} {v : O.Vec} {s : St O} (h : DS K v s) (e : Dl)
    (hK : ∀ o m, e = .bcast o m → m.headD 0 = tagComplaint → o ∈ K) :
    DS K v (step s e) ∧ (step s e).threshold = s.threshold := by
  have hmd := h.isDealer
  cases e with
  | priv o m =>
    show DS K v (FvssQ.privBody s o m).1 ∧ (FvssQ.privBody s o m).1.threshold = s.threshold
    unfold FvssQ.privBody
    by_cases ho : s.me = o
    · rw [if_pos ho]; exact ⟨h, rfl⟩
    · rw [if_neg ho]
      rw [if_neg (by simp [h.ndq])]
      unfold FvssQ.receiveShare
      rw [if_pos (fun e => ho (by rw [hmd, e]))]
      exact ⟨h, rfl⟩
  | bcast o m =>
    have hKo := hK o m rfl
    show DS K v (FvssQ.bcastBody s o m).1 ∧ (FvssQ.bcastBody s o m).1.threshold = s.threshold
    unfold FvssQ.bcastBody
    by_cases ho : s.me = o
    · rw [if_pos ho]; exact ⟨h, rfl⟩
    · rw [if_neg ho]
      have hod : o ≠ s.dealer := fun e => ho (by rw [hmd, e])
      rw [if_neg (by simp [h.ndq])]
      simp only []
      by_cases h0 : m.length = 0
      · rw [if_pos h0, if_neg hod]; exact ⟨h, rfl⟩
      · rw [if_neg h0]
        by_cases h1 : m.headD 0 = tagVerifVec
        · rw [if_pos h1]
          unfold FvssQ.receiveVerifVector; rw [if_pos hod]; exact ⟨h, rfl⟩
        · rw [if_neg h1]
          by_cases h2 : m.headD 0 = tagComplaint
          · rw [if_pos h2, rc_dealer s hmd o hod]
            have hoK : o ∈ K := hKo h2
            split
            · exact ⟨h, rfl⟩
            · split
              · exact ⟨h, rfl⟩
              · split
                · exact ⟨h, rfl⟩
                · split
                  · exact ⟨h, rfl⟩
                  · cases hf : s.find o with
                    | none => exact ⟨ds_setC h o _ hoK rfl, rfl⟩
                    | some c =>
                      simp only []
                      have hca := h.answered (o, c) (mem_of_find s o c hf)
                      split
                      · exact ⟨h, rfl⟩
                      · exact ⟨ds_setC h o _ hoK hca, rfl⟩
          · rw [if_neg h2]
            by_cases h3 : m.headD 0 = tagAnswer
            · rw [if_pos h3]
              unfold FvssQ.receiveComplaintAnswer; rw [if_pos hod]; exact ⟨h, rfl⟩
            · rw [if_neg h3, if_neg hod]; exact ⟨h, rfl⟩

theorem ds_runList {K : Finset Nat} {v : O.Vec} (l : List Dl) (s : St O) (h : DS K v s)
    (hK : ∀ o m, Dl.bcast o m ∈ l → m.headD 0 = tagComplaint → o ∈ K) :
    DS K v (runList s l) ∧ (runList s l).threshold = s.threshold := by
  induction l generalizing s with
  | nil => exact ⟨h, rfl⟩
  | cons e t ih =>
    have st := ds_step h e (fun o m he ht => hK o m (by rw [← he]; exact List.mem_cons_self) ht)
    have r := ih (step s e) st.1 (fun o m hm ht => hK o m (List.mem_cons_of_mem _ hm) ht)
    exact ⟨r.1, r.2.trans st.2⟩

theorem ds_tstep {K : Finset Nat} {v : O.Vec} {s : St O} (h : DS K v s) (hK : K.card ≤ s.threshold) :
    DS K v (tstep s) ∧ (tstep s).threshold = s.threshold := by
  rw [tstep_eq]
  have hlen := length_le_card K s h.nodup h.keys
  simp only [h.ndq, Bool.false_eq_true, if_false, h.vAR, h.xR, Bool.not_true]
  split
  · exact ⟨ds_congr h rfl rfl rfl rfl rfl rfl rfl, rfl⟩
  · rw [if_neg (by omega)]
    exact ⟨ds_congr h rfl rfl rfl rfl rfl rfl rfl, rfl⟩

/-- **the dealer's own view of its instance at `End`**: qualified, with its own vector — as long as at most `t`
    participants (the set `K`) ever complain against it -/
theorem dealer_side_view (K : Finset Nat) (v : O.Vec) (s0 : St O) (h0 : DS K v s0) (hK : K.card ≤ s0.threshold)
    (r1 r2 r3 : List Dl)
    (k1 : ∀ o m, Dl.bcast o m ∈ r1 → m.headD 0 = tagComplaint → o ∈ K)
    (k2 : ∀ o m, Dl.bcast o m ∈ r2 → m.headD 0 = tagComplaint → o ∈ K)
    (k3 : ∀ o m, Dl.bcast o m ∈ r3 → m.headD 0 = tagComplaint → o ∈ K) :
    pview (final s0 r1 r2 r3) = (false, some v) := by
  have d1 := ds_runList r1 s0 h0 k1
  have t1 := ds_tstep d1.1 (by rw [d1.2]; exact hK)
  have d2 := ds_runList r2 _ t1.1 k2
  have t2 := ds_tstep d2.1 (by rw [d2.2, t1.2, d1.2]; exact hK)
  have d3 := ds_runList r3 _ t2.1 k3
  unfold final
  rw [pview_eq]
  have hun : unanswered (runList (tstep (runList (tstep (runList s0 r1)) r2)) r3) = false := by
    unfold unanswered
    rw [List.any_eq_false]
    intro kc hkc
    rw [d3.1.answered kc hkc]; simp
  rw [d3.1.ndq, hun, d3.1.vA]
  simp


/-- the dealer's own instance right after a successful `Start` satisfies `DS` (for every `K`) -/
theorem ds_after_start (K : Finset Nat) (size threshold me : Nat) (seed : Bytes) (s' : St O) (outs : List Out)
    (h : Dkg.start ({ size := size, threshold := threshold, me := me, dealer := me } : St O) seed = (s', outs, .ok)) :
    ∃ a, DS K (O.vecOfPoly size a) s' := by
  unfold Dkg.start Dkg.startBody Dkg.generateShares at h
  simp only [Bool.false_eq_true, if_false, if_true] at h
  cases hg : O.genPoly seed threshold with
  | none => rw [hg] at h; simp at h
  | some a =>
    rw [hg] at h
    simp only [] at h
    cases hl : shareLoop O a me size 1 [] 0 with
    | none => rw [hl] at h; simp at h
    | some r =>
      obtain ⟨o, x⟩ := r
      rw [hl] at h
      simp only [Prod.mk.injEq, and_true] at h
      refine ⟨a, ?_⟩
      rw [← h.1]
      exact ⟨rfl, rfl, rfl, rfl, rfl, fun kc hkc => (by cases hkc), fun k c hc => (by cases hc), List.nodup_nil⟩

end Proofs.DkgAgree
