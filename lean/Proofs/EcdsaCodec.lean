import Proofs.EcdsaRoots
import Proofs.Bytes

/-! X9.62-compressed ECDSA public keys (33 bytes `02/03 ‖ X`): what `DecodePublicKeyCompressed` accepts re-encodes
to exactly the input and is a reduced point of the curve; every such point round-trips. Generic in the curve
(prime `p ≡ 3 mod 4` below 2^256, no point with `y = 0`), instantiated for P-256 and secp256k1. -/

namespace Proofs.EcdsaCodec
open Model Model.Ecdsa Proofs.PowMod

section field
variable (q : Nat) [hq : Fact q.Prime]

theorem q_pos : 0 < q := hq.out.pos
theorem q_gt_one : 1 < q := hq.out.one_lt

theorem eq_of_cast_eq (a b : Nat) (ha : a < q) (hb : b < q) (h : (a : ZMod q) = (b : ZMod q)) : a = b :=
  Nat.ModEq.eq_of_lt_of_lt ((ZMod.natCast_eq_natCast_iff _ _ _).1 h) ha hb

theorem neg_cast (y : Nat) : ((Fp.neg q y : Nat) : ZMod q) = -(y : ZMod q) := by
  unfold Fp.neg
  rw [ZMod.natCast_mod, Nat.cast_sub (le_of_lt (Nat.mod_lt _ (q_pos q))), ZMod.natCast_self, ZMod.natCast_mod, zero_sub]

theorem fneg_lt (y : Nat) : Fp.neg q y < q := Nat.mod_lt _ (q_pos q)

theorem neg_neg' (y : Nat) (hy : y < q) : Fp.neg q (Fp.neg q y) = y := by
  apply eq_of_cast_eq q _ _ (fneg_lt q _) hy
  rw [neg_cast, neg_cast, neg_neg]

theorem fneg_sq (y : Nat) : Fp.neg q y * Fp.neg q y % q = y * y % q := by
  have : ((Fp.neg q y * Fp.neg q y : Nat) : ZMod q) = ((y * y : Nat) : ZMod q) := by
    rw [Nat.cast_mul, neg_cast, Nat.cast_mul]; ring
  exact (ZMod.natCast_eq_natCast_iff _ _ _).1 this

theorem sqrt_some (hb : q < 2 ^ 256) (a y : Nat) (h : Fp.sqrt? q a = some y) : y < q ∧ y * y % q = a % q := by
  unfold Fp.sqrt? at h
  simp only [] at h
  split at h
  · rename_i h1
    have := Option.some.inj h
    subst this
    refine ⟨?_, h1⟩
    rw [powMod_eq a _ q (q_gt_one q) (by omega)]
    exact Nat.mod_lt _ (q_pos q)
  · cases h

/-- for a non-zero square `a = y²` the exponentiation `a^((q+1)/4)` is one of the two roots (`q ≡ 3 mod 4`) -/
theorem sqrt_of_square (h4 : q % 4 = 3) (hb : q < 2 ^ 256) (a y : Nat) (hy0 : 0 < y) (hy : y < q) (h : y * y % q = a) :
    ∃ y0, Fp.sqrt? q a = some y0 ∧ (y0 = y ∨ y0 = Fp.neg q y) := by
  have hyne : (y : ZMod q) ≠ 0 := by
    intro hc
    have := eq_of_cast_eq q y 0 hy (q_pos q) (by simpa using hc)
    omega
  have hac : (a : ZMod q) = (y : ZMod q) ^ 2 := by
    rw [← h, ZMod.natCast_mod, Nat.cast_mul, pow_two]
  have hzc : ((powMod a ((q + 1) / 4) q : Nat) : ZMod q) = (a : ZMod q) ^ ((q + 1) / 4) :=
    powMod_cast a _ q (q_gt_one q) (by omega)
  have hzz : ((powMod a ((q + 1) / 4) q : Nat) : ZMod q) ^ 2 = (a : ZMod q) := by
    rw [hzc, ← pow_mul, hac, ← pow_mul]
    have : 2 * ((q + 1) / 4 * 2) = (q - 1) + 2 := by omega
    rw [this, pow_add, ZMod.pow_card_sub_one_eq_one hyne, one_mul]
  have hzlt : powMod a ((q + 1) / 4) q < q := by
    rw [powMod_eq a _ q (q_gt_one q) (by omega)]; exact Nat.mod_lt _ (q_pos q)
  refine ⟨powMod a ((q + 1) / 4) q, ?_, ?_⟩
  · unfold Fp.sqrt?
    simp only []
    rw [if_pos]
    have : ((powMod a ((q + 1) / 4) q * powMod a ((q + 1) / 4) q : Nat) : ZMod q) = ((a : Nat) : ZMod q) := by
      rw [Nat.cast_mul, ← pow_two, hzz]
    exact (ZMod.natCast_eq_natCast_iff _ _ _).1 this
  · have hfac : (((powMod a ((q + 1) / 4) q : Nat) : ZMod q) - y) * (((powMod a ((q + 1) / 4) q : Nat) : ZMod q) + y) = 0 := by
      have : ((powMod a ((q + 1) / 4) q : Nat) : ZMod q) ^ 2 = (y : ZMod q) ^ 2 := by rw [hzz, hac]
      linear_combination this
    rcases mul_eq_zero.1 hfac with h1 | h1
    · left; exact eq_of_cast_eq q _ y hzlt hy (sub_eq_zero.1 h1)
    · right
      apply eq_of_cast_eq q _ _ hzlt (fneg_lt q _)
      rw [neg_cast]; linear_combination h1

/-- for odd `q`, negation flips the parity of a non-zero reduced element -/
theorem parity_neg (h2 : q % 2 = 1) (y : Nat) (h0 : 0 < y) (hy : y < q) : Fp.neg q y % 2 ≠ y % 2 := by
  unfold Fp.neg
  have e1 : y % q = y := Nat.mod_eq_of_lt hy
  have e2 : (q - y) % q = q - y := Nat.mod_eq_of_lt (by omega)
  rw [e1, e2]
  omega

end field


/-! ### the compressed codec, generically -/

/-- what the proofs need from a curve specification -/
structure GoodSpec (S : CurveSpec) : Prop where
  prime : Nat.Prime S.p
  mod4 : S.p % 4 = 3
  lt : S.p < 2 ^ 256
  ops : S.C.f = Fp.ops S.p
  noRoot : ∀ t : ZMod S.p, t ^ 3 + (S.C.a : ZMod S.p) * t + (S.C.b : ZMod S.p) ≠ 0

/-- `x³ + a·x + b` as the decoder computes it -/
def rhs (S : CurveSpec) (x : Nat) : Nat :=
  Fp.add S.p (Fp.add S.p (Fp.mul S.p (Fp.mul S.p x x) x) (Fp.mul S.p S.C.a x)) S.C.b

theorem rhs_cast (S : CurveSpec) (x : Nat) :
    ((rhs S x : Nat) : ZMod S.p) = (x : ZMod S.p) ^ 3 + (S.C.a : ZMod S.p) * x + (S.C.b : ZMod S.p) := by
  unfold rhs Fp.add Fp.mul
  simp only [ZMod.natCast_mod, Nat.cast_add, Nat.cast_mul]
  ring

theorem rhs_lt (S : CurveSpec) (g : GoodSpec S) (x : Nat) : rhs S x < S.p := Nat.mod_lt _ g.prime.pos

theorem rhs_ne_zero (S : CurveSpec) (g : GoodSpec S) (x : Nat) : rhs S x ≠ 0 := by
  intro h
  have := rhs_cast S x
  rw [h] at this
  exact g.noRoot (x : ZMod S.p) (by rw [← this]; simp)

theorem decode_unfold (S : CurveSpec) (g : GoodSpec S) (b : Bytes) :
    decodePublicKeyCompressed S b =
      if b.length ≠ 33 then none
      else if (b.headD 0).toNat ≠ 2 ∧ (b.headD 0).toNat ≠ 3 then none
      else if beNat (b.drop 1) ≥ S.p then none
      else match Fp.sqrt? S.p (rhs S (beNat (b.drop 1))) with
        | none => none
        | some y => some (beNat (b.drop 1), if y % 2 ≠ (b.headD 0).toNat % 2 then Fp.neg S.p y else y) := by
  unfold decodePublicKeyCompressed rhs
  rw [g.ops]
  rfl

/-- reduced affine point of the curve -/
def Valid (S : CurveSpec) (Q : Nat × Nat) : Prop := Q.1 < S.p ∧ Q.2 < S.p ∧ Q.2 * Q.2 % S.p = rhs S Q.1

theorem prefix_byte : ∀ n : Nat, n = 2 ∨ n = 3 → UInt8.ofNat (2 + n % 2) = UInt8.ofNat n := by
  rintro n (rfl | rfl) <;> rfl

/-- **canonical and validating**: an accepted compressed key is a reduced point of the curve and re-encodes to
    exactly the input bytes -/
theorem pkc_canonical (S : CurveSpec) (g : GoodSpec S) (b : Bytes) (Q : Nat × Nat)
    (h : decodePublicKeyCompressed S b = some Q) : encodePublicKeyCompressed Q = b ∧ Valid S Q := by
  haveI : Fact S.p.Prime := ⟨g.prime⟩
  rw [decode_unfold S g] at h
  by_cases hl : b.length ≠ 33
  · rw [if_pos hl] at h; cases h
  rw [if_neg hl] at h
  have hlen : b.length = 33 := by omega
  obtain ⟨h0, t, rfl⟩ : ∃ h0 t, b = h0 :: t := by
    cases b with
    | nil => simp at hlen
    | cons a t => exact ⟨_, _, rfl⟩
  have htl : t.length = 32 := by simpa using hlen
  rw [show (h0 :: t).headD 0 = h0 from rfl, show (h0 :: t).drop 1 = t from rfl] at h
  by_cases hp : h0.toNat ≠ 2 ∧ h0.toNat ≠ 3
  · rw [if_pos hp] at h; cases h
  rw [if_neg hp] at h
  have hpre : h0.toNat = 2 ∨ h0.toNat = 3 := by omega
  by_cases hx : beNat t ≥ S.p
  · rw [if_pos hx] at h; cases h
  rw [if_neg hx] at h
  cases hs : Fp.sqrt? S.p (rhs S (beNat t)) with
  | none => rw [hs] at h; cases h
  | some y =>
    rw [hs] at h
    have hQ := Option.some.inj h
    obtain ⟨hyp, hyy⟩ := sqrt_some S.p g.lt _ _ hs
    rw [Nat.mod_eq_of_lt (rhs_lt S g _)] at hyy
    have hy0 : 0 < y := by
      rcases Nat.eq_zero_or_pos y with rfl | hpos
      · exfalso; apply rhs_ne_zero S g (beNat t); rw [← hyy]; simp
      · exact hpos
    have hodd : S.p % 2 = 1 := by have := g.mod4; omega
    -- the parity of the returned y is the parity of the prefix
    have hpar : (if y % 2 ≠ h0.toNat % 2 then Fp.neg S.p y else y) % 2 = h0.toNat % 2 := by
      by_cases hne : y % 2 ≠ h0.toNat % 2
      · rw [if_pos hne]
        have := parity_neg S.p hodd y hy0 hyp
        omega
      · rw [if_neg hne]; omega
    rw [← hQ]
    refine ⟨?_, by omega, ?_, ?_⟩
    · unfold encodePublicKeyCompressed
      simp only []
      rw [hpar]
      have hnb := Model.natBE_beNat t
      rw [htl] at hnb
      rw [hnb]
      have : (2 + h0.toNat % 2) = 2 + h0.toNat % 2 := rfl
      rw [prefix_byte h0.toNat hpre, UInt8.ofNat_toNat]
    · simp only []
      split
      · exact fneg_lt S.p _
      · exact hyp
    · simp only []
      split
      · rw [fneg_sq]; exact hyy
      · exact hyy

theorem beNat_cons (h : UInt8) (t : Bytes) : beNat (h :: t) = h.toNat * 256 ^ t.length + beNat t := by
  rw [beNat_eq t]
  unfold beNat
  rw [List.foldl_cons, beNat_foldl]
  simp

/-- **round trip**: every reduced point of the curve encodes to bytes that decode back to it -/
theorem pkc_roundtrip (S : CurveSpec) (g : GoodSpec S) (Q : Nat × Nat) (hv : Valid S Q) :
    decodePublicKeyCompressed S (encodePublicKeyCompressed Q) = some Q := by
  haveI : Fact S.p.Prime := ⟨g.prime⟩
  obtain ⟨x, y⟩ := Q
  obtain ⟨hx, hy, hcurve⟩ := hv
  simp only at hx hy hcurve
  have hy0 : 0 < y := by
    rcases Nat.eq_zero_or_pos y with rfl | hpos
    · exfalso; apply rhs_ne_zero S g x; rw [← hcurve]; simp
    · exact hpos
  have hodd : S.p % 2 = 1 := by have := g.mod4; omega
  rw [decode_unfold S g]
  unfold encodePublicKeyCompressed
  rw [show (UInt8.ofNat (2 + (x, y).2 % 2) :: natBE 32 (x, y).1).headD 0 = UInt8.ofNat (2 + y % 2) from rfl,
    show (UInt8.ofNat (2 + (x, y).2 % 2) :: natBE 32 (x, y).1).drop 1 = natBE 32 x from rfl,
    show (UInt8.ofNat (2 + (x, y).2 % 2) :: natBE 32 (x, y).1).length = (natBE 32 x).length + 1 from rfl, natBE_length]
  rw [if_neg (by omega)]
  have hpre : (UInt8.ofNat (2 + y % 2)).toNat = 2 + y % 2 := by
    rcases Nat.mod_two_eq_zero_or_one y with h | h <;> rw [h] <;> rfl
  rw [hpre, if_neg (by omega)]
  have hbe : beNat (natBE 32 x) = x := by
    rw [beNat_natBE]; exact Nat.mod_eq_of_lt (by have := g.lt; omega)
  rw [hbe, if_neg (by omega)]
  obtain ⟨y0, hsq, hy0y⟩ := sqrt_of_square S.p g.mod4 g.lt _ y hy0 hy hcurve
  rw [hsq]
  simp only []
  have hpm : (2 + y % 2) % 2 = y % 2 := by omega
  rw [hpm]
  rcases hy0y with rfl | rfl
  · rw [if_neg (by simp)]
  · rw [if_pos (parity_neg S.p hodd y hy0 hy), neg_neg' S.p y hy]

/-- **accepted = canonical compressed encodings of curve points** -/
theorem pkc_accepts_iff (S : CurveSpec) (g : GoodSpec S) (b : Bytes) (Q : Nat × Nat) :
    decodePublicKeyCompressed S b = some Q ↔ (Valid S Q ∧ encodePublicKeyCompressed Q = b) := by
  constructor
  · intro h; exact ⟨(pkc_canonical S g b Q h).2, (pkc_canonical S g b Q h).1⟩
  · rintro ⟨hv, rfl⟩; exact pkc_roundtrip S g Q hv

/-! ### the two curves -/

theorem good_p256 : GoodSpec p256 where
  prime := (inferInstance : Fact (Nat.Prime p256P)).out
  mod4 := by decide +kernel
  lt := by decide +kernel
  ops := rfl
  noRoot := Proofs.EcdsaRoots.p256_no_root

theorem good_k256 : GoodSpec k256 where
  prime := (inferInstance : Fact (Nat.Prime k256P)).out
  mod4 := by decide +kernel
  lt := by decide +kernel
  ops := rfl
  noRoot := Proofs.EcdsaRoots.k256_no_root

end Proofs.EcdsaCodec
