import Proofs.DkgSchedule
import Mathlib.Data.List.Induction

/-! Invariants of a running Feldman-VSS-Qual instance are preserved by every delivery; deliveries respect the
equivalence of states up to the order of the complaint table; hence the state after a round, and the verdict of
`End`, do not depend on the order in which the network delivered the messages of the round. -/

namespace Proofs.DkgCommute
open Model Model.Dkg
variable {O : Ops}

/-! ### the table under `setC` -/

theorem keys_setC (s : St O) (k : Nat) (c : Complaint) (h : KeysNodup s) : KeysNodup (s.setC k c) := by
  unfold KeysNodup at *
  simp only [setC_complaints, List.map_cons, List.nodup_cons]
  refine ⟨?_, ?_⟩
  · intro hm
    obtain ⟨x, hx, hk⟩ := List.mem_map.1 hm
    have := (List.mem_filter.1 hx).2
    simp only [bne_iff_ne, ne_eq] at this
    exact this hk
  · exact (h.sublist ((List.filter_sublist).map _))

theorem find_setC (s : St O) (j k : Nat) (c : Complaint) :
    (s.setC k c).find j = if j = k then some c else s.find j := by
  by_cases h : j = k
  · subst h; rw [if_pos rfl]; exact find_setC_same s j c
  · rw [if_neg h]; exact find_setC_other s j k c h

theorem wf_setC (s : St O) (k : Nat) (c : Complaint) (h : EntriesWF s) (hc : c.received = true ∨ c.answerReceived = true) :
    EntriesWF (s.setC k c) := by
  intro j c' hf
  rw [find_setC] at hf
  split at hf
  · cases hf; exact hc
  · exact h j c' hf

/-- a descriptor whose new entry (if any) carries a flag -/
def UpdWF (u : Upd) : Prop := ∀ c, u.entry = some c → c.received = true ∨ c.answerReceived = true

theorem keys_applyUpd (s : St O) (K : Nat) (u : Upd) (h : KeysNodup s) : KeysNodup (applyUpd s K u) := by
  unfold KeysNodup
  rw [applyUpd_complaints]
  cases u.entry with
  | none => exact h
  | some c => exact keys_setC s K c h

theorem find_applyUpd (s : St O) (j K : Nat) (u : Upd) :
    (applyUpd s K u).find j = (match u.entry with | some c => if j = K then some c else s.find j | none => s.find j) := by
  unfold St.find
  rw [applyUpd_complaints]
  cases u.entry with
  | none => rfl
  | some c => exact find_setC s j K c

theorem wf_applyUpd (s : St O) (K : Nat) (u : Upd) (h : EntriesWF s) (hu : UpdWF u) : EntriesWF (applyUpd s K u) := by
  intro j c' hf
  rw [find_applyUpd] at hf
  cases he : u.entry with
  | none => rw [he] at hf; exact h j c' hf
  | some c =>
    rw [he] at hf
    simp only [] at hf
    split at hf
    · have := Option.some.inj hf; rw [← this]; exact hu c he
    · exact h j c' hf

theorem rcU_wf (fc : Option Complaint) (b : Bool) (chk : Complaint → Bool) : UpdWF (rcU fc b chk) := by
  intro c h
  unfold rcU at h
  cases fc with
  | none => simp only [] at h; cases h; left; rfl
  | some c0 =>
    simp only [] at h
    split at h
    · cases h
    · split at h <;> (cases h; left; rfl)

theorem raU_wf (fc : Option Complaint) (b : Bool) (chk : Complaint → Bool) (d m : Bool) (sc : Option Nat) :
    UpdWF (raU fc b chk d m sc) := by
  intro c h
  unfold raU at h
  cases fc with
  | none => cases sc <;> (simp only [] at h; cases h; right; rfl)
  | some c0 =>
    simp only [] at h
    split at h
    · cases h
    · split at h
      · cases sc <;> (simp only [] at h; cases h; right; rfl)
      · cases h; right; rfl

theorem bcU_wf (fc : Option Complaint) (b : Bool) (chk : Complaint → Bool) : UpdWF (bcU fc b chk) := by
  intro c h
  unfold bcU at h
  cases fc with
  | none => simp only [] at h; cases h; left; rfl
  | some c0 =>
    simp only [] at h
    split at h
    · cases h
    · split at h
      · split at h
        · split at h <;> (cases h; left; rfl)
        · cases h; left; rfl
      · cases h; left; rfl


/-! ### every delivery preserves the invariants -/

theorem inv_applyUpd (s : St O) (inv : Inv s) (hdq : s.disqualified = false) (K : Nat) (u : Upd) (hu : UpdWF u)
    (hown : ∀ c, (applyUpd s K u).find s.me = some c → c.received = true → s.xReceived = true ∨ s.sharesTimeout = true) :
    Inv (applyUpd s K u) := by
  have a := applyUpd_vA s K u
  have r := applyUpd_rest s K u
  refine ⟨?_, keys_applyUpd s K u inv.nodup, wf_applyUpd s K u inv.wf hu, ?_, ?_⟩
  · rw [a.2.2.1, a.2.2.2.1]; exact inv.hme
  · intro hv _
    rw [a.1]
    rw [a.2.1] at hv
    exact inv.vecok hv hdq
  · intro c hc hr
    rw [a.2.2.1] at hc
    rw [a.2.2.2.2, r.2.2.2.2.2.1]
    exact hown c hc hr

theorem inv_rcOk (s : St O) (inv : Inv s) (hdq : s.disqualified = false) (k : Nat) (hk : k ≠ s.me) : Inv (rcOk s k) := by
  rw [rcOk_F]
  apply inv_applyUpd s inv hdq k _ (rcU_wf _ _ _)
  intro c hc hr
  rw [find_applyUpd_other s s.me k _ (fun h => hk h.symm)] at hc
  exact inv.own c hc hr

theorem raU_recv_none (b : Bool) (chk : Complaint → Bool) (d m : Bool) (sc : Option Nat)
    (c : Complaint) (h : (raU none b chk d m sc).entry = some c) : c.received = false := by
  unfold raU at h
  cases sc <;> (simp only [] at h; cases h; rfl)

theorem raU_recv_some (c0 : Complaint) (b : Bool) (chk : Complaint → Bool) (d m : Bool) (sc : Option Nat)
    (c : Complaint) (h : (raU (some c0) b chk d m sc).entry = some c) : c.received = c0.received := by
  unfold raU at h
  simp only [] at h
  split at h
  · cases h
  · split at h
    · cases sc <;> (simp only [] at h; cases h; rfl)
    · cases h; rfl

theorem inv_raOk (s : St O) (inv : Inv s) (hdq : s.disqualified = false) (j : Nat) (sc : Option Nat) : Inv (raOk s j sc) := by
  rw [raOk_F]
  apply inv_applyUpd s inv hdq j _ (raU_wf _ _ _ _ _ _)
  intro c hc hr
  rw [find_applyUpd] at hc
  have hu : ansF j sc s = raU (s.find j) s.vAReceived (s.checkComplaint j) s.disqualified (decide (j = s.me)) sc := rfl
  cases he : (ansF j sc s).entry with
  | none => rw [← hu, he] at hc; exact inv.own c hc hr
  | some c' =>
    rw [← hu, he] at hc
    simp only [] at hc
    by_cases hj : s.me = j
    · rw [if_pos hj] at hc
      have hcc : c' = c := Option.some.inj hc
      subst hcc
      rw [hu] at he
      subst hj
      cases hf : s.find s.me with
      | none =>
        rw [hf] at he
        have := raU_recv_none _ _ _ _ _ c' he
        rw [this] at hr; cases hr
      | some c0 =>
        rw [hf] at he
        have := raU_recv_some c0 _ _ _ _ _ c' he
        exact inv.own c0 hf (by rw [← this]; exact hr)
    · rw [if_neg hj] at hc
      exact inv.own c hc hr


theorem inv_congr (s t : St O) (inv : Inv s) (h1 : t.me = s.me) (h2 : t.dealer = s.dealer)
    (h3 : t.complaints = s.complaints)
    (h4 : t.vAReceived = true → t.disqualified = false → t.vA.isSome = true)
    (h5 : s.xReceived = true → t.xReceived = true) (h6 : t.sharesTimeout = s.sharesTimeout) : Inv t := by
  have hfind : ∀ k, t.find k = s.find k := by intro k; unfold St.find; rw [h3]
  refine ⟨by rw [h1, h2]; exact inv.hme, ?_, ?_, h4, ?_⟩
  · unfold KeysNodup; rw [h3]; exact inv.nodup
  · intro k c hc; rw [hfind] at hc; exact inv.wf k c hc
  · intro c hc hr
    rw [h1, hfind] at hc
    rcases inv.own c hc hr with h | h
    · exact Or.inl (h5 h)
    · exact Or.inr (by rw [h6]; exact h)

theorem inv_interp (s : St O) (inv : Inv s) (hdq : s.disqualified = false) (k : Kind) (ok : KOK s k) :
    Inv (interp s k) := by
  cases k with
  | noop => exact inv
  | disq => exact inv_congr s (setDisq s true) inv rfl rfl rfl (fun _ h => by cases h) (fun h => h) rfl
  | cmpl k => exact inv_rcOk s inv hdq k ok
  | ans j sc => exact inv_raOk s inv hdq j sc
  | vec d =>
    show Inv (FvssQ.receiveVerifVector s s.dealer d).1
    by_cases hg : s.sharesTimeout = true ∨ s.vAReceived = true
    · rw [rv_noop s s.dealer rfl d hg]; exact inv
    · have hst : s.sharesTimeout = false := by
        cases h : s.sharesTimeout
        · rfl
        · exact absurd (Or.inl h) hg
      have hv : s.vAReceived = false := by
        cases h : s.vAReceived
        · rfl
        · exact absurd (Or.inr h) hg
      rw [rv_eq s s.dealer rfl d hst hv]
      cases parseVec s d with
      | none => exact inv_congr s (vecBad s) inv rfl rfl rfl (fun _ h => by cases h) (fun h => h) rfl
      | some v =>
        simp only []
        rw [rvOk_upd]
        have invT : Inv (setVec s v) := inv_congr s (setVec s v) inv rfl rfl rfl (fun _ _ => rfl) (fun h => h) rfl
        by_cases hb : anyBad (setVec s v) = true
        · rw [if_pos hb]
          exact inv_congr s _ inv rfl rfl rfl (fun _ h => by cases h) (fun h => h) rfl
        · rw [if_neg hb]
          have hu : UpdWF (wU s v) := by
            unfold wU; split
            · exact bcU_wf _ _ _
            · intro c h; cases h
          apply inv_applyUpd (setVec s v) invT hdq s.me _ hu
          intro c hc hr
          by_cases hx : s.xReceived = true
          · exact Or.inl hx
          · -- without a share the vector does not trigger a complaint
            have : wU s v = {} := by unfold wU; rw [if_neg (fun h => hx h.1)]
            rw [this, applyUpd_empty] at hc
            exact inv.own c hc hr
  | share sh =>
    show Inv (FvssQ.receiveShare s s.dealer sh).1
    by_cases hg : s.sharesTimeout = true ∨ s.xReceived = true
    · rw [rs_noop s s.dealer rfl sh hg]; exact inv
    · have hst : s.sharesTimeout = false := by
        cases h : s.sharesTimeout
        · rfl
        · exact absurd (Or.inl h) hg
      have hx : s.xReceived = false := by
        cases h : s.xReceived
        · rfl
        · exact absurd (Or.inr h) hg
      rw [rs_F s s.dealer rfl sh hst hx]
      have hpre : (pre sh s).xReceived = true := by unfold pre; cases parseShare O sh <;> rfl
      have invT : Inv (pre sh s) := by
        apply inv_congr s (pre sh s) inv (pre_me sh s)
        · unfold pre; cases parseShare O sh <;> rfl
        · unfold pre; cases parseShare O sh <;> rfl
        · intro hv _
          have e1 : (pre sh s).vAReceived = s.vAReceived := by unfold pre; cases parseShare O sh <;> rfl
          have e2 : (pre sh s).vA = s.vA := by unfold pre; cases parseShare O sh <;> rfl
          rw [e2]; rw [e1] at hv; exact inv.vecok hv hdq
        · intro _; exact hpre
        · unfold pre; cases parseShare O sh <;> rfl
      have hu : UpdWF (shareF sh s) := by
        unfold shareF
        cases parseShare O sh with
        | none => exact bcU_wf _ _ _
        | some x =>
          simp only []
          split
          · exact bcU_wf _ _ _
          · intro c h; cases h
      have := inv_applyUpd (pre sh s) invT (by rw [pre_disq]; exact hdq) (pre sh s).me _ hu
        (fun _ _ _ => Or.inl hpre)
      rw [pre_me] at this
      exact this

theorem inv_run (s : St O) (inv : Inv s) (k : Kind) (ok : KOK s k) : Inv (run s k) := by
  unfold run
  by_cases hd : s.disqualified = true
  · rw [if_pos hd]; exact inv
  · rw [if_neg hd]; exact inv_interp s inv (by simpa using hd) k ok

/-- **every delivery preserves the invariants** -/
theorem inv_step (s : St O) (inv : Inv s) (e : Dl) : Inv (step s e) := by
  rw [step_run s e inv.hme]
  exact inv_run s inv _ (classify_src s e).2


/-! ### deliveries respect the equivalence of states -/

theorem find_of_mem (l : List (Nat × Complaint)) (hn : (l.map (·.1)).Nodup) (k : Nat) (c : Complaint)
    (h : (k, c) ∈ l) : l.find? (·.1 == k) = some (k, c) := by
  induction l with
  | nil => cases h
  | cons a t ih =>
    simp only [List.map_cons, List.nodup_cons] at hn
    simp only [List.find?_cons]
    rcases List.mem_cons.1 h with h | h
    · subst h; simp
    · have hne : a.1 ≠ k := by
        intro he
        apply hn.1
        rw [he]
        exact List.mem_map.2 ⟨(k, c), h, rfl⟩
      have : (a.1 == k) = false := by simpa using hne
      rw [this]
      exact ih hn.2 h

theorem find_perm (l1 l2 : List (Nat × Complaint)) (hp : l1.Perm l2) (hn : (l1.map (·.1)).Nodup) (k : Nat) :
    (l1.find? (·.1 == k)) = (l2.find? (·.1 == k)) := by
  have hn2 : (l2.map (·.1)).Nodup := (hp.map _).nodup_iff.1 hn
  cases h1 : l1.find? (·.1 == k) with
  | some x =>
    have hx := List.find?_some h1
    have hk : x.1 = k := by simpa using hx
    have hm : x ∈ l2 := hp.mem_iff.1 (List.mem_of_find?_eq_some h1)
    have : x = (k, x.2) := Prod.ext hk rfl
    rw [this] at hm ⊢
    exact (find_of_mem l2 hn2 k x.2 hm).symm
  | none =>
    cases h2 : l2.find? (·.1 == k) with
    | none => rfl
    | some y =>
      exfalso
      have hm : y ∈ l1 := hp.mem_iff.2 (List.mem_of_find?_eq_some h2)
      have hy := List.find?_some h2
      rw [List.find?_eq_none] at h1
      exact h1 y hm hy

theorem Equiv.find {a b : St O} (h : Equiv a b) (hn : KeysNodup a) (k : Nat) : a.find k = b.find k := by
  unfold St.find
  rw [find_perm _ _ h.2.2.2.2.2.2.2.2.2.2.2.1 hn k]

theorem Equiv.cc {a b : St O} (h : Equiv a b) (k : Nat) : a.checkComplaint k = b.checkComplaint k := by
  funext c; unfold St.checkComplaint; rw [h.2.2.2.2.2.2.1]

theorem equiv_applyUpd {a b : St O} (h : Equiv a b) (K : Nat) (u : Upd) : Equiv (applyUpd a K u) (applyUpd b K u) := by
  obtain ⟨h1, h2, h3, h4, h5, h6, h7, h8, h9, h10, h11, h12, h13, h14, h15⟩ := h
  have ra := applyUpd_rest a K u
  have rb := applyUpd_rest b K u
  have va := applyUpd_vA a K u
  have vb := applyUpd_vA b K u
  refine ⟨by rw [ra.1, rb.1, h1], by rw [ra.2.1, rb.2.1, h2], by rw [va.2.2.1, vb.2.2.1, h3],
    by rw [va.2.2.2.1, vb.2.2.2.1, h4], by rw [ra.2.2.1, rb.2.2.1, h5], by rw [ra.2.2.2.1, rb.2.2.2.1, h6],
    by rw [va.1, vb.1, h7], by rw [va.2.1, vb.2.1, h8], ?_, by rw [va.2.2.2.2, vb.2.2.2.2, h10],
    by rw [ra.2.2.2.2.1, rb.2.2.2.2.1, h11], ?_, ?_, by rw [ra.2.2.2.2.2.1, rb.2.2.2.2.2.1, h14],
    by rw [ra.2.2.2.2.2.2, rb.2.2.2.2.2.2, h15]⟩
  · rw [applyUpd_x, applyUpd_x, h9]
  · rw [applyUpd_complaints, applyUpd_complaints]
    cases u.entry with
    | none => exact h12
    | some c =>
      simp only [setC_complaints]
      exact List.Perm.cons _ (h12.filter _)
  · rw [applyUpd_disq, applyUpd_disq, h13]


theorem equiv_upd_field {a b : St O} (h : Equiv a b) (f : St O → St O)
    (hf : ∀ t : St O, (f t).size = t.size ∧ (f t).threshold = t.threshold ∧ (f t).me = t.me ∧ (f t).dealer = t.dealer ∧
      (f t).running = t.running ∧ (f t).a = t.a ∧ (f t).validKey = t.validKey ∧ (f t).complaints = t.complaints ∧
      (f t).sharesTimeout = t.sharesTimeout ∧ (f t).complaintsTimeout = t.complaintsTimeout)
    (h7 : (f a).vA = (f b).vA) (h8 : (f a).vAReceived = (f b).vAReceived) (h9 : (f a).x = (f b).x)
    (h10 : (f a).xReceived = (f b).xReceived) (h13 : (f a).disqualified = (f b).disqualified) : Equiv (f a) (f b) := by
  obtain ⟨g1, g2, g3, g4, g5, g6, _, _, _, _, g11, g12, _, g14, g15⟩ := h
  obtain ⟨a1, a2, a3, a4, a5, a6, a7, a8, a9, a10⟩ := hf a
  obtain ⟨b1, b2, b3, b4, b5, b6, b7, b8, b9, b10⟩ := hf b
  exact ⟨by rw [a1, b1, g1], by rw [a2, b2, g2], by rw [a3, b3, g3], by rw [a4, b4, g4], by rw [a5, b5, g5],
    by rw [a6, b6, g6], h7, h8, h9, h10, by rw [a7, b7, g11], by rw [a8, b8]; exact g12, h13, by rw [a9, b9, g14],
    by rw [a10, b10, g15]⟩

theorem equiv_setDisq {a b : St O} (h : Equiv a b) (d : Bool) : Equiv (setDisq a d) (setDisq b d) :=
  equiv_upd_field h (fun t => setDisq t d) (fun _ => ⟨rfl, rfl, rfl, rfl, rfl, rfl, rfl, rfl, rfl, rfl⟩)
    h.2.2.2.2.2.2.1 h.2.2.2.2.2.2.2.1 h.2.2.2.2.2.2.2.2.1 h.2.2.2.2.2.2.2.2.2.1 rfl

theorem equiv_setVec {a b : St O} (h : Equiv a b) (v : O.Vec) : Equiv (setVec a v) (setVec b v) :=
  equiv_upd_field h (fun t => setVec t v) (fun _ => ⟨rfl, rfl, rfl, rfl, rfl, rfl, rfl, rfl, rfl, rfl⟩)
    rfl rfl h.2.2.2.2.2.2.2.2.1 h.2.2.2.2.2.2.2.2.2.1 h.2.2.2.2.2.2.2.2.2.2.2.2.1

theorem equiv_vecBad {a b : St O} (h : Equiv a b) : Equiv (vecBad a) (vecBad b) :=
  equiv_upd_field h (fun t => vecBad t) (fun _ => ⟨rfl, rfl, rfl, rfl, rfl, rfl, rfl, rfl, rfl, rfl⟩)
    h.2.2.2.2.2.2.1 rfl h.2.2.2.2.2.2.2.2.1 h.2.2.2.2.2.2.2.2.2.1 rfl

theorem equiv_pre {a b : St O} (h : Equiv a b) (sh : Bytes) : Equiv (pre sh a) (pre sh b) := by
  unfold pre
  cases parseShare O sh with
  | none =>
    exact equiv_upd_field h (fun t => markX t) (fun _ => ⟨rfl, rfl, rfl, rfl, rfl, rfl, rfl, rfl, rfl, rfl⟩)
      h.2.2.2.2.2.2.1 h.2.2.2.2.2.2.2.1 h.2.2.2.2.2.2.2.2.1 rfl h.2.2.2.2.2.2.2.2.2.2.2.2.1
  | some x =>
    exact equiv_upd_field h (fun t => setX t x) (fun _ => ⟨rfl, rfl, rfl, rfl, rfl, rfl, rfl, rfl, rfl, rfl⟩)
      h.2.2.2.2.2.2.1 h.2.2.2.2.2.2.2.1 rfl rfl h.2.2.2.2.2.2.2.2.2.2.2.2.1

theorem equiv_cfg {a b : St O} (h : Equiv a b) : SameCfg a b :=
  ⟨h.2.2.1.symm, h.2.2.2.1.symm, h.1.symm, h.2.1.symm, h.2.2.2.2.2.2.2.2.2.2.2.2.2.1.symm,
    h.2.2.2.2.2.2.2.2.2.2.2.2.2.2.symm, h.2.2.2.2.1.symm⟩

theorem cmplF_equiv {a b : St O} (h : Equiv a b) (hn : KeysNodup a) (k : Nat) : cmplF k a = cmplF k b := by
  unfold cmplF; rw [h.find hn k, h.2.2.2.2.2.2.2.1, h.cc k]

theorem ansF_equiv {a b : St O} (h : Equiv a b) (hn : KeysNodup a) (j : Nat) (sc : Option Nat) : ansF j sc a = ansF j sc b := by
  unfold ansF; rw [h.find hn j, h.2.2.2.2.2.2.2.1, h.cc j, h.2.2.2.2.2.2.2.2.2.2.2.2.1, h.2.2.1]

theorem ownF_equiv {a b : St O} (h : Equiv a b) (hn : KeysNodup a) : ownF a = ownF b := by
  unfold ownF; rw [h.2.2.1, h.find hn b.me, h.2.2.2.2.2.2.2.1, h.2.2.2.2.2.2.1, h.cc b.me]

theorem shareF_equiv {a b : St O} (h : Equiv a b) (hn : KeysNodup a) (sh : Bytes) : shareF sh a = shareF sh b := by
  unfold shareF
  cases parseShare O sh with
  | none => exact ownF_equiv h hn
  | some x =>
    simp only []
    have hvs : (setX a x).verifyShare = (setX b x).verifyShare := by
      unfold St.verifyShare
      simp only [setX_vA, setX_me, setX_x, h.2.2.2.2.2.2.1, h.2.2.1]
    rw [h.2.2.2.2.2.2.2.1, hvs, ownF_equiv h hn]

theorem anyBad_equiv {a b : St O} (h : Equiv a b) (v : O.Vec) : anyBad (setVec a v) = anyBad (setVec b v) := by
  unfold anyBad entryBad
  simp only [setVec_complaints, cc_setVec]
  exact List.Perm.any_eq h.2.2.2.2.2.2.2.2.2.2.2.1

theorem wU_equiv {a b : St O} (h : Equiv a b) (hn : KeysNodup a) (v : O.Vec) : wU a v = wU b v := by
  unfold wU
  rw [h.2.2.2.2.2.2.2.2.2.1, h.2.2.1, h.2.2.2.2.2.2.2.2.1, h.find hn b.me]

/-- **every kind of delivery respects the equivalence of states** -/
theorem equiv_interp {a b : St O} (h : Equiv a b) (hn : KeysNodup a) (k : Kind) : Equiv (interp a k) (interp b k) := by
  have hc := equiv_cfg h
  cases k with
  | noop => exact h
  | disq => exact equiv_setDisq h true
  | cmpl k =>
    show Equiv (rcOk a k) (rcOk b k)
    rw [rcOk_F, rcOk_F, cmplF_equiv h hn]
    exact equiv_applyUpd h _ _
  | ans j sc =>
    show Equiv (raOk a j sc) (raOk b j sc)
    rw [raOk_F, raOk_F, ansF_equiv h hn]
    exact equiv_applyUpd h _ _
  | vec d =>
    show Equiv (FvssQ.receiveVerifVector a a.dealer d).1 (FvssQ.receiveVerifVector b b.dealer d).1
    by_cases hg : a.sharesTimeout = true ∨ a.vAReceived = true
    · have hg' : b.sharesTimeout = true ∨ b.vAReceived = true := by
        rw [← h.2.2.2.2.2.2.2.2.2.2.2.2.2.1, ← h.2.2.2.2.2.2.2.1]; exact hg
      rw [rv_noop a a.dealer rfl d hg, rv_noop b b.dealer rfl d hg']; exact h
    · have hst : a.sharesTimeout = false := by
        cases hh : a.sharesTimeout
        · rfl
        · exact absurd (Or.inl hh) hg
      have hv : a.vAReceived = false := by
        cases hh : a.vAReceived
        · rfl
        · exact absurd (Or.inr hh) hg
      rw [rv_eq a a.dealer rfl d hst hv,
        rv_eq b b.dealer rfl d (by rw [← h.2.2.2.2.2.2.2.2.2.2.2.2.2.1]; exact hst) (by rw [← h.2.2.2.2.2.2.2.1]; exact hv),
        parseVec_cfg a b hc]
      cases parseVec a d with
      | none => exact equiv_vecBad h
      | some v =>
        simp only []
        rw [rvOk_upd, rvOk_upd, anyBad_equiv h v, wU_equiv h hn v, h.2.2.1]
        split
        · exact equiv_setDisq (equiv_setVec h v) true
        · exact equiv_applyUpd (equiv_setVec h v) _ _
  | share sh =>
    show Equiv (FvssQ.receiveShare a a.dealer sh).1 (FvssQ.receiveShare b b.dealer sh).1
    by_cases hg : a.sharesTimeout = true ∨ a.xReceived = true
    · have hg' : b.sharesTimeout = true ∨ b.xReceived = true := by
        rw [← h.2.2.2.2.2.2.2.2.2.2.2.2.2.1, ← h.2.2.2.2.2.2.2.2.2.1]; exact hg
      rw [rs_noop a a.dealer rfl sh hg, rs_noop b b.dealer rfl sh hg']; exact h
    · have hst : a.sharesTimeout = false := by
        cases hh : a.sharesTimeout
        · rfl
        · exact absurd (Or.inl hh) hg
      have hx : a.xReceived = false := by
        cases hh : a.xReceived
        · rfl
        · exact absurd (Or.inr hh) hg
      rw [rs_F a a.dealer rfl sh hst hx,
        rs_F b b.dealer rfl sh (by rw [← h.2.2.2.2.2.2.2.2.2.2.2.2.2.1]; exact hst) (by rw [← h.2.2.2.2.2.2.2.2.2.1]; exact hx),
        shareF_equiv h hn, h.2.2.1]
      exact equiv_applyUpd (equiv_pre h sh) _ _


/-! ### the order of deliveries within a round does not matter -/

theorem RelP.trans' {a b c : St O} (h : RelP a b) (g : RelP b c) : RelP a c := by
  rcases h with h | h
  · rcases g with g | g
    · exact Or.inl ⟨h.1, g.2⟩
    · exact Or.inl ⟨h.1, by rw [← g.2.2.2.2.2.2.2.2.2.2.2.2.1]; exact h.2⟩
  · rcases g with g | g
    · exact Or.inl ⟨by rw [h.2.2.2.2.2.2.2.2.2.2.2.2.1]; exact g.1, g.2⟩
    · exact Or.inr (h.trans' g)

theorem relP_step {a b : St O} (h : RelP a b) (ia : Inv a) (ib : Inv b) (e : Dl) : RelP (step a e) (step b e) := by
  rcases h with h | h
  · rw [step_disq a e h.1 ia.hme, step_disq b e h.2 ib.hme]
    exact Or.inl h
  · by_cases hd : a.disqualified = true
    · have hd' : b.disqualified = true := by rw [← h.2.2.2.2.2.2.2.2.2.2.2.2.1]; exact hd
      rw [step_disq a e hd ia.hme, step_disq b e hd' ib.hme]
      exact Or.inr h
    · have hda : a.disqualified = false := by simpa using hd
      have hdb : b.disqualified = false := by rw [← h.2.2.2.2.2.2.2.2.2.2.2.2.1]; exact hda
      rw [step_classify a e ia.hme hda, step_classify b e ib.hme hdb, classify_cfg a b (equiv_cfg h)]
      exact Or.inr (equiv_interp h ia.nodup _)

def runList (s : St O) (l : List Dl) : St O := l.foldl step s

theorem inv_runList (s : St O) (inv : Inv s) (l : List Dl) : Inv (runList s l) := by
  unfold runList
  induction l generalizing s with
  | nil => exact inv
  | cons e t ih => exact ih (step s e) (inv_step s inv e)

theorem relP_runList {a b : St O} (h : RelP a b) (ia : Inv a) (ib : Inv b) (l : List Dl) :
    RelP (runList a l) (runList b l) := by
  unfold runList
  induction l generalizing a b with
  | nil => exact h
  | cons e t ih => exact ih (relP_step h ia ib e) (inv_step a ia e) (inv_step b ib e)

/-- delivery orders the network may produce from one another: adjacent transpositions of reorderable deliveries -/
inductive Swaps : List Dl → List Dl → Prop
  | refl (l : List Dl) : Swaps l l
  | swap (p q : List Dl) (e1 e2 : Dl) (h : reorderable e1 e2) : Swaps (p ++ e1 :: e2 :: q) (p ++ e2 :: e1 :: q)
  | trans {a b c : List Dl} : Swaps a b → Swaps b c → Swaps a c

/-- **the state after a round does not depend on the delivery order** (up to `RelP`) -/
theorem round_independent (s : St O) (inv : Inv s) (l1 l2 : List Dl) (h : Swaps l1 l2) :
    RelP (runList s l1) (runList s l2) := by
  induction h with
  | refl l => exact Or.inr (Equiv.refl' _)
  | swap p q e1 e2 hr =>
    unfold runList
    rw [List.foldl_append, List.foldl_append]
    simp only [List.foldl_cons]
    have ip := inv_runList s inv p
    unfold runList at ip
    have key := step_pair (p.foldl step s) ip e1 e2 hr
    exact relP_runList key (inv_step _ (inv_step _ ip e1) e2) (inv_step _ (inv_step _ ip e2) e1) q
  | trans _ _ ih1 ih2 => exact ih1.trans' ih2


/-! ### delivery orders with the same per-sender, per-channel streams -/

def Dl.chan (e : Dl) : Nat × Bool := (e.sender, e.isPriv)

theorem reorderable_iff (a b : Dl) : reorderable a b ↔ a.chan ≠ b.chan := by
  unfold reorderable Dl.chan
  constructor
  · rintro (h | h) he
    · exact h (congrArg Prod.fst he)
    · exact h (congrArg Prod.snd he)
  · intro h
    by_cases h1 : a.sender = b.sender
    · right; intro h2; exact h (Prod.ext h1 h2)
    · left; exact h1

theorem reorderable_symm {a b : Dl} (h : reorderable a b) : reorderable b a := by
  rw [reorderable_iff] at *; exact fun e => h e.symm

theorem Swaps.symm {a b : List Dl} (h : Swaps a b) : Swaps b a := by
  induction h with
  | refl l => exact Swaps.refl l
  | swap p q e1 e2 hr => exact Swaps.swap p q e2 e1 (reorderable_symm hr)
  | trans _ _ ih1 ih2 => exact Swaps.trans ih2 ih1

theorem Swaps.prepend (p : List Dl) {a b : List Dl} (h : Swaps a b) : Swaps (p ++ a) (p ++ b) := by
  induction h with
  | refl l => exact Swaps.refl _
  | swap p' q e1 e2 hr =>
    have := Swaps.swap (p ++ p') q e1 e2 hr
    simpa [List.append_assoc] using this
  | trans _ _ ih1 ih2 => exact Swaps.trans ih1 ih2

/-- a delivery moves to the front across deliveries of other streams -/
theorem Swaps.bubble (a b : List Dl) (e : Dl) (h : ∀ x ∈ a, reorderable x e) : Swaps (a ++ e :: b) (e :: a ++ b) := by
  induction a using List.reverseRecOn generalizing b with
  | nil => exact Swaps.refl _
  | append_singleton a x ih =>
    have hx : reorderable x e := h x (by simp)
    have h1 : Swaps (a ++ [x] ++ e :: b) (a ++ e :: x :: b) := by
      have := Swaps.swap a b x e hx
      simpa [List.append_assoc] using this
    have h2 : Swaps (a ++ e :: (x :: b)) (e :: a ++ (x :: b)) := ih (x :: b) (fun y hy => h y (by simp [hy]))
    have h3 : e :: a ++ (x :: b) = e :: (a ++ [x]) ++ b := by simp
    rw [h3] at h2
    exact Swaps.trans h1 h2

def stream (l : List Dl) (c : Nat × Bool) : List Dl := l.filter (fun e => e.chan == c)

/-- **two delivery orders with the same stream per sender and channel are related by transpositions of
    reorderable deliveries** -/
theorem swaps_of_streams : ∀ (l1 l2 : List Dl), (∀ c, stream l1 c = stream l2 c) → Swaps l1 l2 := by
  intro l1
  induction l1 with
  | nil =>
    intro l2 h
    cases l2 with
    | nil => exact Swaps.refl _
    | cons x t =>
      have := h x.chan
      simp [stream] at this
  | cons e t ih =>
    intro l2 h
    -- split l2 at the first delivery of the stream of `e`
    have hne : stream l2 e.chan ≠ [] := by
      rw [← h e.chan]; simp [stream]
    obtain ⟨a, e', b, hl2, ha, he'⟩ : ∃ a e' b, l2 = a ++ e' :: b ∧ (∀ x ∈ a, x.chan ≠ e.chan) ∧ e'.chan = e.chan := by
      clear h ih
      induction l2 with
      | nil => simp [stream] at hne
      | cons y u ihu =>
        by_cases hy : y.chan = e.chan
        · exact ⟨[], y, u, rfl, by simp, hy⟩
        · have : stream u e.chan ≠ [] := by
            intro hu; apply hne
            simp [stream, hy]; simpa [stream] using hu
          obtain ⟨a, e', b, h1, h2, h3⟩ := ihu this
          refine ⟨y :: a, e', b, by rw [h1]; rfl, ?_, h3⟩
          intro x hx
          rcases List.mem_cons.1 hx with rfl | hx
          · exact hy
          · exact h2 x hx
    have hfa : stream a e.chan = [] := by
      unfold stream
      rw [List.filter_eq_nil_iff]
      intro x hx; simpa using ha x hx
    have hee : e' = e := by
      have := h e.chan
      rw [hl2] at this
      simp only [stream, List.filter_cons, List.filter_append, beq_self_eq_true, if_true] at this
      have hfa' : List.filter (fun x => x.chan == e.chan) a = [] := hfa
      rw [hfa'] at this
      have he2 : (e'.chan == e.chan) = true := by simpa using he'
      rw [he2] at this
      simp only [if_true, List.nil_append] at this
      exact (List.cons.inj this).1.symm
    subst hee
    -- the remaining deliveries have the same streams
    have hrest : ∀ c, stream t c = stream (a ++ b) c := by
      intro c
      have := h c
      rw [hl2] at this
      simp only [stream, List.filter_cons, List.filter_append] at this ⊢
      by_cases hc : e'.chan = c
      · have hc' : (e'.chan == c) = true := by simpa using hc
        rw [hc'] at this
        simp only [if_true] at this
        have hfa' : List.filter (fun x => x.chan == c) a = [] := by rw [← hc]; exact hfa
        rw [hfa'] at this ⊢
        simp only [List.nil_append] at this ⊢
        exact (List.cons.inj this).2
      · have hc' : (e'.chan == c) = false := by simpa using hc
        rw [hc'] at this
        simpa using this
    have h1 : Swaps (e' :: t) (e' :: (a ++ b)) := Swaps.prepend [e'] (ih (a ++ b) hrest)
    have h2 : Swaps (a ++ e' :: b) (e' :: a ++ b) :=
      Swaps.bubble a b e' (fun x hx => (reorderable_iff x e').2 (ha x hx))
    rw [hl2]
    exact Swaps.trans h1 h2.symm


/-! ### timeouts and `End` -/

theorem equiv_flag {a b : St O} (h : Equiv a b) (f : St O → St O)
    (hf : ∀ t : St O, (f t).size = t.size ∧ (f t).threshold = t.threshold ∧ (f t).me = t.me ∧ (f t).dealer = t.dealer ∧
      (f t).running = t.running ∧ (f t).a = t.a ∧ (f t).validKey = t.validKey ∧ (f t).complaints = t.complaints ∧
      (f t).vA = t.vA ∧ (f t).vAReceived = t.vAReceived ∧ (f t).x = t.x ∧ (f t).xReceived = t.xReceived)
    (h13 : (f a).disqualified = (f b).disqualified) (h14 : (f a).sharesTimeout = (f b).sharesTimeout)
    (h15 : (f a).complaintsTimeout = (f b).complaintsTimeout) : Equiv (f a) (f b) := by
  obtain ⟨g1, g2, g3, g4, g5, g6, g7, g8, g9, g10, g11, g12, _, _, _⟩ := h
  obtain ⟨a1, a2, a3, a4, a5, a6, a7, a8, a9, a10, a11, a12⟩ := hf a
  obtain ⟨b1, b2, b3, b4, b5, b6, b7, b8, b9, b10, b11, b12⟩ := hf b
  exact ⟨by rw [a1, b1, g1], by rw [a2, b2, g2], by rw [a3, b3, g3], by rw [a4, b4, g4], by rw [a5, b5, g5],
    by rw [a6, b6, g6], by rw [a9, b9, g7], by rw [a10, b10, g8], by rw [a11, b11, g9], by rw [a12, b12, g10],
    by rw [a7, b7, g11], by rw [a8, b8]; exact g12, h13, h14, h15⟩

/-- the local timeout step (`NextTimeout` on a running instance) -/
def tstep (s : St O) : St O := (FvssQ.timeoutBody s).1

def stFlag (s : St O) : St O := { s with sharesTimeout := true }
def ctFlag (s : St O) : St O := { s with complaintsTimeout := true }

theorem tstep_eq (s : St O) : tstep s =
    if s.disqualified then (if !s.sharesTimeout then stFlag s else ctFlag s)
    else if !s.sharesTimeout then
      (if !s.vAReceived then setDisq (stFlag s) true
       else if !s.xReceived then (FvssQ.buildComplaint (stFlag s)).1 else stFlag s)
    else (if s.complaints.length > s.threshold then setDisq (ctFlag s) true else ctFlag s) := by
  unfold tstep FvssQ.timeoutBody FvssQ.setSharesTimeout FvssQ.setComplaintsTimeout
  by_cases hd : s.disqualified = true
  · rw [if_pos hd, if_pos hd]
    show (if (!s.sharesTimeout) = true then stFlag s else ctFlag s) = _
    rfl
  · rw [if_neg hd, if_neg hd]
    by_cases hst : (!s.sharesTimeout) = true
    · rw [if_pos hst, if_pos hst]
      simp only []
      by_cases hv : (!s.vAReceived) = true
      · have hv' : (!({ s with sharesTimeout := true } : St O).vAReceived) = true := hv
        rw [if_pos hv, if_pos hv']; rfl
      · have hv' : ¬ (!({ s with sharesTimeout := true } : St O).vAReceived) = true := hv
        rw [if_neg hv, if_neg hv']
        by_cases hx : (!s.xReceived) = true
        · have hx' : (!({ s with sharesTimeout := true } : St O).xReceived) = true := hx
          rw [if_pos hx, if_pos hx']; rfl
        · have hx' : ¬ (!({ s with sharesTimeout := true } : St O).xReceived) = true := hx
          rw [if_neg hx, if_neg hx']; rfl
    · rw [if_neg hst, if_neg hst]
      simp only []
      by_cases hl : s.complaints.length > s.threshold
      · have hl' : ({ s with complaintsTimeout := true } : St O).complaints.length >
            ({ s with complaintsTimeout := true } : St O).threshold := hl
        rw [if_pos hl, if_pos hl']; rfl
      · have hl' : ¬ ({ s with complaintsTimeout := true } : St O).complaints.length >
            ({ s with complaintsTimeout := true } : St O).threshold := hl
        rw [if_neg hl, if_neg hl']; rfl

theorem equiv_stFlag {a b : St O} (h : Equiv a b) : Equiv (stFlag a) (stFlag b) :=
  equiv_flag h stFlag (fun _ => ⟨rfl, rfl, rfl, rfl, rfl, rfl, rfl, rfl, rfl, rfl, rfl, rfl⟩)
    h.2.2.2.2.2.2.2.2.2.2.2.2.1 rfl h.2.2.2.2.2.2.2.2.2.2.2.2.2.2

theorem equiv_ctFlag {a b : St O} (h : Equiv a b) : Equiv (ctFlag a) (ctFlag b) :=
  equiv_flag h ctFlag (fun _ => ⟨rfl, rfl, rfl, rfl, rfl, rfl, rfl, rfl, rfl, rfl, rfl, rfl⟩)
    h.2.2.2.2.2.2.2.2.2.2.2.2.1 h.2.2.2.2.2.2.2.2.2.2.2.2.2.1 rfl

theorem tstep_equiv {a b : St O} (h : Equiv a b) (hn : KeysNodup a) : Equiv (tstep a) (tstep b) := by
  rw [tstep_eq, tstep_eq]
  have g := h
  obtain ⟨g1, g2, g3, g4, g5, g6, g7, g8, g9, g10, g11, g12, g13, g14, g15⟩ := g
  rw [← g13, ← g14, ← g8, ← g10, ← g12.length_eq, ← g2]
  split
  · split
    · exact equiv_stFlag h
    · exact equiv_ctFlag h
  · split
    · split
      · exact equiv_setDisq (equiv_stFlag h) true
      · split
        · rw [bc_upd, bc_upd]
          have e1 := equiv_stFlag h
          have := ownF_equiv e1 hn
          unfold ownF at this
          rw [this, show (stFlag a).me = (stFlag b).me from g3]
          exact equiv_applyUpd e1 _ _
        · exact equiv_stFlag h
    · split
      · exact equiv_setDisq (equiv_ctFlag h) true
      · exact equiv_ctFlag h


theorem tstep_disq (s : St O) (h : s.disqualified = true) : (tstep s).disqualified = true := by
  rw [tstep_eq, if_pos h]
  split <;> exact h

theorem relP_tstep {a b : St O} (h : RelP a b) (hn : KeysNodup a) : RelP (tstep a) (tstep b) := by
  rcases h with h | h
  · exact Or.inl ⟨tstep_disq a h.1, tstep_disq b h.2⟩
  · exact Or.inr (tstep_equiv h hn)

theorem inv_tstep (s : St O) (inv : Inv s) : Inv (tstep s) := by
  rw [tstep_eq]
  have istF : Inv (stFlag s) := by
    refine ⟨inv.hme, inv.nodup, inv.wf, inv.vecok, ?_⟩
    intro c _ _; exact Or.inr rfl
  have ictF : Inv (ctFlag s) := ⟨inv.hme, inv.nodup, inv.wf, inv.vecok, inv.own⟩
  by_cases hd : s.disqualified = true
  · rw [if_pos hd]
    split
    · exact istF
    · exact ictF
  · have hdq : s.disqualified = false := by simpa using hd
    rw [if_neg hd]
    split
    · split
      · exact inv_congr (stFlag s) _ istF rfl rfl rfl (fun _ h => by cases h) (fun h => h) rfl
      · split
        · rw [bc_upd]
          apply inv_applyUpd (stFlag s) istF hdq _ _ (bcU_wf _ _ _)
          intro c _ _; exact Or.inr rfl
        · exact istF
    · split
      · exact inv_congr (ctFlag s) _ ictF rfl rfl rfl (fun _ h => by cases h) (fun h => h) rfl
      · exact ictF

/-- what `End` returns -/
def endRes (s : St O) : Res := (FvssQ.endBody s).2.2

theorem endRes_eq (s : St O) : endRes s =
    if s.disqualified ∨ s.complaints.any (fun kc => kc.2.received && !kc.2.answerReceived) then .failure
    else match s.vA with
      | none => .failure
      | some v => if s.x = 0 then .failure else if O.groupKeyIsIdentity v then .failure
                  else .keys s.x (O.groupKey v) (O.pubShares v) := by
  unfold endRes FvssQ.endBody FvssQ.settle
  simp only []
  by_cases hd : s.disqualified = true
  · simp [hd]
  · have hd' : s.disqualified = false := by simpa using hd
    by_cases ha : (s.complaints.any fun kc => kc.2.received && !kc.2.answerReceived) = true
    · simp [hd', ha]
    · have ha' : (s.complaints.any fun kc => kc.2.received && !kc.2.answerReceived) = false := by simpa using ha
      simp only [hd', ha', Bool.not_false, Bool.false_eq_true, and_false, if_false, false_or]
      cases s.vA with
      | none => rfl
      | some v =>
        simp only []
        split
        · rfl
        · split <;> rfl

/-- **`End` returns the same result on related states** -/
theorem endRes_relP {a b : St O} (h : RelP a b) : endRes a = endRes b := by
  rw [endRes_eq, endRes_eq]
  rcases h with h | h
  · simp [h.1, h.2]
  · obtain ⟨_, _, _, _, _, _, g7, _, g9, _, _, g12, g13, _, _⟩ := h
    rw [g13, g7, g9, List.Perm.any_eq g12]

/-- a complete execution of the three rounds at one participant: deliveries, timeout, deliveries, timeout,
    deliveries, `End` -/
def exec (s : St O) (r1 r2 r3 : List Dl) : Res :=
  endRes (runList (tstep (runList (tstep (runList s r1)) r2)) r3)

/-- **the result of `End` does not depend on the order in which the network delivers the messages of each
    round**: any two executions whose rounds have the same stream of deliveries per sender and channel
    (broadcasts of one sender keep their order, private messages of one sender keep theirs) end with the same
    verdict and, on success, the same keys -/
theorem exec_order_independent (s : St O) (inv : Inv s) (r1 r1' r2 r2' r3 r3' : List Dl)
    (h1 : ∀ c, stream r1 c = stream r1' c) (h2 : ∀ c, stream r2 c = stream r2' c)
    (h3 : ∀ c, stream r3 c = stream r3' c) : exec s r1 r2 r3 = exec s r1' r2' r3' := by
  unfold exec
  apply endRes_relP
  -- round 1
  have a1 := round_independent s inv r1 r1' (swaps_of_streams r1 r1' h1)
  have i1 := inv_runList s inv r1
  have i1' := inv_runList s inv r1'
  have b1 := relP_tstep a1 i1.nodup
  have j1 := inv_tstep _ i1
  have j1' := inv_tstep _ i1'
  -- round 2
  have a2 : RelP (runList (tstep (runList s r1)) r2) (runList (tstep (runList s r1')) r2') :=
    (relP_runList b1 j1 j1' r2).trans' (round_independent _ j1' r2 r2' (swaps_of_streams r2 r2' h2))
  have i2 := inv_runList _ j1 r2
  have i2' := inv_runList _ j1' r2'
  have b2 := relP_tstep a2 i2.nodup
  have j2 := inv_tstep _ i2
  have j2' := inv_tstep _ i2'
  -- round 3
  exact (relP_runList b2 j2 j2' r3).trans' (round_independent _ j2' r3 r3' (swaps_of_streams r3 r3' h3))

end Proofs.DkgCommute
