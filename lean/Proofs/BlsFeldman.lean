import Proofs.CurveInst2
import Driver.Dkg

/-! The Feldman identity in the executable model of the BLS crypto record: Horner evaluation "in the exponent" of the
commitments `a_k • g2` (the model of `E2_polynomial_image`) is `f(x) • g2` for the scalar evaluation `f(x)` the
dealer computes (the model of `Fr_polynomial_image`), by the group law of `E2`. -/

namespace Proofs.BlsFeldman
open Model Model.Curve Proofs.CurveGroup2 Proofs.CurveInst2

/-- integer Horner evaluation (no reduction) -/
def hornerInt (a : List ℕ) (x : ℕ) : ℕ := a.foldr (fun c acc => acc * x + c) 0

theorem polyEval_mod (a : List ℕ) (x : ℕ) : Driver.Dkg.polyEval a x = hornerInt a x % Bls.r := by
  induction a with
  | nil => rfl
  | cons c t ih =>
    show (Driver.Dkg.polyEval t x * x + c) % Bls.r = (hornerInt t x * x + c) % Bls.r
    rw [ih, Nat.add_mod, Nat.mul_mod, Nat.mod_mod, ← Nat.mul_mod, ← Nat.add_mod]

theorem gmul (c : ℕ) (hc : c < 2 ^ 800) :
    Valid Bls.p (0, 0) (4, 4) (Curve.mul (C Bls.p (0, 0) (4, 4)) c Bls.g2) ∧
      toPoint Bls.p (0, 0) (4, 4) (Curve.mul (C Bls.p (0, 0) (4, 4)) c Bls.g2) = c • toPoint Bls.p (0, 0) (4, 4) Bls.g2 :=
  mul_eq Bls.p (0, 0) (4, 4) bls2_Δ bls2_two bls2_bits c hc Bls.g2 bls_g2_valid

theorem rG : Bls.r • toPoint Bls.p (0, 0) (4, 4) Bls.g2 = 0 := by
  have hr : Bls.r < 2 ^ 800 := by decide +kernel
  have m := gmul Bls.r hr
  have hnone : Curve.mul (C Bls.p (0, 0) (4, 4)) Bls.r Bls.g2 = none := by decide +kernel
  rw [hnone] at m
  exact m.2.symm

/-- Horner in the exponent -/
theorem pimg (a : List ℕ) (ha : ∀ c ∈ a, c < 2 ^ 800) (x : ℕ) (hx : x < 2 ^ 800) :
    Valid Bls.p (0, 0) (4, 4) (Driver.Dkg.polyImageE2 (a.map fun c => Curve.mul Bls.E2 c Bls.g2) x) ∧
      toPoint Bls.p (0, 0) (4, 4) (Driver.Dkg.polyImageE2 (a.map fun c => Curve.mul Bls.E2 c Bls.g2) x) =
        hornerInt a x • toPoint Bls.p (0, 0) (4, 4) Bls.g2 := by
  induction a with
  | nil => exact ⟨trivial, by simp [Driver.Dkg.polyImageE2, hornerInt]; rfl⟩
  | cons c t ih =>
    have iht := ih (fun c' hc' => ha c' (List.mem_cons_of_mem _ hc'))
    have gc := gmul c (ha c List.mem_cons_self)
    have mx := mul_eq Bls.p (0, 0) (4, 4) bls2_Δ bls2_two bls2_bits x hx _ iht.1
    have ad := addAff_eq Bls.p (0, 0) (4, 4) bls2_Δ bls2_two bls2_bits _ _ mx.1 gc.1
    show Valid Bls.p (0, 0) (4, 4) (Curve.addAff Bls.E2 (Curve.mul Bls.E2 x
        (Driver.Dkg.polyImageE2 (t.map fun c => Curve.mul Bls.E2 c Bls.g2) x)) (Curve.mul Bls.E2 c Bls.g2)) ∧ _
    rw [bls_E2] at *
    refine ⟨ad.1, ?_⟩
    show toPoint Bls.p (0, 0) (4, 4) (Curve.addAff (C Bls.p (0, 0) (4, 4)) (Curve.mul (C Bls.p (0, 0) (4, 4)) x
        (Driver.Dkg.polyImageE2 (t.map fun c => Curve.mul (C Bls.p (0, 0) (4, 4)) c Bls.g2) x))
        (Curve.mul (C Bls.p (0, 0) (4, 4)) c Bls.g2)) = _
    rw [ad.2, mx.2, iht.2, gc.2, smul_smul, ← add_smul]
    congr 1
    show x * hornerInt t x + c = hornerInt t x * x + c
    ring

/-- **the Feldman identity in the executable model**: for coefficients `a_k` and an abscissa `x` (below `2^800`),
    the image of the commitment vector `(a_k • g2)_k` at `x` computed "in the exponent" equals
    `polyEval a x • g2` -/
theorem feldman (a : List ℕ) (ha : ∀ c ∈ a, c < 2 ^ 800) (x : ℕ) (hx : x < 2 ^ 800) :
    Driver.Dkg.polyImageE2 (a.map fun c => Curve.mul Bls.E2 c Bls.g2) x =
      Curve.mul Bls.E2 (Driver.Dkg.polyEval a x) Bls.g2 := by
  have hr : Bls.r < 2 ^ 800 := by decide +kernel
  have hr0 : 0 < Bls.r := by decide +kernel
  have p1 := pimg a ha x hx
  have p2 := gmul (Driver.Dkg.polyEval a x) (by
    rw [polyEval_mod]; exact lt_trans (Nat.mod_lt _ hr0) hr)
  rw [bls_E2] at *
  apply toPoint_inj Bls.p (0, 0) (4, 4) bls2_Δ _ _ p1.1 p2.1
  rw [p1.2, p2.2, polyEval_mod]
  conv_lhs => rw [← Nat.mod_add_div' (hornerInt a x) Bls.r, add_smul, mul_smul, rG, nsmul_zero, add_zero]

end Proofs.BlsFeldman
