import Proofs.AbsBls
import Mathlib.Algebra.BigOperators.Group.List.Basic
import Mathlib.Algebra.BigOperators.Group.List.Lemmas
import Mathlib.Algebra.Module.Basic

/-! Aggregation (bls_multisig.go) and SPoCK (spock.go, bls_core.c) over the abstract pairing setting. -/

variable {r : ℕ} [Fact r.Prime] {P : PairingGroups r}

/-- `PublicKey()` of a scalar -/
def pubOf (P : PairingGroups r) (sk : ZMod r) : P.G2 := sk • P.g2

/-- `AggregateBLSPrivateKeys` -/
def aggSK (sks : List (ZMod r)) : Except Err (ZMod r) :=
  if sks = [] then .error .emptyList else .ok sks.sum

/-- `AggregateBLSPublicKeys` -/
def aggPK (pks : List P.G2) : Except Err P.G2 :=
  if pks = [] then .error .emptyList else .ok pks.sum

/-- `RemoveBLSPublicKeys` -/
def removePK (agg : P.G2) (rm : List P.G2) : P.G2 := agg - rm.sum

/-- decode every signature (no subgroup check): `E1_sum_vector_byte` reads with `E1_read_bytes` -/
def decodeAll (C : Codec P) : List Bytes → Option (List P.E1)
  | [] => some []
  | s :: t =>
    if s.length ≠ 48 then none else
    match C.decode s, decodeAll C t with
    | some x, some xs => some (x :: xs)
    | _, _ => none

/-- `AggregateBLSSignatures` -/
def aggSig (C : Codec P) (sigs : List Bytes) : Except Err Bytes :=
  if sigs = [] then .error .emptyList
  else match decodeAll C sigs with
    | none => .error .invalidSignature
    | some xs => .ok (C.encode xs.sum)

theorem decodeAll_encode (C : Codec P) (xs : List P.E1) :
    decodeAll C (xs.map C.encode) = some xs := by
  induction xs with
  | nil => rfl
  | cons x t ih =>
    simp only [List.map_cons, decodeAll]
    rw [if_neg (by simpa using C.len _ _ (C.dec_enc x)), C.dec_enc, ih]

theorem list_sum_smul (sks : List (ZMod r)) {M : Type} [AddCommGroup M] [Module (ZMod r) M] (g : M) :
    (sks.map (fun sk => sk • g)).sum = sks.sum • g := by
  induction sks with
  | nil => simp
  | cons a t ih => simp [ih, add_smul]

theorem list_sum_map_hom {A B : Type} [AddCommGroup A] [AddCommGroup B] (f : A →+ B) (l : List A) :
    (l.map f).sum = f l.sum := by
  induction l with
  | nil => simp
  | cons a t ih => simp [ih]

/-! ### SPoCK -/

/-- `SPOCKVerify` on BLS keys (`bls_spock_verify`): both proofs parsed and subgroup-checked, pairing equality -/
def spockVerify (C : Codec P) (pk1 : P.G2) (p1 : Bytes) (pk2 : P.G2) (p2 : Bytes) : Bool :=
  if p1.length ≠ 48 ∨ p2.length ≠ 48 then false
  else if pk1 = 0 ∨ pk2 = 0 then false
  else match C.decode p1 with
    | none => false
    | some x1 => match P.toG1 x1 with
      | none => false
      | some s1 => match C.decode p2 with
        | none => false
        | some x2 => match P.toG1 x2 with
          | none => false
          | some s2 => decide (P.e s1 (-pk2) + P.e s2 pk1 = 0)
