import Mathlib.Algebra.BigOperators.Group.Finset.Basic
import Mathlib.Algebra.Field.ZMod
import Proofs.Limbs
import Proofs.PowMod

/-! The coefficient computed by the C loop (limb products, sign, one inversion) is the textbook Lagrange
coefficient at zero `Π_{j≠i} x_j / (x_j - x_i)` in `F_r`. -/

namespace Proofs.LagrangeCoeff
open Model.Threshold Proofs.Limbs

variable {r : ℕ} [hr : Fact r.Prime] (indices : List Nat) (i : Nat)

/-- node `j` as a field element -/
def v (j : Nat) : ZMod r := (indices.getD j 0 : ZMod r)

/-- signed denominator `Π_{j ∈ js, j ≠ i} (x_j - x_i)` in the field -/
def sden : List Nat → ZMod r
  | [] => 1
  | j :: js => if j = i then sden js else (v (r := r) indices j - v indices i) * sden js

/-- textbook product over a list of positions -/
def lspec : List Nat → ZMod r
  | [] => 1
  | j :: js => if j = i then lspec js else (v (r := r) indices j / (v indices j - v indices i)) * lspec js

theorem dist_cast (a b : Nat) : ((dist a b : Nat) : ZMod r) = if a < b then -((a : ZMod r) - b) else (a : ZMod r) - b := by
  unfold dist
  split
  · rename_i h; rw [Nat.cast_sub (le_of_lt h)]; ring
  · rename_i h; rw [Nat.cast_sub (not_lt.1 h)]

/-- sign and magnitude recombine to the signed product -/
theorem signed_den (js : List Nat) :
    (if flips indices i js then -((den indices i js : Nat) : ZMod r) else ((den indices i js : Nat) : ZMod r)) =
      sden (r := r) indices i js := by
  induction js with
  | nil => simp [flips, den, sden]
  | cons j js ih =>
    by_cases h : j = i
    · simp only [flips, den, sden, h, if_true]; exact ih
    · simp only [flips, den, sden, h, if_false, Nat.cast_mul, dist_cast, v]
      rw [← ih]
      by_cases hlt : indices.getD j 0 < indices.getD i 0
      · simp only [hlt, decide_true, if_true, Bool.true_xor]
        cases flips indices i js <;> simp <;> ring
      · simp only [hlt, decide_false, if_false, Bool.false_xor]
        cases flips indices i js <;> simp

theorem num_div_sden (js : List Nat) :
    ((num indices i js : Nat) : ZMod r) * (sden (r := r) indices i js)⁻¹ = lspec indices i js := by
  induction js with
  | nil => simp [num, sden, lspec]
  | cons j js ih =>
    by_cases h : j = i
    · simp only [num, sden, lspec, h, if_true]; exact ih
    · simp only [num, sden, lspec, h, if_false, Nat.cast_mul, mul_inv, ← ih, v]
      rw [div_eq_mul_inv]; ring

theorem lspec_eq_prod (js : List Nat) (hnd : js.Nodup) :
    lspec (r := r) indices i js = ∏ j ∈ js.toFinset.erase i, v indices j / (v indices j - v indices i) := by
  induction js with
  | nil => simp [lspec]
  | cons j js ih =>
    have hj : j ∉ js := (List.nodup_cons.1 hnd).1
    rw [lspec, ih (List.nodup_cons.1 hnd).2, List.toFinset_cons]
    by_cases h : j = i
    · subst h
      rw [if_pos rfl, Finset.erase_insert_eq_erase]
    · rw [if_neg h, Finset.erase_insert_of_ne h, Finset.prod_insert]
      simp [hj]

/-- **the limb-batched loop computes the textbook Lagrange coefficient at zero**, for every list of indices
    at most 255 and every position `i` -/
theorem coeff_spec (h2 : 2 < r) (hbig : r < 2 ^ 800) (hb : ∀ x ∈ indices, x ≤ 255) :
    ((coeff r indices i : Nat) : ZMod r) =
      ∏ j ∈ (Finset.range indices.length).erase i, v indices j / (v indices j - v indices i) := by
  unfold coeff
  rw [coeffParts_spec indices i r hb]
  simp only []
  rw [ZMod.natCast_mod, Nat.cast_mul, Proofs.PowMod.powMod_inv r h2 hbig]
  have hd : ((if flips indices i (List.range indices.length) = true
      then (r - den indices i (List.range indices.length) % r) % r
      else den indices i (List.range indices.length) % r : Nat) : ZMod r) =
      sden (r := r) indices i (List.range indices.length) := by
    rw [← signed_den]
    split
    · rw [ZMod.natCast_mod, Nat.cast_sub (le_of_lt (Nat.mod_lt _ hr.out.pos)), ZMod.natCast_self,
        ZMod.natCast_mod, zero_sub]
    · rw [ZMod.natCast_mod]
  rw [hd, ZMod.natCast_mod, num_div_sden, lspec_eq_prod indices i _ (List.nodup_range), List.toFinset_range]

end Proofs.LagrangeCoeff
