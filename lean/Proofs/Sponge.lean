import Model.Sponge

/-! Lemmas for C13: the Go `write` loop over any split of the input equals block-by-block absorption. -/

namespace Model.Sponge

variable {St : Type}

/-- `Absorbs a m a' t`: absorbing `m` from state `a` block by block leaves state `a'` and the
    unabsorbed tail `t` (shorter than the rate). -/
inductive Absorbs (absorb : St → Bytes → St) (rate : Nat) : St → Bytes → St → Bytes → Prop
  | done (a m) : m.length < rate → Absorbs absorb rate a m a m
  | step (a b m a' t) : b.length = rate → Absorbs absorb rate (absorb a b) m a' t →
      Absorbs absorb rate a (b ++ m) a' t

theorem Absorbs.tail_lt {absorb : St → Bytes → St} {rate a m a' t}
    (h : Absorbs absorb rate a m a' t) : t.length < rate := by
  induction h with
  | done a m h => exact h
  | step a b m a' t hb _ ih => exact ih

theorem Absorbs.append {absorb : St → Bytes → St} {rate a m a' t p a'' t'}
    (h : Absorbs absorb rate a m a' t) (h2 : Absorbs absorb rate a' (t ++ p) a'' t') :
    Absorbs absorb rate a (m ++ p) a'' t' := by
  induction h with
  | done a m _ => exact h2
  | step a b m a1 t1 hb _ ih =>
    rw [List.append_assoc]
    exact Absorbs.step a b (m ++ p) a'' t' hb (ih h2)

/-- `Absorbs` is the graph of `absorbAll` -/
theorem Absorbs.eq_absorbAll {absorb : St → Bytes → St} {rate a m a' t} (hr : 0 < rate)
    (h : Absorbs absorb rate a m a' t) : ∀ fuel, m.length < fuel →
    absorbAll absorb rate fuel a m = (a', t) := by
  induction h with
  | done a m hlt =>
    intro fuel hf
    cases fuel with
    | zero => omega
    | succ f => simp [absorbAll, hlt]
  | step a b m a' t hb _ ih =>
    intro fuel hf
    cases fuel with
    | zero => omega
    | succ f =>
      simp only [absorbAll]
      have hlen : ¬ (b ++ m).length < rate := by simp [hb]
      rw [if_neg hlen]
      have h1 : (b ++ m).take rate = b := by rw [← hb, List.take_left]
      have h2 : (b ++ m).drop rate = m := by rw [← hb, List.drop_left]
      rw [h1, h2]
      apply ih
      simp [List.length_append] at hf
      omega

theorem writeLoop_isNil (P : Params St) : ∀ fuel (s : State St) (p : Bytes),
    (writeLoop P fuel s p).isNil = s.isNil := by
  intro fuel
  induction fuel with
  | zero => intro s p; rfl
  | succ n ih =>
    intro s p
    unfold writeLoop
    split
    · rfl
    · split
      · rw [ih]
      · simp only
        rw [ih]
        split <;> rfl

theorem writeLoop_repr (P : Params St) (hr : 0 < P.rate) (a0 : St) :
    ∀ fuel (s : State St) (m p : Bytes), p.length < fuel → Absorbs P.absorb P.rate a0 m s.a s.buf →
      Absorbs P.absorb P.rate a0 (m ++ p) (writeLoop P fuel s p).a (writeLoop P fuel s p).buf := by
  intro fuel
  induction fuel with
  | zero => intro s m p h; omega
  | succ n ih =>
    intro s m p hlt hrep
    have hb := hrep.tail_lt
    unfold writeLoop
    split
    · next hp =>
      have : p = [] := List.eq_nil_of_length_eq_zero hp
      subst this; simpa using hrep
    · next hp =>
      split
      · next hfast =>
        obtain ⟨hb0, hrp⟩ := hfast
        have hbnil : s.buf = [] := List.eq_nil_of_length_eq_zero hb0
        have hl : (p.take P.rate).length = P.rate := by simp [List.length_take]; omega
        have hrep' : Absorbs P.absorb P.rate a0 (m ++ p.take P.rate) (P.absorb s.a (p.take P.rate)) [] := by
          apply hrep.append
          rw [hbnil, List.nil_append]
          have := Absorbs.step (absorb := P.absorb) (rate := P.rate) s.a (p.take P.rate) [] _ _ hl
            (Absorbs.done _ [] (by simpa using hr))
          simpa using this
        have := ih { s with a := P.absorb s.a (p.take P.rate), buf := [] } (m ++ p.take P.rate) (p.drop P.rate)
          (by simp [List.length_drop]; omega) (by simpa using hrep')
        rw [hbnil] at *
        simpa [List.append_assoc, List.take_append_drop] using this
      · next hslow =>
        simp only
        have htodo : min (P.rate - s.buf.length) p.length ≤ p.length := Nat.min_le_right _ _
        have hpos : 0 < min (P.rate - s.buf.length) p.length := by
          rw [Nat.lt_min]; omega
        have hlen : (s.buf ++ p.take (min (P.rate - s.buf.length) p.length)).length
            = s.buf.length + min (P.rate - s.buf.length) p.length := by
          simp [List.length_take]
        have hrep' : Absorbs P.absorb P.rate a0 (m ++ p.take (min (P.rate - s.buf.length) p.length))
            (if (s.buf ++ p.take (min (P.rate - s.buf.length) p.length)).length = P.rate then
                ({ s with a := P.absorb s.a (s.buf ++ p.take (min (P.rate - s.buf.length) p.length)), buf := [] } : State St)
              else { s with buf := s.buf ++ p.take (min (P.rate - s.buf.length) p.length) }).a
            (if (s.buf ++ p.take (min (P.rate - s.buf.length) p.length)).length = P.rate then
                ({ s with a := P.absorb s.a (s.buf ++ p.take (min (P.rate - s.buf.length) p.length)), buf := [] } : State St)
              else { s with buf := s.buf ++ p.take (min (P.rate - s.buf.length) p.length) }).buf := by
          apply hrep.append
          split
          · next hfull =>
            have := Absorbs.step (absorb := P.absorb) (rate := P.rate) s.a _ [] _ _ hfull
              (Absorbs.done _ [] (by simpa using hr))
            simpa using this
          · next hnot =>
            exact Absorbs.done _ _ (by rw [hlen] at *; omega)
        have := ih _ (m ++ p.take (min (P.rate - s.buf.length) p.length))
          (p.drop (min (P.rate - s.buf.length) p.length))
          (by simp [List.length_drop]; omega) hrep'
        simpa [List.append_assoc, List.take_append_drop] using this

theorem write_repr (P : Params St) (hr : 0 < P.rate) (a0 : St) (s : State St) (m p : Bytes)
    (hnil : s.isNil = false) (h : Absorbs P.absorb P.rate a0 m s.a s.buf) :
    Absorbs P.absorb P.rate a0 (m ++ p) (write P s p).a (write P s p).buf ∧ (write P s p).isNil = false := by
  unfold write
  simp only [hnil, Bool.false_eq_true, ↓reduceIte]
  exact ⟨writeLoop_repr P hr a0 _ s m p (by omega) h, by rw [writeLoop_isNil]; exact hnil⟩

/-- any way of cutting the message into `Write` calls leaves the state that absorbing the whole
    message leaves -/
theorem writes_repr (P : Params St) (hr : 0 < P.rate) (a0 : St) (chunks : List Bytes) :
    ∀ (s : State St) (m : Bytes), s.isNil = false → Absorbs P.absorb P.rate a0 m s.a s.buf →
      Absorbs P.absorb P.rate a0 (m ++ chunks.flatten) (chunks.foldl (write P) s).a (chunks.foldl (write P) s).buf
      ∧ (chunks.foldl (write P) s).isNil = false := by
  induction chunks with
  | nil => intro s m hn h; simpa using ⟨h, hn⟩
  | cons c cs ih =>
    intro s m hn h
    have h1 := write_repr P hr a0 s m c hn h
    have := ih _ _ h1.2 h1.1
    simpa [List.append_assoc] using this

end Model.Sponge
