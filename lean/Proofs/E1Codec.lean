import Proofs.Primes
import Proofs.Bytes
import Model.Bls

/-! `E1_read_bytes` / `E1_write_bytes` (compressed 48-byte serialization of E1 points): what is accepted
re-serializes to exactly the input, every curve point round-trips, accepted = canonical encodings of curve points.
Uses that `p` is prime, `p ≡ 3 (mod 4)` and that `-4` is not a cube mod `p` (E1 has no point with `y = 0`). -/

namespace Proofs.E1Codec
open Model Model.Bls Proofs.PowMod Proofs.Primes

theorem header_recombine : ∀ n : Nat, n < 256 → n / 128 = 1 → n / 64 % 2 ≠ 1 →
   (UInt8.ofNat n &&& 0x1F) ||| UInt8.ofNat (0x80 + 0x20 * (n / 32 % 2)) = UInt8.ofNat n := by decide +kernel

theorem header_inf : ∀ n : Nat, n < 256 → n / 128 = 1 → n / 64 % 2 = 1 → n % 64 = 0 → n = 0xC0 := by decide +kernel

theorem all_zero (t : Bytes) (h : ¬ (t.any (· ≠ 0)) = true) : t = zeros t.length := by
  induction t with
  | nil => rfl
  | cons a t ih =>
    simp only [List.any_cons, Bool.or_eq_true, not_or] at h
    have ha : a = 0 := by simpa using h.1
    subst ha
    simp only [zeros, List.length_cons, List.replicate_succ]
    congr 1
    exact ih h.2

/-- `-4` is not a cube modulo `p`: no point of E1 has `y = 0` -/
theorem no_y_zero (x : Nat) : (x * x % p * x + 4) % p ≠ 0 := by
  intro h
  have h1 : ((x : ZMod p)) ^ 3 = -4 := by
    have : (((x * x % p * x + 4) % p : Nat) : ZMod p) = 0 := by rw [h]; simp
    rw [ZMod.natCast_mod, Nat.cast_add, Nat.cast_mul, ZMod.natCast_mod, Nat.cast_mul] at this
    have h4 : ((4 : Nat) : ZMod p) = 4 := by norm_cast
    rw [h4] at this
    linear_combination this
  have hx : (x : ZMod p) ≠ 0 := by
    intro hx; rw [hx] at h1
    have : ((4 : Nat) : ZMod p) = 0 := by
      have h0 : (0 : ZMod p) ^ 3 = 0 := by norm_num
      rw [h0] at h1
      push_cast; linear_combination h1
    rw [ZMod.natCast_eq_zero_iff] at this
    have : p ≤ 4 := Nat.le_of_dvd (by norm_num) this
    unfold p at this; omega
  have h2 : ((x : ZMod p)) ^ (p - 1) = 1 := ZMod.pow_card_sub_one_eq_one hx
  have h3 : ((-4 : ZMod p)) ^ ((p - 1) / 3) = 1 := by
    rw [← h1, ← pow_mul]
    have : 3 * ((p - 1) / 3) = p - 1 := by unfold p; norm_num
    rw [this, h2]
  have h5 : (((p - 4 : Nat) : ZMod p)) = -4 := by
    rw [Nat.cast_sub (by unfold p; norm_num)]; simp
  rw [← h5] at h3
  exact powMod_ne_one (a := p - 4) (e := (p - 1) / 3) (m := p) (by unfold p; norm_num) (by decide +kernel)
    (by decide +kernel) h3

theorem readFp_ok (b : Bytes) (x : Nat) (h : readFp b = .ok x) : b.length = 48 ∧ x < p ∧ x = beNat b := by
  unfold readFp at h
  by_cases h1 : b.length ≠ 48
  · rw [if_pos h1] at h; cases h
  rw [if_neg h1] at h
  by_cases h2 : beNat b ≥ p
  · rw [if_pos h2] at h; cases h
  rw [if_neg h2] at h
  injection h with h
  exact ⟨by omega, by omega, h.symm⟩

theorem sqrt_some (a y : Nat) (h : Fp.sqrt? p a = some y) : y < p ∧ y * y % p = a % p := by
  unfold Fp.sqrt? at h
  simp only [] at h
  by_cases h1 : powMod a ((p + 1) / 4) p * powMod a ((p + 1) / 4) p % p = a % p
  · rw [if_pos h1] at h
    injection h with h
    subst h
    refine ⟨?_, h1⟩
    rw [powMod_eq a _ p (by decide +kernel) (by decide +kernel)]
    exact Nat.mod_lt _ (by decide +kernel)
  · rw [if_neg h1] at h; cases h

theorem sign_neg (y : Nat) (h0 : 0 < y) (hy : y < p) : Fp.sign p (Fp.neg p y) = 1 - Fp.sign p y := by
  unfold Fp.sign Fp.neg
  rw [Nat.mod_eq_of_lt hy, Nat.mod_eq_of_lt (by omega)]
  unfold p at *
  split <;> split <;> omega

theorem sign_le (y : Nat) : Fp.sign p y ≤ 1 := by unfold Fp.sign; split <;> omega

/-- **canonical**: whatever `E1_read_bytes` accepts re-serializes to exactly the input bytes -/
theorem e1_canonical (b : Bytes) (P : P1) (h : readE1 b = .ok P) : writeE1 P = b := by
  unfold readE1 at h
  by_cases hl : b.length ≠ 48
  · rw [if_pos hl] at h; cases h
  rw [if_neg hl] at h
  have hlen : b.length = 48 := by omega
  obtain ⟨h0, t, rfl⟩ : ∃ h0 t, b = h0 :: t := by
    cases b with
    | nil => simp at hlen
    | cons a t => exact ⟨_, _, rfl⟩
  dsimp only at h
  rw [show headByte (h0 :: t) = h0.toNat from rfl] at h
  have hlt : h0.toNat < 256 := h0.toNat_lt
  have htl : t.length = 47 := by simpa using hlen
  by_cases hc : h0.toNat / 128 ≠ 1
  · rw [if_pos hc] at h; cases h
  rw [if_neg hc] at h
  by_cases hinf : h0.toNat / 64 % 2 = 1
  · rw [if_pos hinf] at h
    by_cases hz : h0.toNat % 64 ≠ 0
    · rw [if_pos hz] at h; cases h
    rw [if_neg hz] at h
    by_cases ht : (List.drop 1 (h0 :: t)).any (· ≠ 0) = true
    · rw [if_pos ht] at h; cases h
    rw [if_neg ht] at h
    injection h with h; subst h
    have := header_inf h0.toNat hlt (by omega) hinf (by omega)
    have h0c : h0 = 0xC0 := by rw [← UInt8.ofNat_toNat (x := h0), this]; rfl
    have := all_zero t (by simpa using ht)
    rw [htl] at this
    rw [writeE1, h0c, ← this]
  · rw [if_neg hinf] at h
    cases hx : readFp (clearHeader (h0 :: t)) with
    | error e => rw [hx] at h; cases h
    | ok x =>
      rw [hx] at h
      simp only [] at h
      obtain ⟨_, hxp, hxe⟩ := readFp_ok _ _ hx
      cases hs : Fp.sqrt? p ((x * x % p * x + 4) % p) with
      | none => rw [hs] at h; cases h
      | some y =>
        rw [hs] at h
        have h := Except.ok.inj h
        subst h
        obtain ⟨hyp, hyy⟩ := sqrt_some _ _ hs
        have hy0 : 0 < y := by
          rcases Nat.eq_zero_or_pos y with rfl | h
          · exfalso; rw [Nat.mod_mod] at hyy; exact no_y_zero x hyy.symm
          · exact h
        -- the sign of the returned y is the sign bit of the header
        have hsign : Fp.sign p (if Fp.sign p y ≠ h0.toNat / 32 % 2 then Fp.neg p y else y) = h0.toNat / 32 % 2 := by
          by_cases hne : Fp.sign p y ≠ h0.toNat / 32 % 2
          · rw [if_pos hne, sign_neg y hy0 hyp]
            have := sign_le y
            omega
          · rw [if_neg hne]; omega
        unfold writeE1
        simp only []
        rw [hsign, hxe]
        have hch : clearHeader (h0 :: t) = (h0 &&& 0x1F) :: t := rfl
        have hnb := Model.natBE_beNat (clearHeader (h0 :: t))
        rw [hch] at hnb ⊢
        simp only [List.length_cons, htl] at hnb
        rw [hnb]
        simp only []
        have := header_recombine h0.toNat hlt (by omega) hinf
        rw [UInt8.ofNat_toNat] at this
        rw [this]

theorem beNat_cons (h : UInt8) (t : Bytes) : beNat (h :: t) = h.toNat * 256 ^ t.length + beNat t := by
  rw [beNat_eq t]
  unfold beNat
  rw [List.foldl_cons, beNat_foldl]
  simp

theorem p_pos : 0 < p := by decide +kernel
theorem p_gt_one : 1 < p := by decide +kernel
theorem p_lt : p < 2 ^ 381 := by decide +kernel
theorem p_bits : p < 2 ^ 800 := by decide +kernel

theorem eq_of_cast_eq (a b : Nat) (ha : a < p) (hb : b < p) (h : (a : ZMod p) = (b : ZMod p)) : a = b := by
  have := (ZMod.natCast_eq_natCast_iff _ _ _).1 h
  exact Nat.ModEq.eq_of_lt_of_lt this ha hb

theorem neg_cast (y : Nat) : ((Fp.neg p y : Nat) : ZMod p) = -(y : ZMod p) := by
  unfold Fp.neg
  rw [ZMod.natCast_mod, Nat.cast_sub (le_of_lt (Nat.mod_lt _ p_pos)), ZMod.natCast_self, ZMod.natCast_mod, zero_sub]

theorem fneg_lt (y : Nat) : Fp.neg p y < p := Nat.mod_lt _ p_pos

theorem neg_neg' (y : Nat) (hy : y < p) : Fp.neg p (Fp.neg p y) = y := by
  apply eq_of_cast_eq _ _ (fneg_lt _) hy
  rw [neg_cast, neg_cast, neg_neg]

/-- for a non-zero square `a = y²`, the exponentiation `a^((p+1)/4)` is one of the two roots -/
theorem sqrt_of_square (a y : Nat) (hy0 : 0 < y) (hy : y < p) (h : y * y % p = a) :
    ∃ y0, Fp.sqrt? p a = some y0 ∧ (y0 = y ∨ y0 = Fp.neg p y) := by
  have hyne : (y : ZMod p) ≠ 0 := by
    intro hc
    have := eq_of_cast_eq y 0 hy p_pos (by simpa using hc)
    omega
  have hac : (a : ZMod p) = (y : ZMod p) ^ 2 := by
    rw [← h, ZMod.natCast_mod, Nat.cast_mul, pow_two]
  set z := powMod a ((p + 1) / 4) p with hz
  have hzc : (z : ZMod p) = (a : ZMod p) ^ ((p + 1) / 4) := powMod_cast a _ p p_gt_one (by decide +kernel)
  have hzz : (z : ZMod p) ^ 2 = (a : ZMod p) := by
    rw [hzc, ← pow_mul, hac, ← pow_mul]
    have : 2 * ((p + 1) / 4 * 2) = (p - 1) + 2 := by decide +kernel
    rw [this, pow_add, ZMod.pow_card_sub_one_eq_one hyne, one_mul]
  have hzlt : z < p := by
    rw [hz, powMod_eq a _ p p_gt_one (by decide +kernel)]; exact Nat.mod_lt _ p_pos
  refine ⟨z, ?_, ?_⟩
  · unfold Fp.sqrt?
    simp only []
    rw [← hz, if_pos]
    have : ((z * z : Nat) : ZMod p) = ((a : Nat) : ZMod p) := by rw [Nat.cast_mul, ← pow_two, hzz]
    exact (ZMod.natCast_eq_natCast_iff _ _ _).1 this
  · have hfac : ((z : ZMod p) - y) * ((z : ZMod p) + y) = 0 := by
      have : (z : ZMod p) ^ 2 = (y : ZMod p) ^ 2 := by rw [hzz, hac]
      linear_combination this
    rcases mul_eq_zero.1 hfac with h1 | h1
    · left; exact eq_of_cast_eq z y hzlt hy (sub_eq_zero.1 h1)
    · right
      apply eq_of_cast_eq z _ hzlt (fneg_lt _)
      rw [neg_cast]; linear_combination h1

theorem header_build : ∀ n : Nat, n < 32 → ∀ s : Nat, s < 2 →
    ((UInt8.ofNat n ||| UInt8.ofNat (0x80 + 0x20 * s)).toNat / 128 = 1 ∧
     (UInt8.ofNat n ||| UInt8.ofNat (0x80 + 0x20 * s)).toNat / 64 % 2 = 0 ∧
     (UInt8.ofNat n ||| UInt8.ofNat (0x80 + 0x20 * s)).toNat / 32 % 2 = s ∧
     ((UInt8.ofNat n ||| UInt8.ofNat (0x80 + 0x20 * s)) &&& 0x1F) = UInt8.ofNat n) := by decide +kernel

/-- **round trip**: every reduced affine point of the curve (and the point at infinity) serializes to bytes
    that `E1_read_bytes` maps back to the same point -/
theorem e1_roundtrip (P : P1)
    (hP : ∀ x y, P = some (x, y) → x < p ∧ y < p ∧ y * y % p = (x * x % p * x + 4) % p) :
    readE1 (writeE1 P) = .ok P := by
  cases P with
  | none => decide +kernel
  | some xy =>
    obtain ⟨x, y⟩ := xy
    obtain ⟨hx, hy, hcurve⟩ := hP x y rfl
    have hy0 : 0 < y := by
      rcases Nat.eq_zero_or_pos y with rfl | h
      · exfalso; exact no_y_zero x (by rw [← hcurve]; simp)
      · exact h
    have hlen := natBE_length 48 x
    obtain ⟨h0, t, hht⟩ : ∃ h0 t, natBE 48 x = h0 :: t := by
      cases hn : natBE 48 x with
      | nil => rw [hn] at hlen; simp at hlen
      | cons a t => exact ⟨_, _, rfl⟩
    have htl : t.length = 47 := by rw [hht] at hlen; simpa using hlen
    have hbe : beNat (h0 :: t) = x := by
      rw [← hht, beNat_natBE]
      exact Nat.mod_eq_of_lt (lt_trans hx (lt_trans p_lt (by decide +kernel)))
    have hh0 : h0.toNat < 32 := by
      rw [beNat_cons, htl] at hbe
      have : x < 2 ^ 381 := lt_trans hx p_lt
      by_contra hc
      have h32 : 32 ≤ h0.toNat := by omega
      have : 32 * 256 ^ 47 ≤ h0.toNat * 256 ^ 47 := Nat.mul_le_mul_right _ h32
      have e : (32 : Nat) * 256 ^ 47 = 2 ^ 381 := by decide +kernel
      omega
    have hs : Fp.sign p y < 2 := by unfold Fp.sign; split <;> omega
    obtain ⟨f1, f2, f3, f4⟩ := header_build h0.toNat hh0 (Fp.sign p y) hs
    rw [UInt8.ofNat_toNat] at f1 f2 f3 f4
    obtain ⟨y0, hsq, hy0y⟩ := sqrt_of_square _ y hy0 hy hcurve
    unfold writeE1
    simp only []
    rw [hht]
    simp only []
    unfold readE1
    rw [if_neg (by simp [htl])]
    dsimp only
    rw [show headByte ((h0 ||| UInt8.ofNat (0x80 + 0x20 * Fp.sign p y)) :: t) =
      (h0 ||| UInt8.ofNat (0x80 + 0x20 * Fp.sign p y)).toNat from rfl]
    rw [if_neg (by omega), if_neg (by omega)]
    have hch : clearHeader ((h0 ||| UInt8.ofNat (0x80 + 0x20 * Fp.sign p y)) :: t) = h0 :: t := by
      show ((h0 ||| UInt8.ofNat (0x80 + 0x20 * Fp.sign p y)) &&& 0x1F) :: t = h0 :: t
      rw [f4]
    have hrd : readFp (h0 :: t) = .ok x := by
      unfold readFp
      rw [if_neg (by simp [htl]), hbe, if_neg (by omega)]
    rw [hch, hrd]
    simp only []
    rw [hsq]
    simp only []
    rw [f3]
    rcases hy0y with rfl | rfl
    · rw [if_neg (by simp)]
    · rw [if_pos, neg_neg' y hy]
      rw [sign_neg y hy0 hy]; omega

/-- reduced affine point of `y² = x³ + 4`, or the point at infinity -/
def Valid (P : P1) : Prop := ∀ x y, P = some (x, y) → x < p ∧ y < p ∧ y * y % p = (x * x % p * x + 4) % p

theorem fneg_sq (y : Nat) : Fp.neg p y * Fp.neg p y % p = y * y % p := by
  have : ((Fp.neg p y * Fp.neg p y : Nat) : ZMod p) = ((y * y : Nat) : ZMod p) := by
    rw [Nat.cast_mul, neg_cast, Nat.cast_mul]; ring
  exact (ZMod.natCast_eq_natCast_iff _ _ _).1 this

/-- whatever is accepted is a reduced point of the curve -/
theorem e1_accepts_valid (b : Bytes) (P : P1) (h : readE1 b = .ok P) : Valid P := by
  intro x y hP
  subst hP
  unfold readE1 at h
  dsimp only at h
  split at h
  · cases h
  split at h
  · cases h
  split at h
  · split at h
    · cases h
    split at h
    · cases h
    · cases h
  cases hx : readFp (clearHeader b) with
  | error e => rw [hx] at h; cases h
  | ok x' =>
    rw [hx] at h
    dsimp only at h
    cases hs : Fp.sqrt? p ((x' * x' % p * x' + 4) % p) with
    | none => rw [hs] at h; cases h
    | some y' =>
      rw [hs] at h
      have h := Except.ok.inj h
      have h := Option.some.inj h
      obtain ⟨_, hxp, _⟩ := readFp_ok _ _ hx
      obtain ⟨hyp, hyy⟩ := sqrt_some _ _ hs
      rw [Nat.mod_mod] at hyy
      have hx' : x' = x := congrArg Prod.fst h
      have hy' := congrArg Prod.snd h
      dsimp only at hy'
      subst hx'
      refine ⟨hxp, ?_, ?_⟩
      · rw [← hy']; split
        · exact fneg_lt _
        · exact hyp
      · rw [← hy']; split
        · rw [fneg_sq]; exact hyy
        · exact hyy

/-- **accepted = canonical encodings of curve points**: `E1_read_bytes` returns `P` on `b` exactly when `P` is
    a reduced point of the curve (or infinity) and `b` is its serialization -/
theorem e1_accepts_iff (b : Bytes) (P : P1) : readE1 b = .ok P ↔ (Valid P ∧ writeE1 P = b) := by
  constructor
  · intro h; exact ⟨e1_accepts_valid b P h, e1_canonical b P h⟩
  · rintro ⟨hv, rfl⟩; exact e1_roundtrip P hv

/-- two accepted byte strings that decode to the same point are equal: one encoding per point -/
theorem e1_unique_encoding (b b' : Bytes) (P : P1) (h : readE1 b = .ok P) (h' : readE1 b' = .ok P) : b = b' := by
  rw [← e1_canonical b P h, ← e1_canonical b' P h']

end Proofs.E1Codec
