import Proofs.DkgOnce

/-! On success the private share matches the public share: whatever the dealer and the other participants do, if
`End` returns keys at a participant other than the dealer then its private share passes the check against the
verification vector whose keys are returned. -/

namespace Proofs.DkgCommute
open Model Model.Dkg
variable {O : Ops}

/-- the node's own table entry is a complaint that was answered -/
def ownAnswered (s : St O) (c : Complaint) : Prop :=
  s.find s.me = some c ∧ c.received = true ∧ c.answerReceived = true

/-- the node has not complained -/
def notComplained (s : St O) : Prop := ∀ c, s.find s.me = some c → c.received = false

/-- share consistency: as long as the dealer is not disqualified, the stored share is the adopted answer when the
    node's complaint was answered, and it passes the check against the stored vector whenever that is decidable -/
structure SC (s : St O) : Prop where
  inv : Inv s
  adopt : s.disqualified = false → ∀ c, ownAnswered s c → s.x = c.answer
  valid : s.disqualified = false → s.vAReceived = true → ∀ v, s.vA = some v → ∀ c, ownAnswered s c →
    O.checkLog v s.me c.answer = true
  share : s.disqualified = false → s.vAReceived = true → ∀ v, s.vA = some v → notComplained s → s.xReceived = true →
    O.checkLog v s.me s.x = true
  late : s.disqualified = false → s.sharesTimeout = true →
    s.vAReceived = true ∧ (s.xReceived = true ∨ ∃ c, s.find s.me = some c ∧ c.received = true)


theorem own_after_bc (t : St O) : ∃ c, (FvssQ.buildComplaint t).1.find t.me = some c ∧ c.received = true := by
  obtain ⟨c, hc, hr⟩ := (bc_out t).2.2
  rw [(bc_cfg t).1] at hc
  exact ⟨c, hc, hr⟩

/-- share consistency after the node builds its own complaint -/
theorem sc_bc (t : St O) (hinv : Inv (FvssQ.buildComplaint t).1) (hvok : VecOK t) (hdq : t.disqualified = false)
    (hold : ∀ c, ownAnswered t c → t.x = c.answer ∧
      (t.vAReceived = true → ∀ v, t.vA = some v → O.checkLog v t.me c.answer = true))
    (hlate : t.sharesTimeout = true → t.vAReceived = true) : SC (FvssQ.buildComplaint t).1 := by
  have hme : (FvssQ.buildComplaint t).1.me = t.me := (bc_cfg t).1
  have hk := bc_keeps t
  obtain ⟨c1, hc1, hr1⟩ := own_after_bc t
  -- facts about the new own entry, by cases on the old one
  have key : (FvssQ.buildComplaint t).1.disqualified = false → ∀ c, ownAnswered (FvssQ.buildComplaint t).1 c →
      (FvssQ.buildComplaint t).1.x = c.answer ∧
      ((FvssQ.buildComplaint t).1.vAReceived = true → ∀ v, (FvssQ.buildComplaint t).1.vA = some v →
        O.checkLog v t.me c.answer = true) := by
    intro hd c ⟨hf, hr, ha⟩
    rw [hme] at hf
    rw [bc_eq] at hf hd ⊢
    cases hown : t.find t.me with
    | none =>
      rw [hown] at hf hd
      simp only [] at hf hd ⊢
      rw [find_setC_same] at hf
      have := Option.some.inj hf
      rw [← this] at ha; cases ha
    | some c0 =>
      rw [hown] at hf hd
      simp only [] at hf hd ⊢
      by_cases hr0 : c0.received = true
      · rw [if_pos hr0] at hf hd ⊢
        rw [hown] at hf
        have := Option.some.inj hf
        subst this
        exact hold c0 ⟨hown, hr, ha⟩
      · rw [if_neg hr0] at hf hd ⊢
        by_cases ha0 : c0.answerReceived = true
        · rw [if_pos ha0] at hf hd ⊢
          by_cases hv : t.vAReceived = true ∧ t.vA.isSome = true
          · rw [if_pos hv] at hf hd ⊢
            by_cases hc : t.checkComplaint t.me (recv c0) = true
            · rw [if_pos hc] at hd; cases hd
            · rw [if_neg hc] at hf hd ⊢
              have hf' : (t.setC t.me (recv c0)).find t.me = some c := hf
              rw [find_setC_same] at hf'
              have := Option.some.inj hf'
              subst this
              refine ⟨rfl, ?_⟩
              intro _ v hvA
              have hvA' : t.vA = some v := hvA
              have : t.checkComplaint t.me (recv c0) = !(O.checkLog v t.me c0.answer) := by
                unfold St.checkComplaint; rw [hvA']; rfl
              rw [this] at hc
              have hc' : O.checkLog v t.me c0.answer = true := by simpa using hc
              exact hc'
          · rw [if_neg hv] at hf hd ⊢
            have hf' : (t.setC t.me (recv c0)).find t.me = some c := hf
            rw [find_setC_same] at hf'
            have := Option.some.inj hf'
            subst this
            refine ⟨rfl, ?_⟩
            intro hvr v hvA
            exfalso
            have hvr' : t.vAReceived = true := hvr
            exact hv ⟨hvr', hvok hvr' hdq⟩
        · rw [if_neg ha0] at hf
          rw [find_setC_same] at hf
          have := Option.some.inj hf
          rw [← this] at ha
          exact absurd ha ha0
  refine ⟨hinv, ?_, ?_, ?_, ?_⟩
  · intro hd c hc; exact (key hd c hc).1
  · intro hd hv v hvA c hc
    rw [hme]
    exact (key hd c hc).2 hv v hvA
  · intro _ _ _ _ hnc _
    -- after the complaint the node has complained
    have := hnc c1 (by rw [hme]; exact hc1)
    rw [this] at hr1; cases hr1
  · intro _ hst
    rw [(bc_cfg t).2.2.2.2.1] at hst
    refine ⟨by rw [hk.2.1]; exact hlate hst, Or.inr ⟨c1, by rw [hme]; exact hc1, hr1⟩⟩

theorem sc_disq (t : St O) (inv : Inv t) (hd : t.disqualified = true) : SC t := by
  refine ⟨inv, ?_, ?_, ?_, ?_⟩ <;> (intro h; rw [hd] at h; cases h)

theorem sc_transfer (s t : St O) (h : SC s) (invt : Inv t) (hme : t.me = s.me)
    (hown : t.find s.me = s.find s.me) (hx : t.x = s.x) (hxr : t.xReceived = s.xReceived)
    (hvA : t.vA = s.vA) (hvr : t.vAReceived = s.vAReceived) (hst : t.sharesTimeout = s.sharesTimeout)
    (hd : s.disqualified = false) : SC t := by
  have own : ∀ c, ownAnswered t c → ownAnswered s c := by
    intro c hc; unfold ownAnswered at *; rw [hme, hown] at hc; exact hc
  refine ⟨invt, ?_, ?_, ?_, ?_⟩
  · intro _ c hc; rw [hx]; exact h.adopt hd c (own c hc)
  · intro _ hv v hv' c hc; rw [hme]
    exact h.valid hd (by rw [← hvr]; exact hv) v (by rw [← hvA]; exact hv') c (own c hc)
  · intro _ hv v hv' hnc hxr'; rw [hme, hx]
    exact h.share hd (by rw [← hvr]; exact hv) v (by rw [← hvA]; exact hv')
      (by intro c hc; exact hnc c (by rw [hme, hown]; exact hc)) (by rw [← hxr]; exact hxr')
  · intro _ hst'
    obtain ⟨a, b⟩ := h.late hd (by rw [← hst]; exact hst')
    refine ⟨by rw [hvr]; exact a, ?_⟩
    rcases b with b | ⟨c, hc, hr⟩
    · left; rw [hxr]; exact b
    · right; exact ⟨c, by rw [hme, hown]; exact hc, hr⟩

/-- the node's complaint was answered and the answer adopted -/
theorem sc_answered (t : St O) (invt : Inv t) (c' : Complaint) (hf : t.find t.me = some c') (hr : c'.received = true)
    (hx : t.x = c'.answer)
    (hval : t.vAReceived = true → ∀ v, t.vA = some v → O.checkLog v t.me c'.answer = true)
    (hlate : t.sharesTimeout = true → t.vAReceived = true) : SC t := by
  have own : ∀ c, ownAnswered t c → c = c' := by
    intro c hc; have := hc.1; rw [hf] at this; exact (Option.some.inj this).symm
  refine ⟨invt, ?_, ?_, ?_, ?_⟩
  · intro _ c hc; rw [own c hc]; exact hx
  · intro _ hv v hv' c hc; rw [own c hc]; exact hval hv v hv'
  · intro _ _ _ _ hnc _
    have := hnc c' hf; rw [this] at hr; cases hr
  · intro _ hst; exact ⟨hlate hst, Or.inr ⟨c', hf, hr⟩⟩

theorem sc_cmpl (s : St O) (h : SC s) (hdq : s.disqualified = false) (k : Nat) (hk : k ≠ s.me) : SC (rcOk s k) := by
  have invt := inv_rcOk s h.inv hdq k hk
  rw [rcOk_F] at invt ⊢
  have a := applyUpd_vA s k (cmplF k s)
  have r := applyUpd_rest s k (cmplF k s)
  refine sc_transfer s _ h invt a.2.2.1 (find_applyUpd_other s s.me k _ (fun e => hk e.symm)) ?_ a.2.2.2.2 a.1 a.2.1
    r.2.2.2.2.2.1 hdq
  rw [applyUpd_x]
  have : (cmplF k s).x = none := rcU_x _ _ _
  rw [this]

theorem sc_ans_other (s : St O) (h : SC s) (hdq : s.disqualified = false) (j : Nat) (sc : Option Nat) (hj : j ≠ s.me) :
    SC (raOk s j sc) := by
  have invt := inv_raOk s h.inv hdq j sc
  rw [raOk_F] at invt ⊢
  have a := applyUpd_vA s j (ansF j sc s)
  have r := applyUpd_rest s j (ansF j sc s)
  refine sc_transfer s _ h invt a.2.2.1 (find_applyUpd_other s s.me j _ (fun e => hj e.symm)) ?_ a.2.2.2.2 a.1 a.2.1
    r.2.2.2.2.2.1 hdq
  rw [applyUpd_x, ansF_x j sc s hj]

theorem sc_ans_me (s : St O) (h : SC s) (hdq : s.disqualified = false) (sc : Option Nat) : SC (raOk s s.me sc) := by
  have invt := inv_raOk s h.inv hdq s.me sc
  unfold raOk at invt ⊢
  cases hf : s.find s.me with
  | none =>
    rw [hf] at invt
    cases sc with
    | none => exact sc_disq _ invt rfl
    | some a =>
      simp only [] at invt ⊢
      have hfe : (s.setC s.me (early a)).find s.me = some (early a) := find_setC_same s s.me (early a)
      have hno : ∀ c, ¬ ownAnswered (s.setC s.me (early a)) c := by
        intro c hc
        have h1 : (s.setC s.me (early a)).find s.me = some c := hc.1
        rw [hfe] at h1
        have := Option.some.inj h1
        rw [← this] at hc
        exact absurd hc.2.1 (by simp [early])
      refine ⟨invt, ?_, ?_, ?_, ?_⟩
      · intro _ c hc; exact absurd hc (hno c)
      · intro _ _ _ _ c hc; exact absurd hc (hno c)
      · intro _ hv v hv' _ hx
        exact h.share hdq hv v hv' (by intro c hc; rw [hf] at hc; cases hc) hx
      · intro _ hst
        obtain ⟨a1, b⟩ := h.late hdq hst
        refine ⟨a1, ?_⟩
        rcases b with b | ⟨c, hc, _⟩
        · exact Or.inl b
        · rw [hf] at hc; cases hc
  | some c =>
    rw [hf] at invt
    simp only [] at invt ⊢
    by_cases ha : c.answerReceived = true
    · rw [if_pos ha]; exact h
    · rw [if_neg ha] at invt ⊢
      by_cases hr : c.received = true
      · rw [if_pos hr] at invt ⊢
        cases sc with
        | none => exact sc_disq _ invt rfl
        | some a =>
          simp only [] at invt ⊢
          by_cases hv : s.vAReceived = true
          · rw [if_pos hv] at invt ⊢
            by_cases hc : s.checkComplaint s.me { c with answerReceived := true, answer := a } = true
            · have e : (setDisq (s.setC s.me { c with answerReceived := true, answer := a })
                  (s.checkComplaint s.me { c with answerReceived := true, answer := a })).disqualified = true := hc
              rw [if_neg (by rw [e]; simp)] at invt ⊢
              exact sc_disq _ invt e
            · have hc' : s.checkComplaint s.me { c with answerReceived := true, answer := a } = false := by
                simpa using hc
              have e : (setDisq (s.setC s.me { c with answerReceived := true, answer := a })
                  (s.checkComplaint s.me { c with answerReceived := true, answer := a })).disqualified = false := hc'
              rw [if_pos ⟨by rw [e]; rfl, trivial⟩] at invt ⊢
              refine sc_answered _ invt { c with answerReceived := true, answer := a } (find_setC_same s s.me _) hr rfl
                ?_ (fun _ => hv)
              intro _ v hv'
              have hv'' : s.vA = some v := hv'
              have : s.checkComplaint s.me { c with answerReceived := true, answer := a } =
                  !(O.checkLog v s.me a) := by
                unfold St.checkComplaint; rw [hv'']
              rw [this] at hc'
              have : O.checkLog v s.me a = true := by simpa using hc'
              exact this
          · rw [if_neg hv] at invt ⊢
            have e : (s.setC s.me { c with answerReceived := true, answer := a }).disqualified = false := hdq
            rw [if_pos ⟨by rw [e]; rfl, trivial⟩] at invt ⊢
            refine sc_answered _ invt { c with answerReceived := true, answer := a } (find_setC_same s s.me _) hr rfl
              ?_ ?_
            · intro hv2; exact absurd hv2 hv
            · intro hst
              exact absurd (h.late hdq hst).1 hv
      · rcases h.inv.wf s.me c hf with h1 | h1
        · exact absurd h1 hr
        · exact absurd h1 ha

/-- when no registered answer contradicts the vector, the node's own answered complaint passes the check -/
theorem own_ok_of_not_anyBad (s : St O) (v : O.Vec) (hn : KeysNodup s) (hb : anyBad (setVec s v) = false)
    (c : Complaint) (hc : ownAnswered s c) : O.checkLog v s.me c.answer = true := by
  have hf : (setVec s v).find s.me = some c := hc.1
  have hnT : KeysNodup (setVec s v) := hn
  rw [anyBad_find_some (setVec s v) s.me c hnT hf] at hb
  have : entryBad (setVec s v) s.me c = false := by
    cases h : entryBad (setVec s v) s.me c
    · rfl
    · rw [h] at hb; cases hb
  unfold entryBad at this
  rw [hc.2.1, hc.2.2, cc_setVec] at this
  simpa using this

theorem sc_vec (s : St O) (h : SC s) (hdq : s.disqualified = false) (d : Bytes) : SC (interp s (.vec d)) := by
  have invt := inv_interp s h.inv hdq (.vec d) trivial
  show SC (FvssQ.receiveVerifVector s s.dealer d).1
  have invt' : Inv (FvssQ.receiveVerifVector s s.dealer d).1 := invt
  by_cases hg : s.sharesTimeout = true ∨ s.vAReceived = true
  · rw [rv_noop s s.dealer rfl d hg]; exact h
  · have hst : s.sharesTimeout = false := by
      cases h : s.sharesTimeout
      · rfl
      · exact absurd (Or.inl h) hg
    have hv : s.vAReceived = false := by
      cases h : s.vAReceived
      · rfl
      · exact absurd (Or.inr h) hg
    rw [rv_eq s s.dealer rfl d hst hv] at invt' ⊢
    cases hp : parseVec s d with
    | none => rw [hp] at invt'; exact sc_disq _ invt' rfl
    | some v =>
      rw [hp] at invt'
      simp only [] at invt' ⊢
      unfold rvOk at invt' ⊢
      by_cases hb : anyBad (setVec s v) = true
      · rw [if_pos hb] at invt' ⊢; exact sc_disq _ invt' rfl
      · rw [if_neg hb] at invt' ⊢
        have hb' : anyBad (setVec s v) = false := by simpa using hb
        have hold : ∀ c, ownAnswered (setVec s v) c → (setVec s v).x = c.answer ∧
            ((setVec s v).vAReceived = true → ∀ v', (setVec s v).vA = some v' →
              O.checkLog v' (setVec s v).me c.answer = true) := by
          intro c hc
          have hc' : ownAnswered s c := hc
          refine ⟨h.adopt hdq c hc', ?_⟩
          intro _ v' hv'
          have : v = v' := Option.some.inj hv'
          subst this
          exact own_ok_of_not_anyBad s v h.inv.nodup hb' c hc'
        -- the state with the vector stored, no complaint
        have plain : Inv (setVec s v) → (s.xReceived = true → O.checkLog v s.me s.x = true) → SC (setVec s v) := by
          intro iT hxs
          refine ⟨iT, ?_, ?_, ?_, ?_⟩
          · intro _ c hc; exact (hold c hc).1
          · intro _ hvr v' hv' c hc; exact (hold c hc).2 hvr v' hv'
          · intro _ _ v' hv' _ hx
            have : v = v' := Option.some.inj hv'
            subst this
            exact hxs hx
          · intro _ hst'
            have : s.sharesTimeout = true := hst'
            rw [hst] at this; cases this
        by_cases hx : s.xReceived = true
        · rw [if_pos hx] at invt' ⊢
          by_cases hl : (!(setVec s v).verifyShare) = true
          · rw [if_pos hl] at invt' ⊢
            refine sc_bc (setVec s v) invt' (fun _ _ => rfl) hdq hold ?_
            intro hst'
            have : s.sharesTimeout = true := hst'
            rw [hst] at this; cases this
          · rw [if_neg hl] at invt' ⊢
            refine plain invt' (fun _ => ?_)
            rw [vs_setVec] at hl
            simpa using hl
        · rw [if_neg hx] at invt' ⊢
          exact plain invt' (fun hx' => absurd hx' hx)

theorem sc_share (s : St O) (h : SC s) (hdq : s.disqualified = false) (d : Bytes) : SC (interp s (.share d)) := by
  have invt := inv_interp s h.inv hdq (.share d) trivial
  show SC (FvssQ.receiveShare s s.dealer d).1
  have invt' : Inv (FvssQ.receiveShare s s.dealer d).1 := invt
  by_cases hg : s.sharesTimeout = true ∨ s.xReceived = true
  · rw [rs_noop s s.dealer rfl d hg]; exact h
  · have hst : s.sharesTimeout = false := by
      cases h : s.sharesTimeout
      · rfl
      · exact absurd (Or.inl h) hg
    have hx : s.xReceived = false := by
      cases h : s.xReceived
      · rfl
      · exact absurd (Or.inr h) hg
    -- before its share arrived (and before the timeout) the node has not complained
    have hnoc : ∀ c, ¬ ownAnswered s c := by
      intro c hc
      rcases h.inv.own c hc.1 hc.2.1 with h1 | h1
      · rw [hx] at h1; cases h1
      · rw [hst] at h1; cases h1
    rw [rs_eq s s.dealer rfl d hst hx] at invt' ⊢
    cases hp : parseShare O d with
    | none =>
      rw [hp] at invt'
      simp only [] at invt' ⊢
      refine sc_bc (markX s) invt' h.inv.vecok hdq ?_ ?_
      · intro c hc; exact absurd hc (hnoc c)
      · intro hst'
        have : s.sharesTimeout = true := hst'
        rw [hst] at this; cases this
    | some x0 =>
      rw [hp] at invt'
      simp only [] at invt' ⊢
      unfold rsOk at invt' ⊢
      have plain : Inv (setX s x0) → (s.vAReceived = true → (setX s x0).verifyShare = true) → SC (setX s x0) := by
        intro iT hxs
        refine ⟨iT, ?_, ?_, ?_, ?_⟩
        · intro _ c hc; exact absurd hc (hnoc c)
        · intro _ _ _ _ c hc; exact absurd hc (hnoc c)
        · intro _ hvr v' hv' _ _
          have := hxs hvr
          unfold St.verifyShare at this
          have hv'' : (setX s x0).vA = some v' := hv'
          rw [hv''] at this
          exact this
        · intro _ hst'
          have : s.sharesTimeout = true := hst'
          rw [hst] at this; cases this
      by_cases hv : s.vAReceived = true
      · rw [if_pos hv] at invt' ⊢
        by_cases hl : (!(setX s x0).verifyShare) = true
        · rw [if_pos hl] at invt' ⊢
          refine sc_bc (setX s x0) invt' h.inv.vecok hdq ?_ ?_
          · intro c hc; exact absurd hc (hnoc c)
          · intro hst'
            have : s.sharesTimeout = true := hst'
            rw [hst] at this; cases this
        · rw [if_neg hl] at invt' ⊢
          exact plain invt' (fun _ => by simpa using hl)
      · rw [if_neg hv] at invt' ⊢
        exact plain invt' (fun hv' => absurd hv' hv)

/-- **every delivery preserves share consistency** -/
theorem sc_interp (s : St O) (h : SC s) (hdq : s.disqualified = false) (k : Kind) (ok : KOK s k) : SC (interp s k) := by
  cases k with
  | noop => exact h
  | disq => exact sc_disq _ (inv_interp s h.inv hdq .disq trivial) rfl
  | cmpl k => exact sc_cmpl s h hdq k ok
  | ans j sc =>
    by_cases hj : j = s.me
    · subst hj; exact sc_ans_me s h hdq sc
    · exact sc_ans_other s h hdq j sc hj
  | vec d => exact sc_vec s h hdq d
  | share d => exact sc_share s h hdq d

theorem sc_step (s : St O) (h : SC s) (e : Dl) : SC (step s e) := by
  rw [step_run s e h.inv.hme]
  unfold run
  by_cases hd : s.disqualified = true
  · rw [if_pos hd]; exact h
  · rw [if_neg hd]; exact sc_interp s h (by simpa using hd) _ (classify_src s e).2

theorem sc_runList (s : St O) (h : SC s) (l : List Dl) : SC (runList s l) := by
  unfold runList
  induction l generalizing s with
  | nil => exact h
  | cons e t ih => exact ih (step s e) (sc_step s h e)

/-! ### timeouts, and what `End` returns -/

theorem sc_tstep (s : St O) (h : SC s) : SC (tstep s) := by
  have invt := inv_tstep s h.inv
  rw [tstep_eq] at invt ⊢
  by_cases hd : s.disqualified = true
  · rw [if_pos hd] at invt ⊢
    by_cases hst : (!s.sharesTimeout) = true
    · rw [if_pos hst] at invt ⊢; exact sc_disq _ invt hd
    · rw [if_neg hst] at invt ⊢; exact sc_disq _ invt hd
  · have hdq : s.disqualified = false := by simpa using hd
    rw [if_neg hd] at invt ⊢
    by_cases hst : (!s.sharesTimeout) = true
    · rw [if_pos hst] at invt ⊢
      by_cases hv : (!s.vAReceived) = true
      · rw [if_pos hv] at invt ⊢; exact sc_disq _ invt rfl
      · rw [if_neg hv] at invt ⊢
        have hv' : s.vAReceived = true := by simpa using hv
        by_cases hx : (!s.xReceived) = true
        · rw [if_pos hx] at invt ⊢
          refine sc_bc (stFlag s) invt h.inv.vecok hdq ?_ (fun _ => hv')
          intro c hc
          have hc' : ownAnswered s c := hc
          exact ⟨h.adopt hdq c hc', fun hvr v hvA => h.valid hdq hvr v hvA c hc'⟩
        · rw [if_neg hx] at invt ⊢
          have hx' : s.xReceived = true := by simpa using hx
          refine ⟨invt, ?_, ?_, ?_, ?_⟩
          · intro _ c hc; exact h.adopt hdq c hc
          · intro _ hvr v hvA c hc; exact h.valid hdq hvr v hvA c hc
          · intro _ hvr v hvA hnc hxr; exact h.share hdq hvr v hvA hnc hxr
          · intro _ _; exact ⟨hv', Or.inl hx'⟩
    · rw [if_neg hst] at invt ⊢
      have hst' : s.sharesTimeout = true := by simpa using hst
      by_cases hl : s.complaints.length > s.threshold
      · rw [if_pos hl] at invt ⊢; exact sc_disq _ invt rfl
      · rw [if_neg hl] at invt ⊢
        exact sc_transfer s (ctFlag s) h invt rfl rfl rfl rfl rfl rfl rfl hdq

theorem tstep_st (s : St O) : (tstep s).sharesTimeout = true := by
  rw [tstep_eq]
  by_cases hst : (!s.sharesTimeout) = true
  · rw [if_pos hst, if_pos hst]
    split
    · rfl
    · split
      · rfl
      · split
        · rw [(bc_cfg (stFlag s)).2.2.2.2.1]; rfl
        · rfl
  · have hst' : s.sharesTimeout = true := by simpa using hst
    rw [if_neg hst, if_neg hst]
    split
    · exact hst'
    · split <;> exact hst'

theorem runList_st (s : St O) (inv : Inv s) (l : List Dl) : (runList s l).sharesTimeout = s.sharesTimeout ∧
    (runList s l).me = s.me := by
  unfold runList
  induction l generalizing s with
  | nil => exact ⟨rfl, rfl⟩
  | cons e t ih =>
    have := ih (step s e) (inv_step s inv e)
    have c : SameCfg s (step s e) := by rw [step_run s e inv.hme]; exact run_cfg s _
    exact ⟨this.1.trans c.2.2.2.2.1, this.2.trans c.1⟩

/-- **when `End` returns keys, the private share matches the public data**: in a state reached after the first
    timeout, the returned share passes the check against the stored vector, whose keys are the ones returned -/
theorem keys_consistent (s : St O) (h : SC s) (hst : s.sharesTimeout = true) (x : Nat) (Y : Bytes) (ys : List Bytes)
    (hk : endRes s = .keys x Y ys) :
    ∃ v, s.vA = some v ∧ Y = O.groupKey v ∧ ys = O.pubShares v ∧ x = s.x ∧ O.checkLog v s.me x = true := by
  rw [endRes_eq] at hk
  by_cases hc : s.disqualified = true ∨ s.complaints.any (fun kc => kc.2.received && !kc.2.answerReceived) = true
  · rw [if_pos hc] at hk; cases hk
  · rw [if_neg hc] at hk
    have hdq : s.disqualified = false := by
      cases hh : s.disqualified
      · rfl
      · exact absurd (Or.inl hh) hc
    have hun : s.complaints.any (fun kc => kc.2.received && !kc.2.answerReceived) = false := by
      cases hh : s.complaints.any (fun kc => kc.2.received && !kc.2.answerReceived)
      · rfl
      · exact absurd (Or.inr hh) hc
    cases hv : s.vA with
    | none => rw [hv] at hk; cases hk
    | some v =>
      rw [hv] at hk
      simp only [] at hk
      by_cases h0 : s.x = 0
      · rw [if_pos h0] at hk; cases hk
      · rw [if_neg h0] at hk
        by_cases hi : O.groupKeyIsIdentity v = true
        · rw [if_pos hi] at hk; cases hk
        · rw [if_neg hi] at hk
          injection hk with e1 e2 e3
          refine ⟨v, rfl, e2.symm, e3.symm, e1.symm, ?_⟩
          rw [← e1]
          obtain ⟨hvr, hor⟩ := h.late hdq hst
          -- has the node complained?
          cases hf : s.find s.me with
          | none =>
            have hnc : notComplained s := by intro c hc'; rw [hf] at hc'; cases hc'
            rcases hor with hx | ⟨c, hc', _⟩
            · exact h.share hdq hvr v hv hnc hx
            · rw [hf] at hc'; cases hc'
          | some c =>
            by_cases hr : c.received = true
            · -- its complaint was answered, or `End` would have failed
              have hmem : (s.me, c) ∈ s.complaints := by
                unfold St.find at hf
                cases hff : s.complaints.find? (·.1 == s.me) with
                | none => rw [hff] at hf; cases hf
                | some kc =>
                  rw [hff] at hf
                  have h2 : kc.2 = c := by simpa using hf
                  have h1 := find_some_key _ _ _ hff
                  have : kc = (s.me, c) := Prod.ext h1 h2
                  rw [← this]
                  exact List.mem_of_find?_eq_some hff
              have ha : c.answerReceived = true := by
                have := List.any_eq_false.1 hun (s.me, c) hmem
                simp only [hr, Bool.true_and, Bool.not_eq_true', Bool.not_eq_false] at this
                cases hh : c.answerReceived
                · rw [hh] at this; simp at this
                · rfl
              have hoa : ownAnswered s c := ⟨hf, hr, ha⟩
              rw [h.adopt hdq c hoa]
              exact h.valid hdq hvr v hv c hoa
            · have hnc : notComplained s := by
                intro c' hc'; rw [hf] at hc'
                have := Option.some.inj hc'
                rw [← this]; simpa using hr
              rcases hor with hx | ⟨c', hc', hr'⟩
              · exact h.share hdq hvr v hv hnc hx
              · rw [hnc c' hc'] at hr'; cases hr'

/-- the state after the three rounds of deliveries and the two timeouts -/
def final (s : St O) (r1 r2 r3 : List Dl) : St O := runList (tstep (runList (tstep (runList s r1)) r2)) r3

theorem sc_fresh (size threshold me dealer : Nat) (hne : me ≠ dealer) :
    SC ({ size := size, threshold := threshold, me := me, dealer := dealer, running := true } : St O) := by
  refine ⟨⟨hne, List.nodup_nil, ?_, ?_, ?_⟩, ?_, ?_, ?_, ?_⟩
  · intro k c hc; cases hc
  · intro hv; cases hv
  · intro c hc; cases hc
  · intro _ c hc; have := hc.1; cases this
  · intro _ hv; cases hv
  · intro _ hv; cases hv
  · intro _ hv; cases hv

/-- **whatever the dealer and the others send, in whatever order: keys returned by `End` are consistent** -/
theorem exec_keys_consistent (s : St O) (h : SC s) (r1 r2 r3 : List Dl) (x : Nat) (Y : Bytes) (ys : List Bytes)
    (hk : exec s r1 r2 r3 = .keys x Y ys) :
    ∃ v, (final s r1 r2 r3).vA = some v ∧ Y = O.groupKey v ∧ ys = O.pubShares v ∧
      O.checkLog v (final s r1 r2 r3).me x = true := by
  have h1 := sc_runList s h r1
  have h2 := sc_tstep _ h1
  have h3 := sc_runList _ h2 r2
  have h4 := sc_tstep _ h3
  have h5 := sc_runList _ h4 r3
  have hst : (final s r1 r2 r3).sharesTimeout = true := by
    unfold final
    rw [(runList_st _ h4.inv r3).1]
    exact tstep_st _
  obtain ⟨v, a1, a2, a3, _, a5⟩ := keys_consistent (final s r1 r2 r3) h5 hst x Y ys hk
  exact ⟨v, a1, a2, a3, a5⟩

theorem final_me (s : St O) (h : SC s) (r1 r2 r3 : List Dl) : (final s r1 r2 r3).me = s.me := by
  have h1 := sc_runList s h r1
  have h2 := sc_tstep _ h1
  have h3 := sc_runList _ h2 r2
  have h4 := sc_tstep _ h3
  have tme : ∀ t : St O, (tstep t).me = t.me := by
    intro t
    rw [tstep_eq]
    repeat' split
    all_goals first | rfl | exact (bc_cfg (stFlag t)).1
  unfold final
  rw [(runList_st _ h4.inv r3).2, tme, (runList_st _ h2.inv r2).2, tme, (runList_st _ h.inv r1).2]

end Proofs.DkgCommute
