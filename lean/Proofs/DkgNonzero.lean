import Proofs.DkgAgree

/-! The private share a participant holds at `End` is never zero (so `End` never fails *privately* at one honest
participant while another one returns keys): scalars read from the wire are never zero (`readScalarFrStar`), the
share is either such a scalar or the adopted answer to the participant's own complaint, and an answered table entry
carries such a scalar unless the dealer is disqualified. Together with `Proofs.DkgAgree.agreement` this gives the
full agreement statement on what `End` returns. -/

namespace Proofs.DkgAgree
open Model Model.Dkg Proofs.DkgCommute
variable {O : Ops}

/-- scalars read from the wire are non-zero (`Fr_star_read_bytes`) -/
def ReadsNonzero (O : Ops) : Prop := ∀ b n, O.readScalar b = some n → n ≠ 0

/-- an answered entry carries a non-zero scalar -/
def TA (s : St O) : Prop := ∀ k c, s.find k = some c → c.answerReceived = true → c.answer ≠ 0

/-- a stored share is non-zero, unless the participant has complained (then the answer will replace it) -/
def XS (s : St O) : Prop := s.xReceived = false ∨ s.x ≠ 0 ∨ ownRecv s = true

/-- both, for a participant whose dealer is not disqualified -/
structure NZ (s : St O) : Prop where
  inv : Inv s
  ta : s.disqualified = false → TA s
  xs : s.disqualified = false → XS s

theorem nz_disq (s : St O) (inv : Inv s) (h : s.disqualified = true) : NZ s :=
  ⟨inv, fun h' => (by rw [h] at h'; cases h'), fun h' => (by rw [h] at h'; cases h')⟩

/-- entries a descriptor may write: answered ones are non-zero, or the descriptor disqualifies -/
def EntryOK (u : Upd) : Prop := ∀ c, u.entry = some c → c.answerReceived = true → c.answer ≠ 0 ∨ u.disq = some true

theorem ta_applyUpd (s : St O) (hta : TA s) (K : Nat) (u : Upd) (hu : EntryOK u)
    (hd : (applyUpd s K u).disqualified = false) : TA (applyUpd s K u) := by
  intro k c hf har
  rw [find_applyUpd] at hf
  cases he : u.entry with
  | none => rw [he] at hf; exact hta k c hf har
  | some c' =>
    rw [he] at hf
    simp only [] at hf
    by_cases hk : k = K
    · rw [if_pos hk] at hf
      cases hf
      rcases hu c he har with h | h
      · exact h
      · rw [applyUpd_disq, h] at hd; cases hd
    · rw [if_neg hk] at hf; exact hta k c hf har

theorem xs_applyUpd (s : St O) (hxs : XS s) (K : Nat) (u : Upd) (hx : ∀ a, u.x = some a → a ≠ 0)
    (hown : ownRecv s = true → ownRecv (applyUpd s K u) = true) : XS (applyUpd s K u) := by
  rcases hxs with h | h | h
  · left; rw [(applyUpd_vA s K u).2.2.2.2]; exact h
  · right; left
    rw [applyUpd_x]
    cases hu : u.x with
    | none => exact h
    | some a => exact hx a hu
  · right; right; exact hown h

theorem rcU_entryOK (s : St O) (hta : TA s) (k : Nat) : EntryOK (rcU (s.find k) s.vAReceived (s.checkComplaint k)) := by
  intro c he har
  left
  unfold rcU at he
  cases hf : s.find k with
  | none => rw [hf] at he; simp only [] at he; cases he; cases har
  | some c0 =>
    rw [hf] at he
    simp only [] at he
    split at he
    · cases he
    · split at he <;> (cases he; exact hta k c0 hf har)

theorem bcU_entryOK (s : St O) (hta : TA s) (b : Bool) (chk : Complaint → Bool) : EntryOK (bcU (s.find s.me) b chk) := by
  intro c he har
  left
  unfold bcU at he
  cases hf : s.find s.me with
  | none => rw [hf] at he; simp only [] at he; cases he; cases har
  | some c0 =>
    rw [hf] at he
    simp only [] at he
    split at he
    · cases he
    · split at he
      · split at he
        · split at he <;> (cases he; exact hta _ c0 hf har)
        · cases he; exact hta _ c0 hf har
      · cases he; exact hta _ c0 hf har

theorem bcU_x (s : St O) (hta : TA s) (b : Bool) (chk : Complaint → Bool) :
    ∀ a, (bcU (s.find s.me) b chk).x = some a → a ≠ 0 := by
  intro a he
  unfold bcU at he
  cases hf : s.find s.me with
  | none => rw [hf] at he; cases he
  | some c0 =>
    rw [hf] at he
    simp only [] at he
    split at he
    · cases he
    · rename_i hr
      split at he
      · rename_i har
        split at he
        · split at he
          · cases he
          · cases he; exact hta _ c0 hf har
        · cases he; exact hta _ c0 hf har
      · cases he

theorem raU_entryOK (s : St O) (hta : TA s) (hwf : EntriesWF s) (k : Nat) (v : Bool) (chk : Complaint → Bool) (d m : Bool)
    (sc : Option Nat) (hsc : ∀ a, sc = some a → a ≠ 0) : EntryOK (raU (s.find k) v chk d m sc) := by
  intro c he har
  cases hf : s.find k with
  | none =>
    rw [hf] at he
    cases sc with
    | none => right; rfl
    | some a => unfold raU at he; simp only [] at he; cases he; left; exact hsc a rfl
  | some c0 =>
    rw [hf] at he
    by_cases har0 : c0.answerReceived = true
    · unfold raU at he; simp only [har0, if_true] at he; cases he
    · by_cases hr0 : c0.received = true
      · cases sc with
        | none => right; unfold raU; simp only [har0, hr0, if_true, Bool.false_eq_true, if_false]
        | some a =>
          unfold raU at he
          simp only [har0, hr0, if_true, Bool.false_eq_true, if_false] at he
          cases he; left; exact hsc a rfl
      · rcases hwf k c0 hf with h | h
        · exact absurd h hr0
        · exact absurd h har0

theorem raU_x (fc : Option Complaint) (v : Bool) (chk : Complaint → Bool) (d m : Bool) (sc : Option Nat)
    (hsc : ∀ a, sc = some a → a ≠ 0) : ∀ a, (raU fc v chk d m sc).x = some a → a ≠ 0 := by
  intro a he
  unfold raU at he
  cases fc with
  | none => cases sc <;> cases he
  | some c0 =>
    simp only [] at he
    split at he
    · cases he
    · split at he
      · cases sc with
        | none => cases he
        | some a' =>
          simp only [] at he
          rw [Option.ite_none_right_eq_some] at he
          rw [← Option.some.inj he.2]; exact hsc a' rfl
      · cases he

/-! ### the participant's own complaint -/

theorem nz_bc (t : St O) (invt : Inv (FvssQ.buildComplaint t).1) (hta : t.disqualified = false → TA t) (hdq : t.disqualified = false) :
    NZ (FvssQ.buildComplaint t).1 := by
  refine ⟨invt, ?_, ?_⟩
  · intro hd
    rw [bc_upd] at hd ⊢
    exact ta_applyUpd t (hta hdq) _ _ (bcU_entryOK t (hta hdq) _ _) hd
  · intro _
    right; right; exact ownRecv_bc t

/-! ### every delivery -/

theorem parseA_sc (s : St O) (data : Bytes) (j : Nat) (sc : Option Nat) (hp : parseA s data = some (j, sc)) :
    sc = O.readScalar (data.drop 1) := by
  unfold parseA at hp
  split at hp
  · cases hp
  · split at hp
    · cases hp
    · cases hp; rfl

theorem classifyB_ans_sc (hr : ReadsNonzero O) (s : St O) (o : Nat) (m : Bytes) (j : Nat) (sc : Option Nat)
    (h : classifyB s o m = .ans j sc) : ∀ a, sc = some a → a ≠ 0 := by
  unfold classifyB at h
  repeat' (first | split at h | (simp only [] at h; split at h))
  all_goals first | cases h | skip
  rename_i hp
  intro a ha
  rw [parseA_sc s _ j sc hp] at ha
  exact hr _ a ha

theorem parseShare_nz (hr : ReadsNonzero O) (d : Bytes) (x : Nat) (h : parseShare O d = some x) : x ≠ 0 := by
  unfold parseShare at h
  split at h
  · cases h
  · split at h
    · cases h
    · exact hr _ x h

/-- kinds whose scalars come from the wire -/
def KNZ : Kind → Prop
  | .ans _ sc => ∀ a, sc = some a → a ≠ 0
  | _ => True

theorem nz_interp (hr : ReadsNonzero O) (s : St O) (h : NZ s) (hdq : s.disqualified = false) (k : Kind) (ok : KOK s k)
    (knz : KNZ k) : NZ (interp s k) := by
  have invk := inv_interp s h.inv hdq k ok
  cases k with
  | noop => exact h
  | disq => exact nz_disq _ invk rfl
  | cmpl k =>
    have hk : k ≠ s.me := ok
    show NZ (rcOk s k)
    have invk' : Inv (rcOk s k) := invk
    rw [rcOk_upd] at invk' ⊢
    refine ⟨invk', fun hd => ta_applyUpd s (h.ta hdq) _ _ (rcU_entryOK s (h.ta hdq) k) hd, fun _ => ?_⟩
    apply xs_applyUpd s (h.xs hdq) _ _
    · intro a ha; rw [rcU_x] at ha; cases ha
    · intro ho; rw [ownRecv_applyUpd_other s k _ (fun e => hk e.symm)]; exact ho
  | ans j sc =>
    show NZ (raOk s j sc)
    have invk' : Inv (raOk s j sc) := invk
    rw [raOk_upd] at invk' ⊢
    refine ⟨invk', fun hd => ta_applyUpd s (h.ta hdq) _ _ (raU_entryOK s (h.ta hdq) h.inv.wf j _ _ _ _ sc knz) hd, fun _ => ?_⟩
    apply xs_applyUpd s (h.xs hdq) _ _ (raU_x _ _ _ _ _ sc knz)
    intro ho; rw [ownRecv_raOk]; exact ho
  | vec d =>
    show NZ (FvssQ.receiveVerifVector s s.dealer d).1
    have invk' : Inv (FvssQ.receiveVerifVector s s.dealer d).1 := invk
    by_cases hn : s.sharesTimeout = true ∨ s.vAReceived = true
    · rw [rv_noop s s.dealer rfl d hn]; exact h
    · have hst : s.sharesTimeout = false := by
        cases hs : s.sharesTimeout with
        | false => rfl
        | true => exact absurd (Or.inl hs) hn
      have hv : s.vAReceived = false := by
        cases hs : s.vAReceived with
        | false => rfl
        | true => exact absurd (Or.inr hs) hn
      rw [rv_eq s s.dealer rfl d hst hv] at invk' ⊢
      cases hp : parseVec s d with
      | none => rw [hp] at invk'; exact nz_disq _ invk' rfl
      | some v =>
        rw [hp] at invk'
        simp only [] at invk' ⊢
        have htaV : (setVec s v).disqualified = false → TA (setVec s v) := fun _ => h.ta hdq
        unfold rvOk at invk' ⊢
        by_cases hb : anyBad (setVec s v) = true
        · rw [if_pos hb] at invk' ⊢; exact nz_disq _ invk' rfl
        · rw [if_neg hb] at invk' ⊢
          by_cases hx : s.xReceived = true
          · rw [if_pos hx] at invk' ⊢
            by_cases hl : (!(setVec s v).verifyShare) = true
            · rw [if_pos hl] at invk' ⊢
              exact nz_bc (setVec s v) invk' htaV hdq
            · rw [if_neg hl] at invk' ⊢
              exact ⟨invk', fun _ => h.ta hdq, fun _ => by
                rcases h.xs hdq with a | a | a
                · left; exact a
                · right; left; exact a
                · right; right; rw [ownRecv_congr (s := s) (t := setVec s v) rfl rfl]; exact a⟩
          · rw [if_neg hx] at invk' ⊢
            exact ⟨invk', fun _ => h.ta hdq, fun _ => Or.inl (by simpa using hx)⟩
  | share d =>
    show NZ (FvssQ.receiveShare s s.dealer d).1
    have invk' : Inv (FvssQ.receiveShare s s.dealer d).1 := invk
    by_cases hn : s.sharesTimeout = true ∨ s.xReceived = true
    · rw [rs_noop s s.dealer rfl d hn]; exact h
    · have hst : s.sharesTimeout = false := by
        cases hs : s.sharesTimeout with
        | false => rfl
        | true => exact absurd (Or.inl hs) hn
      have hx : s.xReceived = false := by
        cases hs : s.xReceived with
        | false => rfl
        | true => exact absurd (Or.inr hs) hn
      rw [rs_eq s s.dealer rfl d hst hx] at invk' ⊢
      cases hp : parseShare O d with
      | none =>
        rw [hp] at invk'
        simp only [] at invk' ⊢
        exact nz_bc (markX s) invk' (fun _ => h.ta hdq) hdq
      | some x =>
        rw [hp] at invk'
        simp only [] at invk' ⊢
        have hx0 : x ≠ 0 := parseShare_nz hr d x hp
        unfold rsOk at invk' ⊢
        by_cases hv : s.vAReceived = true
        · rw [if_pos hv] at invk' ⊢
          by_cases hl : (!(setX s x).verifyShare) = true
          · rw [if_pos hl] at invk' ⊢
            exact nz_bc (setX s x) invk' (fun _ => h.ta hdq) hdq
          · rw [if_neg hl] at invk' ⊢
            exact ⟨invk', fun _ => h.ta hdq, fun _ => Or.inr (Or.inl hx0)⟩
        · rw [if_neg hv] at invk' ⊢
          exact ⟨invk', fun _ => h.ta hdq, fun _ => Or.inr (Or.inl hx0)⟩


theorem classify_knz (hr : ReadsNonzero O) (s : St O) (e : Dl) : KNZ (classify s e) := by
  cases e with
  | priv o m =>
    show KNZ (if s.me = o then .noop else if o = s.dealer then .share m else .noop)
    split
    · trivial
    · split <;> trivial
  | bcast o m =>
    show KNZ (classifyB s o m)
    cases hK : classifyB s o m with
    | ans j sc => exact classifyB_ans_sc hr s o m j sc hK
    | _ => trivial

theorem nz_step (hr : ReadsNonzero O) (s : St O) (h : NZ s) (e : Dl) : NZ (step s e) := by
  rw [step_run s e h.inv.hme]
  unfold run
  by_cases hd : s.disqualified = true
  · rw [if_pos hd]; exact h
  · rw [if_neg hd]; exact nz_interp hr s h (by simpa using hd) _ (classify_src s e).2 (classify_knz hr s e)

theorem nz_runList (hr : ReadsNonzero O) (s : St O) (h : NZ s) (l : List Dl) : NZ (runList s l) := by
  unfold runList
  induction l generalizing s with
  | nil => exact h
  | cons e t ih => exact ih (step s e) (nz_step hr s h e)

theorem nz_tstep (s : St O) (h : NZ s) : NZ (tstep s) := by
  have invt := inv_tstep s h.inv
  rw [tstep_eq] at invt ⊢
  by_cases hd : s.disqualified = true
  · rw [if_pos hd] at invt ⊢
    split at invt <;> rename_i hs
    · rw [if_pos hs]; exact nz_disq _ invt hd
    · rw [if_neg hs]; exact nz_disq _ invt hd
  · have hdq : s.disqualified = false := by simpa using hd
    rw [if_neg hd] at invt ⊢
    by_cases hst : (!s.sharesTimeout) = true
    · rw [if_pos hst] at invt ⊢
      by_cases hv : (!s.vAReceived) = true
      · rw [if_pos hv] at invt ⊢; exact nz_disq _ invt rfl
      · rw [if_neg hv] at invt ⊢
        by_cases hx : (!s.xReceived) = true
        · rw [if_pos hx] at invt ⊢
          exact nz_bc (stFlag s) invt (fun _ => h.ta hdq) hdq
        · rw [if_neg hx] at invt ⊢
          exact ⟨invt, fun _ => h.ta hdq, fun _ => by
            rcases h.xs hdq with a | a | a
            · left; exact a
            · right; left; exact a
            · right; right; rw [ownRecv_congr (s := s) (t := stFlag s) rfl rfl]; exact a⟩
    · rw [if_neg hst] at invt ⊢
      by_cases hl : s.complaints.length > s.threshold
      · rw [if_pos hl] at invt ⊢; exact nz_disq _ invt rfl
      · rw [if_neg hl] at invt ⊢
        exact ⟨invt, fun _ => h.ta hdq, fun _ => by
          rcases h.xs hdq with a | a | a
          · left; exact a
          · right; left; exact a
          · right; right; rw [ownRecv_congr (s := s) (t := ctFlag s) rfl rfl]; exact a⟩

theorem nz_fresh (size threshold me dealer : Nat) (h : me ≠ dealer) : NZ (fresh O size threshold me dealer) :=
  ⟨inv_fresh size threshold me dealer h, fun _ k c hc => (by cases hc), fun _ => Or.inl rfl⟩

theorem nz_final (hr : ReadsNonzero O) (s : St O) (h : NZ s) (r1 r2 r3 : List Dl) : NZ (final s r1 r2 r3) := by
  unfold final
  exact nz_runList hr _ (nz_tstep _ (nz_runList hr _ (nz_tstep _ (nz_runList hr _ h r1)) r2)) r3

theorem mem_of_find (s : St O) (k : Nat) (c : Complaint) (h : s.find k = some c) : (k, c) ∈ s.complaints := by
  unfold St.find at h
  cases hf : s.complaints.find? (·.1 == k) with
  | none => rw [hf] at h; cases h
  | some kc =>
    rw [hf] at h
    have hk : kc.1 = k := find_some_key _ _ _ hf
    have hm := List.mem_of_find?_eq_some hf
    have : kc = (k, c) := by
      obtain ⟨a, b⟩ := kc
      simp only [Option.map_some, Option.some.injEq] at h
      simp only at hk
      rw [hk, h]
    rw [← this]; exact hm

/-- **at `End` the share is never zero when the public result is a success** -/
theorem x_nonzero_at_end (s : St O) (hnz : NZ s) (hsc : SC s) (hst : s.sharesTimeout = true) (Yys : Bytes × List Bytes)
    (hp : pubRes s = some Yys) : s.x ≠ 0 := by
  unfold pubRes at hp
  by_cases hc : s.disqualified = true ∨ unanswered s = true
  · rw [if_pos hc] at hp; cases hp
  · have hdq : s.disqualified = false := by
      cases hd : s.disqualified with
      | false => rfl
      | true => exact absurd (Or.inl hd) hc
    have hun : unanswered s = false := by
      cases hu : unanswered s with
      | false => rfl
      | true => exact absurd (Or.inr hu) hc
    have late := hsc.late hdq hst
    by_cases ho : ownRecv s = true
    · -- the participant complained: the complaint was answered, the answer adopted
      unfold ownRecv at ho
      cases hf : s.find s.me with
      | none => rw [hf] at ho; cases ho
      | some c =>
        rw [hf] at ho
        change c.received = true at ho
        have hmem := mem_of_find s s.me c hf
        have har : c.answerReceived = true := by
          cases ha : c.answerReceived with
          | true => rfl
          | false =>
            have : unanswered s = true := by
              unfold unanswered
              rw [List.any_eq_true]
              exact ⟨(s.me, c), hmem, by simp [ho, ha]⟩
            rw [this] at hun; cases hun
        rw [hsc.adopt hdq c ⟨hf, ho, har⟩]
        exact hnz.ta hdq s.me c hf har
    · have ho' : ownRecv s = false := by simpa using ho
      rcases hnz.xs hdq with a | a | a
      · rcases late.2 with l | ⟨c, hf, hr⟩
        · rw [l] at a; cases a
        · unfold ownRecv at ho'; rw [hf] at ho'; change c.received = false at ho'; rw [hr] at ho'; cases ho'
      · exact a
      · rw [a] at ho'; cases ho'


theorem final_st (s : St O) (inv : Inv s) (r1 r2 r3 : List Dl) : (final s r1 r2 r3).sharesTimeout = true := by
  unfold final
  have i1 := inv_runList s inv r1
  have j1 := inv_tstep _ i1
  have i2 := inv_runList _ j1 r2
  have j2 := inv_tstep _ i2
  rw [(runList_st _ j2 r3).1]
  exact tstep_st _

theorem sc_final (s : St O) (h : SC s) (r1 r2 r3 : List Dl) : SC (final s r1 r2 r3) := by
  unfold final
  exact sc_runList _ (sc_tstep _ (sc_runList _ (sc_tstep _ (sc_runList _ h r1)) r2)) r3

/-- what `End` returns at a participant, from its public result: a failure, or keys with a non-zero private share -/
theorem end_of_pubRes (hr : ReadsNonzero O) (size threshold me dealer : Nat) (hne : me ≠ dealer) (r1 r2 r3 : List Dl) :
    (pubRes (final (fresh O size threshold me dealer) r1 r2 r3) = none ∧
      exec (fresh O size threshold me dealer) r1 r2 r3 = .failure) ∨
    (∃ Y ys x, pubRes (final (fresh O size threshold me dealer) r1 r2 r3) = some (Y, ys) ∧ x ≠ 0 ∧
      exec (fresh O size threshold me dealer) r1 r2 r3 = .keys x Y ys) := by
  have hex : exec (fresh O size threshold me dealer) r1 r2 r3 = endRes (final (fresh O size threshold me dealer) r1 r2 r3) := rfl
  rw [hex, endRes_pubRes]
  cases hp : pubRes (final (fresh O size threshold me dealer) r1 r2 r3) with
  | none => left; exact ⟨rfl, rfl⟩
  | some Yys =>
    right
    have hx := x_nonzero_at_end _ (nz_final hr _ (nz_fresh size threshold me dealer hne) r1 r2 r3)
      (sc_final _ (sc_fresh size threshold me dealer hne) r1 r2 r3)
      (final_st _ (inv_fresh size threshold me dealer hne) r1 r2 r3) Yys hp
    refine ⟨Yys.1, Yys.2, _, rfl, hx, ?_⟩
    simp only []
    rw [if_neg hx]

/-- **C07, agreement on what `End` returns**: under the hypotheses of `agreement`, with wire scalars never zero
    (`readScalarFrStar`), either both honest participants get a DKG failure from `End`, or both get keys with the
    same group public key and the same vector of public key shares (and non-zero private shares) -/
theorem agreement_end (hr : ReadsNonzero O) (size threshold dealer ma mb : Nat) (hd : dealer < size) (hs : size ≤ 256)
    (hma : ma < size) (hmb : mb < size) (hmad : ma ≠ dealer) (hmbd : mb ≠ dealer) (hab : ma ≠ mb)
    (ra1 ra2 ra3 rb1 rb2 rb3 : List Dl)
    (ba1 : ∀ e ∈ ra1, e.sender < size) (ba2 : ∀ e ∈ ra2, e.sender < size) (ba3 : ∀ e ∈ ra3, e.sender < size)
    (bb1 : ∀ e ∈ rb1, e.sender < size) (bb2 : ∀ e ∈ rb2, e.sender < size) (bb3 : ∀ e ∈ rb3, e.sender < size)
    (n1 : Net ma mb ra1 rb1 (bR1 (fresh O size threshold ma dealer) ra1) (bR1 (fresh O size threshold mb dealer) rb1))
    (n2 : Net ma mb ra2 rb2 (bR2 (fresh O size threshold ma dealer) ra1 ra2) (bR2 (fresh O size threshold mb dealer) rb1 rb2))
    (n3 : Net ma mb ra3 rb3 (bR3 (fresh O size threshold ma dealer) ra1 ra2 ra3)
      (bR3 (fresh O size threshold mb dealer) rb1 rb2 rb3)) :
    (exec (fresh O size threshold ma dealer) ra1 ra2 ra3 = .failure ∧
      exec (fresh O size threshold mb dealer) rb1 rb2 rb3 = .failure) ∨
    (∃ Y ys xa xb, xa ≠ 0 ∧ xb ≠ 0 ∧ exec (fresh O size threshold ma dealer) ra1 ra2 ra3 = .keys xa Y ys ∧
      exec (fresh O size threshold mb dealer) rb1 rb2 rb3 = .keys xb Y ys) := by
  have hag := agreement size threshold dealer ma mb hd hs hma hmb hmad hmbd hab ra1 ra2 ra3 rb1 rb2 rb3
    ba1 ba2 ba3 bb1 bb2 bb3 n1 n2 n3
  rcases end_of_pubRes hr size threshold ma dealer hmad ra1 ra2 ra3 with ⟨pa, ea⟩ | ⟨Y, ys, xa, pa, hxa, ea⟩
  · rcases end_of_pubRes hr size threshold mb dealer hmbd rb1 rb2 rb3 with ⟨_, eb⟩ | ⟨Y, ys, xb, pb, _, _⟩
    · left; exact ⟨ea, eb⟩
    · rw [pa, pb] at hag; cases hag
  · rcases end_of_pubRes hr size threshold mb dealer hmbd rb1 rb2 rb3 with ⟨pb, _⟩ | ⟨Y', ys', xb, pb, hxb, eb⟩
    · rw [pa, pb] at hag; cases hag
    · rw [pa, pb] at hag
      have := Option.some.inj hag
      have h1 : Y = Y' := (Prod.mk.inj this).1
      have h2 : ys = ys' := (Prod.mk.inj this).2
      subst h1; subst h2
      right; exact ⟨Y, ys, xa, xb, hxa, hxb, ea, eb⟩

end Proofs.DkgAgree
