import Model.Dkg
import Mathlib.Tactic.SplitIfs

/-! Message handlers never touch the run / timeout flags nor the instance parameters. -/

namespace Model.Dkg
variable {O : Ops}

/-- the fields every handler body leaves alone -/
def sameFlags (s s' : St O) : Prop :=
  s'.running = s.running ∧ s'.sharesTimeout = s.sharesTimeout ∧ s'.complaintsTimeout = s.complaintsTimeout ∧
  s'.size = s.size ∧ s'.threshold = s.threshold ∧ s'.me = s.me ∧ s'.dealer = s.dealer

theorem sameFlags.refl (s : St O) : sameFlags s s := ⟨rfl, rfl, rfl, rfl, rfl, rfl, rfl⟩
theorem sameFlags.trans {a b c : St O} (h1 : sameFlags a b) (h2 : sameFlags b c) : sameFlags a c := by
  unfold sameFlags at *; simp_all

theorem sameFlags.of_eq {s s' : St O} (h1 : s'.running = s.running) (h2 : s'.sharesTimeout = s.sharesTimeout)
    (h3 : s'.complaintsTimeout = s.complaintsTimeout) (h4 : s'.size = s.size) (h5 : s'.threshold = s.threshold)
    (h6 : s'.me = s.me) (h7 : s'.dealer = s.dealer) : sameFlags s s' := ⟨h1, h2, h3, h4, h5, h6, h7⟩

theorem buildComplaint_flags (s : St O) : sameFlags s (FvssQ.buildComplaint s).1 := by
  unfold FvssQ.buildComplaint St.setC
  repeat' (first | split | (simp only []; split))
  all_goals exact ⟨rfl, rfl, rfl, rfl, rfl, rfl, rfl⟩

theorem receiveShare_flags (s : St O) (o : Nat) (d : Bytes) : sameFlags s (FvssQ.receiveShare s o d).1 := by
  unfold FvssQ.receiveShare
  repeat' (first | split | (simp only []; split))
  all_goals first
    | exact ⟨rfl, rfl, rfl, rfl, rfl, rfl, rfl⟩
    | exact sameFlags.trans ⟨rfl, rfl, rfl, rfl, rfl, rfl, rfl⟩ (buildComplaint_flags _)

theorem receiveVerifVector_flags (s : St O) (o : Nat) (d : Bytes) :
    sameFlags s (FvssQ.receiveVerifVector s o d).1 := by
  unfold FvssQ.receiveVerifVector
  repeat' (first | split | (simp only []; split))
  all_goals first
    | exact ⟨rfl, rfl, rfl, rfl, rfl, rfl, rfl⟩
    | exact sameFlags.trans ⟨rfl, rfl, rfl, rfl, rfl, rfl, rfl⟩ (buildComplaint_flags _)

theorem buildAnswer_flags (s : St O) (k : Nat) : sameFlags s (FvssQ.buildAnswer s k).1 := by
  unfold FvssQ.buildAnswer St.setC
  repeat' (first | split | (simp only []; split))
  all_goals exact ⟨rfl, rfl, rfl, rfl, rfl, rfl, rfl⟩

theorem receiveComplaint_flags (s : St O) (o : Nat) (d : Bytes) :
    sameFlags s (FvssQ.receiveComplaint s o d).1 := by
  unfold FvssQ.receiveComplaint St.setC
  repeat' (first | split | (simp only []; split))
  all_goals first
    | exact ⟨rfl, rfl, rfl, rfl, rfl, rfl, rfl⟩
    | exact sameFlags.trans ⟨rfl, rfl, rfl, rfl, rfl, rfl, rfl⟩ (buildAnswer_flags _ _)

theorem receiveComplaintAnswer_flags (s : St O) (o : Nat) (d : Bytes) :
    sameFlags s (FvssQ.receiveComplaintAnswer s o d).1 := by
  unfold FvssQ.receiveComplaintAnswer St.setC
  repeat' (first | split | (simp only []; split))
  all_goals exact ⟨rfl, rfl, rfl, rfl, rfl, rfl, rfl⟩

theorem bcastBody_flags (s : St O) (o : Nat) (m : Bytes) : sameFlags s (FvssQ.bcastBody s o m).1 := by
  unfold FvssQ.bcastBody
  repeat' (first | split | (simp only []; split))
  all_goals first
    | exact ⟨rfl, rfl, rfl, rfl, rfl, rfl, rfl⟩
    | exact receiveVerifVector_flags s o _
    | exact receiveComplaint_flags s o _
    | exact receiveComplaintAnswer_flags s o _

theorem privBody_flags (s : St O) (o : Nat) (m : Bytes) : sameFlags s (FvssQ.privBody s o m).1 := by
  unfold FvssQ.privBody
  repeat' (first | split | (simp only []; split))
  all_goals first
    | exact ⟨rfl, rfl, rfl, rfl, rfl, rfl, rfl⟩
    | exact receiveShare_flags s o _

end Model.Dkg
