import Model.Prg
import Mathlib.Tactic.Ring
import Mathlib.Data.List.Induction
import Mathlib.Data.List.Basic
import Mathlib.Data.List.Nodup

/-! Fisher–Yates as a function of its choice vector: the inside-out loop of `Permutation` and the swap loop of
`Samples`/`Shuffle` are injective in the choices (so the `n!`, resp. `n!/(n-m)!`, choice vectors give pairwise
different outcomes). -/

namespace Proofs.FisherYates
open Model Model.Prg

/-- one step of the inside-out Fisher–Yates loop of `Permutation`: `items[i] = items[j]; items[j] = i` -/
def step (items : List Nat) (i j : Nat) : List Nat := setAt (setAt items i (items.getD j 0)) j i

/-- the loop on a vector of choices `j_i, j_{i+1}, …` -/
def run : List Nat → Nat → List Nat → List Nat
  | [], _, items => items
  | j :: js, i, items => run js (i + 1) (step items i j)

/-- state before step `i`: positions below `i` hold values below `i`, the others still hold the initial 0 -/
def Inv (n i : Nat) (a : List Nat) : Prop :=
  a.length = n ∧ (∀ k (h : k < a.length), k < i → a[k] < i) ∧ (∀ k (h : k < a.length), i ≤ k → a[k] = 0)

theorem step_length (a : List Nat) (i j : Nat) : (step a i j).length = a.length := by simp [step, setAt]

theorem step_get (a : List Nat) (i j : Nat) (hi : i < a.length) (hj : j ≤ i) (k : Nat) (hk : k < (step a i j).length) :
    (step a i j)[k] = if k = j then i else if k = i then a[j]'(by omega) else a[k]'(by simpa [step_length] using hk) := by
  have hjl : j < a.length := by omega
  unfold step setAt
  simp only [List.getD_eq_getElem?_getD, List.getElem?_eq_getElem hjl, Option.getD_some]
  rw [List.getElem_set]
  split
  · rename_i h; rw [if_pos h.symm]
  · rename_i h
    rw [if_neg (fun e => h e.symm), List.getElem_set]
    split
    · rename_i h2; rw [if_pos h2.symm]
    · rename_i h2; rw [if_neg (fun e => h2 e.symm)]

theorem step_inv (n i j : Nat) (a : List Nat) (hi : i < n) (hj : j ≤ i) (h : Inv n i a) : Inv n (i + 1) (step a i j) := by
  obtain ⟨hl, h1, h2⟩ := h
  refine ⟨by rw [step_length, hl], ?_, ?_⟩
  · intro k hk hki
    rw [step_get a i j (by omega) hj k hk]
    split
    · omega
    · split
      · have := h1 j (by omega)
        rcases Nat.lt_or_ge j i with hlt | hge
        · have := this hlt; omega
        · have : j = i := by omega
          subst this
          rename_i hne heq
          exact absurd heq hne
      · rename_i hne1 hne2
        have := h1 k (by simpa [step_length] using hk) (by omega)
        omega
  · intro k hk hki
    rw [step_get a i j (by omega) hj k hk, if_neg (by omega), if_neg (by omega)]
    exact h2 k (by simpa [step_length] using hk) (by omega)

/-- **the last step is injective**: from the result one reads off the choice (the position of the value `i`)
    and the previous state -/
theorem step_inj (n i j j' : Nat) (a a' : List Nat) (hi : i < n) (hj : j ≤ i) (hj' : j' ≤ i)
    (h : Inv n i a) (h' : Inv n i a') (he : step a i j = step a' i j') : j = j' ∧ a = a' := by
  obtain ⟨hl, h1, h2⟩ := h
  obtain ⟨hl', h1', h2'⟩ := h'
  have hlen : (step a i j).length = n := by rw [step_length, hl]
  have hlen' : (step a' i j').length = n := by rw [step_length, hl']
  -- position j' of the left-hand side holds i, so j' = j
  have key : ∀ k (hk : k < n), k ≤ i → (step a i j)[k]'(by omega) = i → k = j := by
    intro k hk hle hv
    rw [step_get a i j (by omega) hj k (by omega)] at hv
    split at hv
    · assumption
    · exfalso
      split at hv
      · rename_i hne heq
        have hjlt : j < i := by omega
        have := h1 j (by rw [hl]; omega) hjlt
        omega
      · rename_i hne hne2
        have hlt : k < i := by omega
        have := h1 k (by omega) hlt
        omega
  have hjj : j' = j := by
    apply key j' (by omega) hj'
    have : (step a i j)[j']'(by omega) = (step a' i j')[j']'(by omega) := by simp only [he]
    rw [this, step_get a' i j' (by omega) hj' j' (by omega), if_pos rfl]
  subst hjj
  refine ⟨rfl, ?_⟩
  apply List.ext_getElem (by omega)
  intro k hk hk'
  have ek : (step a i j')[k]'(by omega) = (step a' i j')[k]'(by omega) := by simp only [he]
  rw [step_get a i j' (by omega) hj k (by omega), step_get a' i j' (by omega) hj' k (by omega)] at ek
  by_cases hkj : k = j'
  · subst hkj
    by_cases hki : k = i
    · subst hki
      rw [h2 k (by omega) (le_refl _), h2' k (by omega) (le_refl _)]
    · -- a[j'] sits at position i of the result
      have ei : (step a i k)[i]'(by omega) = (step a' i k)[i]'(by omega) := by simp only [he]
      have hik : ¬ i = k := fun e => hki e.symm
      rw [step_get a i k (by omega) hj i (by omega), step_get a' i k (by omega) hj' i (by omega)] at ei
      simp only [if_neg hik, if_pos] at ei
      exact ei
  · rw [if_neg hkj, if_neg hkj] at ek
    by_cases hki : k = i
    · subst hki
      rw [h2 k (by omega) (le_refl _), h2' k (by omega) (le_refl _)]
    · rw [if_neg hki, if_neg hki] at ek
      exact ek

theorem run_append (js : List Nat) (j i : Nat) (a : List Nat) :
    run (js ++ [j]) i a = step (run js i a) (i + js.length) j := by
  induction js generalizing i a with
  | nil => simp [run]
  | cons x xs ih =>
    simp only [List.cons_append, run, List.length_cons]
    rw [ih]
    congr 1; omega

/-- a vector of choices is valid from step `i` when `j_k ≤ k` for each step `k` -/
def Valid : List Nat → Nat → Prop
  | [], _ => True
  | j :: js, i => j ≤ i ∧ Valid js (i + 1)

theorem valid_append (js : List Nat) (j i : Nat) : Valid (js ++ [j]) i ↔ Valid js i ∧ j ≤ i + js.length := by
  induction js generalizing i with
  | nil => simp [Valid]
  | cons x xs ih =>
    simp only [List.cons_append, Valid, List.length_cons, ih]
    constructor
    · rintro ⟨a, b, c⟩; exact ⟨⟨a, b⟩, by omega⟩
    · rintro ⟨⟨a, b⟩, c⟩; exact ⟨a, b, by omega⟩

theorem run_inv (n : Nat) (js : List Nat) (i : Nat) (a : List Nat) (hv : Valid js i) (hn : i + js.length ≤ n)
    (h : Inv n i a) : Inv n (i + js.length) (run js i a) := by
  induction js generalizing i a with
  | nil => simpa [run] using h
  | cons j js ih =>
    simp only [run, List.length_cons]
    have := ih (i + 1) (step a i j) hv.2 (by simp at hn; omega) (step_inv n i j a (by simp at hn; omega) hv.1 h)
    rw [show i + (js.length + 1) = i + 1 + js.length by omega]
    exact this

/-- **inside-out Fisher–Yates is injective in its choices**: two valid choice vectors of the same length, run
    from states satisfying the loop invariant, give the same result only if they are equal (and so were the
    states) -/
theorem run_inj (n : Nat) : ∀ (js js' : List Nat) (i : Nat) (a a' : List Nat), js.length = js'.length →
    Valid js i → Valid js' i → i + js.length ≤ n → Inv n i a → Inv n i a' →
    run js i a = run js' i a' → js = js' ∧ a = a' := by
  intro js
  induction js using List.reverseRecOn with
  | nil =>
    intro js' i a a' hl _ _ _ _ _ he
    have : js' = [] := List.length_eq_zero_iff.1 hl.symm
    subst this
    exact ⟨rfl, by simpa [run] using he⟩
  | append_singleton js j ih =>
    intro js' i a a' hl hv hv' hn hI hI' he
    rcases List.eq_nil_or_concat' js' with h0 | ⟨js2, j2, rfl⟩
    · subst h0; simp at hl
    · have hl2 : js.length = js2.length := by simpa using hl
      rw [valid_append] at hv hv'
      rw [run_append, run_append, ← hl2] at he
      have hn' : i + js.length < n := by simp at hn; omega
      have I1 := run_inv n js i a hv.1 (by omega) hI
      have I2 := run_inv n js2 i a' hv'.1 (by omega) hI'
      rw [← hl2] at I2
      obtain ⟨ej, er⟩ := step_inj n (i + js.length) j j2 _ _ hn' hv.2 (by rw [hl2]; exact hv'.2) I1 I2 he
      obtain ⟨e1, e2⟩ := ih js2 i a a' hl2 hv.1 hv'.1 (by omega) hI hI' er
      exact ⟨by rw [e1, ej], e2⟩

theorem inv_init (n : Nat) : Inv n 0 (List.replicate n 0) := by
  refine ⟨by simp, ?_, ?_⟩
  · intro k _ hk; omega
  · intro k hk _; simp

/-! ### `Samples` / `Shuffle`: the arrangement produced by the swaps `(i, i + j_i)` determines the choices -/

/-- what the caller's `swap(i, j)` does to an array -/
def swap (l : List Nat) (i j : Nat) : List Nat := (l.set i (l.getD j 0)).set j (l.getD i 0)

/-- the swaps `(i, i + j_i), (i+1, i+1 + j_{i+1}), …` applied in order -/
def swaps : List Nat → Nat → List Nat → List Nat
  | [], _, l => l
  | j :: js, i, l => swaps js (i + 1) (swap l i (i + j))

theorem swap_length (l : List Nat) (i j : Nat) : (swap l i j).length = l.length := by simp [swap]

theorem swap_get (l : List Nat) (i j : Nat) (hi : i < l.length) (hj : j < l.length) (k : Nat) (hk : k < (swap l i j).length) :
    (swap l i j)[k] = if k = j then l[i] else if k = i then l[j] else l[k]'(by simpa [swap_length] using hk) := by
  unfold swap
  simp only [List.getD_eq_getElem?_getD, List.getElem?_eq_getElem hi, List.getElem?_eq_getElem hj, Option.getD_some]
  rw [List.getElem_set]
  split
  · rename_i h; rw [if_pos h.symm]
  · rename_i h
    rw [if_neg (fun e => h e.symm), List.getElem_set]
    split
    · rename_i h2; rw [if_pos h2.symm]
    · rename_i h2; rw [if_neg (fun e => h2 e.symm)]

theorem swap_get_i (l : List Nat) (i j : Nat) (hi : i < l.length) (hj : i + j < l.length) :
    (swap l i (i + j))[i]'(by rw [swap_length]; exact hi) = l[i + j] := by
  rw [swap_get l i (i + j) hi hj i]
  by_cases h0 : j = 0
  · subst h0; simp
  · rw [if_neg (by omega), if_pos rfl]

/-- choices valid for `Samples(n, ·)` from step `i`: `i + j_i < n` -/
def SValid (n : Nat) : List Nat → Nat → Prop
  | [], _ => True
  | j :: js, i => i + j < n ∧ SValid n js (i + 1)

theorem swaps_length (n : Nat) (js : List Nat) (i : Nat) (l : List Nat) : (swaps js i l).length = l.length := by
  induction js generalizing i l with
  | nil => rfl
  | cons j js ih => simp only [swaps]; rw [ih, swap_length]

/-- later swaps never touch a position below their starting index -/
theorem swaps_get_lt (n : Nat) (js : List Nat) (i : Nat) (l : List Nat) (hl : l.length = n) (hv : SValid n js i)
    (k : Nat) (hk : k < i) (hkl : k < (swaps js i l).length) :
    (swaps js i l)[k] = l[k]'(by rw [swaps_length n] at hkl; exact hkl) := by
  induction js generalizing i l with
  | nil => rfl
  | cons j js ih =>
    simp only [swaps]
    have hsl : (swap l i (i + j)).length = n := by rw [swap_length, hl]
    rw [ih (i + 1) (swap l i (i + j)) hsl hv.2 (by omega)]
    rw [swap_get l i (i + j) (by have := hv.1; omega) (by have := hv.1; omega) k, if_neg (by omega), if_neg (by omega)]

/-- the index permutation of a swap -/
def sidx (i j k : Nat) : Nat := if k = j then i else if k = i then j else k

theorem sidx_lt (i j k n : Nat) (hi : i < n) (hj : j < n) (hk : k < n) : sidx i j k < n := by
  unfold sidx; split
  · exact hi
  · split
    · exact hj
    · exact hk

theorem swap_get' (l : List Nat) (i j : Nat) (hi : i < l.length) (hj : j < l.length) (k : Nat) (hk : k < (swap l i j).length) :
    (swap l i j)[k] = l[sidx i j k]'(sidx_lt i j k _ hi hj (by simpa [swap_length] using hk)) := by
  rw [swap_get l i j hi hj k hk]
  unfold sidx
  split
  · rfl
  · split
    · rfl
    · rfl

theorem swap_nodup (l : List Nat) (i j : Nat) (hi : i < l.length) (hj : j < l.length) (hn : l.Nodup) :
    (swap l i j).Nodup := by
  rw [List.nodup_iff_injective_getElem]
  intro ⟨x, hx⟩ ⟨y, hy⟩ hxy
  simp only at hxy
  rw [swap_get' l i j hi hj x hx, swap_get' l i j hi hj y hy] at hxy
  have := (hn.getElem_inj_iff).1 hxy
  apply Fin.ext
  simp only
  unfold sidx at this
  split at this <;> split at this <;> (try split at this) <;> (try split at this) <;> omega

/-- **the arrangement determines the choices**: applying two valid choice vectors of the same length to the same
    array of distinct elements gives arrays that agree on the sampled positions only if the choices are equal -/
theorem swaps_inj (n : Nat) : ∀ (js js' : List Nat) (i : Nat) (l : List Nat), js.length = js'.length →
    l.length = n → l.Nodup → SValid n js i → SValid n js' i →
    (∀ k (h1 : k < (swaps js i l).length) (h2 : k < (swaps js' i l).length), i ≤ k → k < i + js.length →
      (swaps js i l)[k] = (swaps js' i l)[k]) → js = js' := by
  intro js
  induction js with
  | nil =>
    intro js' i l hl _ _ _ _ _
    exact (List.length_eq_zero_iff.1 hl.symm).symm
  | cons j js ih =>
    intro js' i l hlen hl hn hv hv' he
    cases js' with
    | nil => simp at hlen
    | cons j' js' =>
      have hlen2 : js.length = js'.length := by simpa using hlen
      have hij := hv.1
      have hij' := hv'.1
      -- position i is fixed after the first swap
      have e0 := he i (by rw [swaps_length n, hl]; omega) (by rw [swaps_length n, hl]; omega) (le_refl _) (by simp)
      simp only [swaps] at e0
      have hs1 : (swap l i (i + j)).length = n := by rw [swap_length, hl]
      have hs2 : (swap l i (i + j')).length = n := by rw [swap_length, hl]
      rw [swaps_get_lt n js (i + 1) _ hs1 hv.2 i (by omega), swaps_get_lt n js' (i + 1) _ hs2 hv'.2 i (by omega)] at e0
      rw [swap_get_i l i j (by omega) (by omega), swap_get_i l i j' (by omega) (by omega)] at e0
      have hjj : j = j' := by
        have := (hn.getElem_inj_iff).1 e0
        omega
      subst hjj
      congr 1
      apply ih js' (i + 1) (swap l i (i + j)) hlen2 hs1 (swap_nodup l i (i + j) (by omega) (by omega) hn) hv.2 hv'.2
      intro k h1 h2 hk1 hk2
      have := he k (by simpa [swaps] using h1) (by simpa [swaps] using h2) (by omega) (by simp; omega)
      simpa [swaps] using this


end Proofs.FisherYates
