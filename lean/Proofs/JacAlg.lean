import Mathlib.Tactic.FieldSimp
import Mathlib.Tactic.Ring
import Mathlib.Tactic.LinearCombination
import Mathlib.Algebra.Field.Basic

/-! Field identities behind the Jacobian formulas of `Model.Curve` (add-2007-bl / dbl-2007-bl shapes). -/

namespace Proofs.JacAlg

variable {F : Type} [Field F]

/-- the affine chord slope in Jacobian terms -/
theorem add_slope (X1 Y1 Z1 X2 Y2 Z2 H : F) (h1 : Z1 ≠ 0) (h2 : Z2 ≠ 0) (hHd : H = X2 * Z1 ^ 2 - X1 * Z2 ^ 2)
    (hH : H ≠ 0) :
    (Y2 / Z2 ^ 3 - Y1 / Z1 ^ 3) / (X2 / Z2 ^ 2 - X1 / Z1 ^ 2) = (Y2 * Z1 ^ 3 - Y1 * Z2 ^ 3) / (Z1 * Z2 * H) := by
  have hd : X2 / Z2 ^ 2 - X1 / Z1 ^ 2 = H / (Z1 ^ 2 * Z2 ^ 2) := by
    rw [hHd]; field_simp
  rw [hd, div_div_eq_mul_div, div_eq_div_iff hH (mul_ne_zero (mul_ne_zero h1 h2) hH)]
  field_simp

/-- generic addition, x-coordinate -/
theorem add_x (X1 Y1 Z1 X2 Y2 Z2 H : F) (h1 : Z1 ≠ 0) (h2 : Z2 ≠ 0) (hHd : H = X2 * Z1 ^ 2 - X1 * Z2 ^ 2)
    (hH : H ≠ 0) :
    ((Y2 * Z1 ^ 3 - Y1 * Z2 ^ 3) ^ 2 - H ^ 3 - 2 * (X1 * Z2 ^ 2) * H ^ 2) / (Z1 * Z2 * H) ^ 2 =
      ((Y2 / Z2 ^ 3 - Y1 / Z1 ^ 3) / (X2 / Z2 ^ 2 - X1 / Z1 ^ 2)) ^ 2 - X1 / Z1 ^ 2 - X2 / Z2 ^ 2 := by
  rw [add_slope X1 Y1 Z1 X2 Y2 Z2 H h1 h2 hHd hH]
  field_simp
  rw [hHd]
  ring

/-- generic addition, y-coordinate (`x3` is the affine x-coordinate of the sum) -/
theorem add_y (X1 Y1 Z1 X2 Y2 Z2 H X3 : F) (h1 : Z1 ≠ 0) (h2 : Z2 ≠ 0) (hHd : H = X2 * Z1 ^ 2 - X1 * Z2 ^ 2)
    (hH : H ≠ 0) :
    ((Y2 * Z1 ^ 3 - Y1 * Z2 ^ 3) * (X1 * Z2 ^ 2 * H ^ 2 - X3) - Y1 * Z2 ^ 3 * H ^ 3) / (Z1 * Z2 * H) ^ 3 =
      (Y2 / Z2 ^ 3 - Y1 / Z1 ^ 3) / (X2 / Z2 ^ 2 - X1 / Z1 ^ 2) * (X1 / Z1 ^ 2 - X3 / (Z1 * Z2 * H) ^ 2) - Y1 / Z1 ^ 3 := by
  rw [add_slope X1 Y1 Z1 X2 Y2 Z2 H h1 h2 hHd hH]
  field_simp

/-- doubling: slope -/
theorem dbl_slope (X Y Z a : F) (hz : Z ≠ 0) (hy : Y ≠ 0) (h2 : (2 : F) ≠ 0) :
    (3 * (X / Z ^ 2) ^ 2 + a) / (Y / Z ^ 3 + Y / Z ^ 3) = (3 * X ^ 2 + a * Z ^ 4) / (2 * Y * Z) := by
  have : Y / Z ^ 3 + Y / Z ^ 3 = 2 * Y / Z ^ 3 := by ring
  rw [this, div_eq_div_iff (div_ne_zero (mul_ne_zero h2 hy) (pow_ne_zero _ hz)) (mul_ne_zero (mul_ne_zero h2 hy) hz)]
  field_simp

theorem dbl_x (X Y Z a : F) (hz : Z ≠ 0) (hy : Y ≠ 0) (h2 : (2 : F) ≠ 0) :
    ((3 * X ^ 2 + a * Z ^ 4) ^ 2 - 2 * (4 * X * Y ^ 2)) / (2 * Y * Z) ^ 2 =
      ((3 * (X / Z ^ 2) ^ 2 + a) / (Y / Z ^ 3 + Y / Z ^ 3)) ^ 2 - X / Z ^ 2 - X / Z ^ 2 := by
  rw [dbl_slope X Y Z a hz hy h2]
  field_simp
  ring

theorem dbl_y (X Y Z a X3 : F) (hz : Z ≠ 0) (hy : Y ≠ 0) (h2 : (2 : F) ≠ 0) :
    ((3 * X ^ 2 + a * Z ^ 4) * (4 * X * Y ^ 2 - X3) - 8 * Y ^ 4) / (2 * Y * Z) ^ 3 =
      (3 * (X / Z ^ 2) ^ 2 + a) / (Y / Z ^ 3 + Y / Z ^ 3) * (X / Z ^ 2 - X3 / (2 * Y * Z) ^ 2) - Y / Z ^ 3 := by
  rw [dbl_slope X Y Z a hz hy h2]
  field_simp
  ring

end Proofs.JacAlg
