import Proofs.DkgOnce

/-! The dealer's own instance (inside Joint-Feldman every participant is the dealer of one instance), and the
lifting of the order-independence theorems to Joint-Feldman: `n` parallel Feldman-VSS-Qual instances. -/

namespace Proofs.DkgCommute
open Model Model.Dkg
variable {O : Ops}

/-! ### the dealer's own instance: only complaints of the others matter -/

/-- what a well-formed complaint of `o` does at the dealer: register it, mark it answered (the answer is broadcast) -/
def dU (fc : Option Complaint) : Upd :=
  match fc with
  | none => { entry := some { received := true, answerReceived := true } }
  | some c => if c.received then {} else { entry := some (recv c) }

def dealerUB (s : St O) (o : Nat) (m : Bytes) : Upd :=
  if s.me = o then {}
  else if m.length = 0 then {}
  else if m.headD 0 = tagComplaint then
    (if s.complaintsTimeout then {}
     else match parseC s (m.drop 1) with
       | none => {}
       | some ce => if o = s.dealer then {} else if ce ≠ s.dealer then {} else dU (s.find o))
  else {}

/-- the update a delivery amounts to at the dealer -/
def dealerU (s : St O) : Dl → Upd
  | .priv _ _ => {}
  | .bcast o m => dealerUB s o m

theorem dealer_step (s : St O) (hd : s.me = s.dealer) (hdq : s.disqualified = false) (e : Dl) :
    step s e = applyUpd s e.sender (dealerU s e) := by
  cases e with
  | priv o m =>
    show (FvssQ.privBody s o m).1 = applyUpd s o {}
    unfold FvssQ.privBody
    by_cases ho : s.me = o
    · rw [if_pos ho]; rfl
    · rw [if_neg ho, if_neg (by simp [hdq])]
      unfold FvssQ.receiveShare
      rw [if_pos (by rw [← hd]; exact fun h => ho h.symm)]; rfl
  | bcast o m =>
    show (FvssQ.bcastBody s o m).1 = applyUpd s o (dealerUB s o m)
    unfold FvssQ.bcastBody dealerUB
    by_cases ho : s.me = o
    · rw [if_pos ho, if_pos ho]; rfl
    · have hod : o ≠ s.dealer := by rw [← hd]; exact fun h => ho h.symm
      rw [if_neg ho, if_neg ho, if_neg (by simp [hdq])]
      simp only []
      by_cases hl : m.length = 0
      · rw [if_pos hl, if_pos hl, if_neg hod]; rfl
      · rw [if_neg hl, if_neg hl]
        by_cases h1 : m.headD 0 = tagVerifVec
        · have : m.headD 0 ≠ tagComplaint := by rw [h1]; decide
          rw [if_pos h1, if_neg this]
          unfold FvssQ.receiveVerifVector
          rw [if_pos hod]; rfl
        · rw [if_neg h1]
          by_cases h2 : m.headD 0 = tagComplaint
          · rw [if_pos h2, if_pos h2]
            unfold FvssQ.receiveComplaint parseC
            by_cases hct : s.complaintsTimeout = true
            · rw [if_pos hct, if_pos hct]; rfl
            · rw [if_neg hct, if_neg hct]
              by_cases h3 : (m.drop 1).length ≠ 1
              · rw [if_pos h3, if_pos h3, if_neg hod]; rfl
              · rw [if_neg h3, if_neg h3]
                simp only []
                by_cases h4 : ((m.drop 1).headD 0).toNat ≥ s.size
                · rw [if_pos h4, if_pos h4, if_neg hod]; rfl
                · rw [if_neg h4, if_neg h4]
                  simp only []
                  rw [if_neg hod, if_neg hod]
                  by_cases h5 : ((m.drop 1).headD 0).toNat ≠ s.dealer
                  · rw [if_pos h5, if_pos h5]; rfl
                  · rw [if_neg h5, if_neg h5]
                    unfold dU
                    cases hf : s.find o with
                    | none =>
                      simp only []
                      have hmd : (s.setC o { received := true, answerReceived := false }).me =
                          (s.setC o { received := true, answerReceived := false }).dealer := hd
                      rw [if_pos hmd]
                      unfold FvssQ.buildAnswer
                      simp only [find_setC_same]
                      show (s.setC o { received := true, answerReceived := false }).setC o _ = _
                      rw [setC_setC]; rfl
                    | some c =>
                      simp only []
                      by_cases hr : c.received = true
                      · rw [if_pos hr, if_pos hr]; rfl
                      · rw [if_neg hr, if_neg hr]
                        have : ¬ ((s.setC o { c with received := true }).vAReceived = true ∧
                            ({ c with received := true } : Complaint).answerReceived = true ∧
                            (s.setC o { c with received := true }).me ≠ (s.setC o { c with received := true }).dealer) :=
                          fun h => h.2.2 hd
                        rw [if_neg this]; rfl
          · rw [if_neg h2, if_neg h2]
            by_cases h3 : m.headD 0 = tagAnswer
            · rw [if_pos h3]
              unfold FvssQ.receiveComplaintAnswer
              rw [if_pos hod]; rfl
            · rw [if_neg h3, if_neg hod]; rfl


theorem dealerU_plain (s : St O) (e : Dl) : (dealerU s e).disq = none ∧ (dealerU s e).x = none := by
  cases e with
  | priv o m => exact ⟨rfl, rfl⟩
  | bcast o m =>
    show (dealerUB s o m).disq = none ∧ (dealerUB s o m).x = none
    unfold dealerUB dU
    repeat' (first | split | (simp only []; split))
    all_goals exact ⟨rfl, rfl⟩

theorem dealerU_priv (s : St O) (e : Dl) (h : e.isPriv = true) : dealerU s e = {} := by
  cases e with
  | priv o m => rfl
  | bcast o m => cases h

theorem dealerU_stable (s : St O) (K : Nat) (u : Upd) (e : Dl) (h : e.sender ≠ K ∨ u.entry = none) :
    dealerU (applyUpd s K u) e = dealerU s e := by
  cases e with
  | priv o m => rfl
  | bcast o m =>
    show dealerUB (applyUpd s K u) o m = dealerUB s o m
    unfold dealerUB parseC
    have a := applyUpd_vA s K u
    have r := applyUpd_rest s K u
    rw [a.2.2.1, a.2.2.2.1, r.1, r.2.2.2.2.2.2, find_applyUpd_stable s o K u h]

theorem dealer_cfg (s : St O) (K : Nat) (u : Upd) (hd : s.me = s.dealer) : (applyUpd s K u).me = (applyUpd s K u).dealer := by
  have a := applyUpd_vA s K u
  rw [a.2.2.1, a.2.2.2.1]; exact hd

/-- **at the dealer, any two reorderable deliveries commute** -/
theorem dealer_pair (s : St O) (hd : s.me = s.dealer) (e1 e2 : Dl) (hr : reorderable e1 e2) :
    RelP (step (step s e1) e2) (step (step s e2) e1) := by
  by_cases hdq : s.disqualified = true
  · have hne : ∀ e, step s e = s := by
      intro e
      cases e with
      | bcast o m =>
        show (FvssQ.bcastBody s o m).1 = s
        unfold FvssQ.bcastBody
        by_cases ho : s.me = o
        · rw [if_pos ho]
        · rw [if_neg ho, if_pos hdq]
      | priv o m =>
        show (FvssQ.privBody s o m).1 = s
        unfold FvssQ.privBody
        by_cases ho : s.me = o
        · rw [if_pos ho]
        · rw [if_neg ho, if_pos hdq]
    rw [hne e1, hne e2, hne e1]
    exact Or.inr (Equiv.refl' _)
  have hdq' : s.disqualified = false := by simpa using hdq
  have p1 := dealerU_plain s e1
  have p2 := dealerU_plain s e2
  have d1 : (applyUpd s e1.sender (dealerU s e1)).disqualified = false := by rw [applyUpd_disq, p1.1]; exact hdq'
  have d2 : (applyUpd s e2.sender (dealerU s e2)).disqualified = false := by rw [applyUpd_disq, p2.1]; exact hdq'
  -- descriptors are stable under the other delivery
  have hstab : dealerU (applyUpd s e1.sender (dealerU s e1)) e2 = dealerU s e2 ∧
      dealerU (applyUpd s e2.sender (dealerU s e2)) e1 = dealerU s e1 ∧
      (e2.sender ≠ e1.sender ∨ (dealerU s e1).entry = none ∨ (dealerU s e2).entry = none) := by
    rcases hr with h | h
    · exact ⟨dealerU_stable s _ _ e2 (Or.inl (fun e => h e.symm)), dealerU_stable s _ _ e1 (Or.inl h),
        Or.inl (fun e => h e.symm)⟩
    · cases h1 : e1.isPriv with
      | true =>
        have u1 : ∀ t : St O, dealerU t e1 = {} := fun t => dealerU_priv t e1 h1
        rw [u1 s, applyUpd_empty]
        exact ⟨rfl, by rw [u1], Or.inr (Or.inl rfl)⟩
      | false =>
        cases h2 : e2.isPriv with
        | true =>
          have u2 : ∀ t : St O, dealerU t e2 = {} := fun t => dealerU_priv t e2 h2
          rw [u2 s, applyUpd_empty]
          exact ⟨by rw [u2], rfl, Or.inr (Or.inr rfl)⟩
        | false => exact absurd (h1.trans h2.symm) h
  rw [dealer_step s hd hdq' e1, dealer_step s hd hdq' e2,
    dealer_step _ (dealer_cfg s _ _ hd) d1 e2, dealer_step _ (dealer_cfg s _ _ hd) d2 e1, hstab.1, hstab.2.1]
  exact Or.inr (applyUpd_comm s e2.sender e1.sender (dealerU s e1) (dealerU s e2) hstab.2.2 (Or.inl p1.2)
    (by intro b1 b2 h1 _; rw [p1.1] at h1; cases h1))


/-! ### both roles at once -/

/-- invariants of one instance at a participant: a receiver's instance, or the participant's own dealing -/
def InvAny (s : St O) : Prop := Inv s ∨ (s.me = s.dealer ∧ KeysNodup s)

theorem InvAny.nodup {s : St O} (h : InvAny s) : KeysNodup s := by
  rcases h with h | h
  · exact h.nodup
  · exact h.2

theorem step_disq' (s : St O) (e : Dl) (h : s.disqualified = true) : step s e = s := by
  cases e with
  | bcast o m =>
    show (FvssQ.bcastBody s o m).1 = s
    unfold FvssQ.bcastBody
    by_cases ho : s.me = o
    · rw [if_pos ho]
    · rw [if_neg ho, if_pos h]
  | priv o m =>
    show (FvssQ.privBody s o m).1 = s
    unfold FvssQ.privBody
    by_cases ho : s.me = o
    · rw [if_pos ho]
    · rw [if_neg ho, if_pos h]

theorem pair_any (s : St O) (inv : InvAny s) (e1 e2 : Dl) (hr : reorderable e1 e2) :
    RelP (step (step s e1) e2) (step (step s e2) e1) := by
  rcases inv with h | h
  · exact step_pair s h e1 e2 hr
  · exact dealer_pair s h.1 e1 e2 hr

theorem inv_any_step (s : St O) (inv : InvAny s) (e : Dl) : InvAny (step s e) := by
  rcases inv with h | h
  · exact Or.inl (inv_step s h e)
  · right
    by_cases hd : s.disqualified = true
    · rw [step_disq' s e hd]; exact h
    · have hd' : s.disqualified = false := by simpa using hd
      rw [dealer_step s h.1 hd' e]
      exact ⟨dealer_cfg s _ _ h.1, keys_applyUpd s _ _ h.2⟩

theorem dealerU_equiv {a b : St O} (h : Equiv a b) (hn : KeysNodup a) (e : Dl) : dealerU a e = dealerU b e := by
  cases e with
  | priv o m => rfl
  | bcast o m =>
    show dealerUB a o m = dealerUB b o m
    unfold dealerUB parseC
    rw [h.2.2.1, h.2.2.2.2.2.2.2.2.2.2.2.2.2.2, h.1, h.2.2.2.1, h.find hn o]

theorem relP_any_step {a b : St O} (h : RelP a b) (ia : InvAny a) (ib : InvAny b) (e : Dl) :
    RelP (step a e) (step b e) := by
  rcases h with h | h
  · rw [step_disq' a e h.1, step_disq' b e h.2]; exact Or.inl h
  · rcases ia with ia | ia
    · rcases ib with ib | ib
      · exact relP_step (Or.inr h) ia ib e
      · exact absurd (by rw [h.2.2.1, h.2.2.2.1]; exact ib.1) ia.hme
    · rcases ib with ib | ib
      · exact absurd (by rw [← h.2.2.1, ← h.2.2.2.1]; exact ia.1) ib.hme
      · by_cases hd : a.disqualified = true
        · have hd' : b.disqualified = true := by rw [← h.2.2.2.2.2.2.2.2.2.2.2.2.1]; exact hd
          rw [step_disq' a e hd, step_disq' b e hd']; exact Or.inr h
        · have hda : a.disqualified = false := by simpa using hd
          have hdb : b.disqualified = false := by rw [← h.2.2.2.2.2.2.2.2.2.2.2.2.1]; exact hda
          rw [dealer_step a ia.1 hda e, dealer_step b ib.1 hdb e, dealerU_equiv h ia.2 e]
          exact Or.inr (equiv_applyUpd h _ _)

theorem inv_any_runList (s : St O) (inv : InvAny s) (l : List Dl) : InvAny (runList s l) := by
  unfold runList
  induction l generalizing s with
  | nil => exact inv
  | cons e t ih => exact ih (step s e) (inv_any_step s inv e)

theorem relP_any_runList {a b : St O} (h : RelP a b) (ia : InvAny a) (ib : InvAny b) (l : List Dl) :
    RelP (runList a l) (runList b l) := by
  unfold runList
  induction l generalizing a b with
  | nil => exact h
  | cons e t ih => exact ih (relP_any_step h ia ib e) (inv_any_step a ia e) (inv_any_step b ib e)

theorem round_independent_any (s : St O) (inv : InvAny s) (l1 l2 : List Dl) (h : Swaps l1 l2) :
    RelP (runList s l1) (runList s l2) := by
  induction h with
  | refl l => exact Or.inr (Equiv.refl' _)
  | swap p q e1 e2 hr =>
    unfold runList
    rw [List.foldl_append, List.foldl_append]
    simp only [List.foldl_cons]
    have ip := inv_any_runList s inv p
    unfold runList at ip
    have key := pair_any (p.foldl step s) ip e1 e2 hr
    exact relP_any_runList key (inv_any_step _ (inv_any_step _ ip e1) e2) (inv_any_step _ (inv_any_step _ ip e2) e1) q
  | trans _ _ ih1 ih2 => exact ih1.trans' ih2

theorem inv_any_tstep (s : St O) (inv : InvAny s) : InvAny (tstep s) := by
  rcases inv with h | h
  · exact Or.inl (inv_tstep s h)
  · right
    rw [tstep_eq]
    repeat' (first | split | (simp only []; split))
    all_goals first
      | exact h
      | (rw [bc_upd]; exact ⟨dealer_cfg (stFlag s) _ _ h.1, keys_applyUpd (stFlag s) _ _ h.2⟩)

/-- one instance through the three rounds: the state before `End` -/
def runRounds (s : St O) (r1 r2 r3 : List Dl) : St O :=
  runList (tstep (runList (tstep (runList s r1)) r2)) r3

theorem runRounds_independent (s : St O) (inv : InvAny s) (r1 r1' r2 r2' r3 r3' : List Dl)
    (h1 : ∀ c, stream r1 c = stream r1' c) (h2 : ∀ c, stream r2 c = stream r2' c)
    (h3 : ∀ c, stream r3 c = stream r3' c) : RelP (runRounds s r1 r2 r3) (runRounds s r1' r2' r3') := by
  unfold runRounds
  have a1 := round_independent_any s inv r1 r1' (swaps_of_streams r1 r1' h1)
  have i1 := inv_any_runList s inv r1
  have i1' := inv_any_runList s inv r1'
  have b1 := relP_tstep a1 i1.nodup
  have j1 := inv_any_tstep _ i1
  have j1' := inv_any_tstep _ i1'
  have a2 : RelP (runList (tstep (runList s r1)) r2) (runList (tstep (runList s r1')) r2') :=
    (relP_any_runList b1 j1 j1' r2).trans' (round_independent_any _ j1' r2 r2' (swaps_of_streams r2 r2' h2))
  have i2 := inv_any_runList _ j1 r2
  have i2' := inv_any_runList _ j1' r2'
  have b2 := relP_tstep a2 i2.nodup
  have j2 := inv_any_tstep _ i2
  have j2' := inv_any_tstep _ i2'
  exact (relP_any_runList b2 j2 j2' r3).trans' (round_independent_any _ j2' r3 r3' (swaps_of_streams r3 r3' h3))


/-! ### Joint-Feldman: `n` instances in parallel -/

/-- what `JointFeldman.End` computes from the settled instances -/
def jres (size threshold : Nat) (L : List (St O)) : Res :=
  let fv := L.map (fun s => (FvssQ.settle s).1)
  let disq := (fv.filter (·.disqualified)).length
  if disq > threshold ∨ size - disq ≤ threshold then .failure
  else
    let qual := fv.filter (fun s => !s.disqualified)
    let x := qual.foldl (fun acc s => O.addScalar acc s.x) 0
    match O.sumVecs (qual.filterMap (·.vA)) with
    | none => .failure
    | some v => if x = 0 then .failure else if O.groupKeyIsIdentity v then .failure
                else .keys x (O.groupKey v) (O.pubShares v)

/-- what `End` needs from an instance: the verdict and, if qualified, the share and the vector -/
def view (s : St O) : Bool × Nat × Option O.Vec :=
  let t := (FvssQ.settle s).1
  (t.disqualified, if t.disqualified then 0 else t.x, if t.disqualified then none else t.vA)

theorem settle_eq (s : St O) : (FvssQ.settle s).1 =
    if !s.disqualified ∧ s.complaints.any (fun kc => kc.2.received && !kc.2.answerReceived) then setDisq s true else s := by
  unfold FvssQ.settle
  split <;> rfl

theorem view_relP {a b : St O} (h : RelP a b) : view a = view b := by
  unfold view
  rw [settle_eq, settle_eq]
  rcases h with h | h
  · simp [h.1, h.2]
  · obtain ⟨_, _, _, _, _, _, g7, _, g9, _, _, g12, g13, _, _⟩ := h
    rw [g13, List.Perm.any_eq g12]
    by_cases hc : (!b.disqualified) = true ∧ (b.complaints.any fun kc => kc.2.received && !kc.2.answerReceived) = true
    · rw [if_pos hc, if_pos hc]; rfl
    · rw [if_neg hc, if_neg hc]
      simp only [g13, g9, g7]

theorem cnt_view (M : List (St O)) :
    ((M.map (fun s => (FvssQ.settle s).1)).filter (·.disqualified)).length = ((M.map view).filter (·.1)).length := by
  induction M with
  | nil => rfl
  | cons s t ih =>
    simp only [List.map_cons, List.filter_cons]
    have : (view s).1 = (FvssQ.settle s).1.disqualified := rfl
    rw [this]
    split
    · simp only [List.length_cons, ih]
    · exact ih

theorem fold_view (M : List (St O)) (acc : Nat) :
    ((M.map (fun s => (FvssQ.settle s).1)).filter (fun s => !s.disqualified)).foldl (fun acc s => O.addScalar acc s.x) acc =
      ((M.map view).filter (fun v => !v.1)).foldl (fun acc v => O.addScalar acc v.2.1) acc := by
  induction M generalizing acc with
  | nil => rfl
  | cons s t ih =>
    simp only [List.map_cons, List.filter_cons]
    by_cases hd : (FvssQ.settle s).1.disqualified = true
    · have : (view s).1 = true := hd
      simp only [hd, this, Bool.not_true, Bool.false_eq_true, if_false]
      exact ih acc
    · have hd' : (FvssQ.settle s).1.disqualified = false := by simpa using hd
      have h1 : (view s).1 = false := hd'
      have h2 : (view s).2.1 = (FvssQ.settle s).1.x := by unfold view; simp only [hd', Bool.false_eq_true, if_false]
      simp only [hd', h1, Bool.not_false, if_true, List.foldl_cons, h2]
      exact ih _

theorem vecs_view (M : List (St O)) :
    ((M.map (fun s => (FvssQ.settle s).1)).filter (fun s => !s.disqualified)).filterMap (·.vA) =
      ((M.map view).filter (fun v => !v.1)).filterMap (·.2.2) := by
  induction M with
  | nil => rfl
  | cons s t ih =>
    simp only [List.map_cons, List.filter_cons]
    by_cases hd : (FvssQ.settle s).1.disqualified = true
    · have : (view s).1 = true := hd
      simp only [hd, this, Bool.not_true, Bool.false_eq_true, if_false]
      exact ih
    · have hd' : (FvssQ.settle s).1.disqualified = false := by simpa using hd
      have h1 : (view s).1 = false := hd'
      have h2 : (view s).2.2 = (FvssQ.settle s).1.vA := by unfold view; simp only [hd', Bool.false_eq_true, if_false]
      simp only [hd', h1, Bool.not_false, if_true, List.filterMap_cons, h2, ih]

theorem jres_view (size threshold : Nat) (L L' : List (St O)) (h : L.map view = L'.map view) :
    jres size threshold L = jres size threshold L' := by
  unfold jres
  simp only []
  rw [cnt_view L, cnt_view L', fold_view L 0, fold_view L' 0, vecs_view L, vecs_view L', h]


/-- **Joint-Feldman: the result of `End` does not depend on the delivery order within the rounds**: every
    instance (the participant's own dealing and the `n-1` dealings it receives) sees the same deliveries; any two
    orders with the same stream per sender and channel give the same verdict, group key, key shares and private
    share -/
theorem joint_order_independent (size threshold : Nat) (L : List (St O)) (hinv : ∀ s ∈ L, InvAny s)
    (r1 r1' r2 r2' r3 r3' : List Dl) (h1 : ∀ c, stream r1 c = stream r1' c) (h2 : ∀ c, stream r2 c = stream r2' c)
    (h3 : ∀ c, stream r3 c = stream r3' c) :
    jres size threshold (L.map (fun s => runRounds s r1 r2 r3)) =
      jres size threshold (L.map (fun s => runRounds s r1' r2' r3')) := by
  apply jres_view
  rw [List.map_map, List.map_map]
  apply List.map_congr_left
  intro s hs
  exact view_relP (runRounds_independent s (hinv s hs) r1 r1' r2 r2' r3 r3' h1 h2 h3)

/-! ### tie to the Joint-Feldman model -/

theorem forAll_map (f : St O → St O × List Out × Res) (L : List (St O)) (h : ∀ s ∈ L, (f s).2.2 = .ok) :
    (Joint.forAll f L).1 = L.map (fun s => (f s).1) ∧ (Joint.forAll f L).2.2 = .ok := by
  induction L with
  | nil => exact ⟨rfl, rfl⟩
  | cons s t ih =>
    have hs := h s (by simp)
    have ht := ih (fun x hx => h x (by simp [hx]))
    unfold Joint.forAll
    cases hf : f s with
    | mk s' rest =>
      obtain ⟨o, r⟩ := rest
      rw [hf] at hs
      simp only at hs
      subst hs
      simp only []
      constructor
      · rw [ht.1, List.map_cons, hf]
      · exact ht.2

/-- the instances of a running Joint-Feldman participant handle a broadcast pointwise -/
theorem joint_bcast (j : JSt O) (o : Nat) (m : Bytes) (hr : j.jointRunning = true)
    (hall : ∀ s ∈ j.fvss, s.running = true ∧ o < s.size) :
    (Joint.handleBroadcast j o m).1.fvss = j.fvss.map (fun s => step s (.bcast o m)) := by
  unfold Joint.handleBroadcast
  rw [if_neg (by simp [hr])]
  have := forAll_map (fun s => FvssQ.handleBroadcast s o m) j.fvss (by
    intro s hs
    obtain ⟨h1, h2⟩ := hall s hs
    unfold FvssQ.handleBroadcast
    have hb : badIndex s.size (o : Int) = false := by unfold badIndex; simp; omega
    simp [h1, hb])
  show (Joint.forAll (fun s => FvssQ.handleBroadcast s o m) j.fvss).1 = _
  rw [this.1]
  apply List.map_congr_left
  intro s hs
  obtain ⟨h1, h2⟩ := hall s hs
  unfold FvssQ.handleBroadcast
  have hb : badIndex s.size (o : Int) = false := by unfold badIndex; simp; omega
  simp [h1, hb]
  rfl

theorem joint_priv (j : JSt O) (o : Nat) (m : Bytes) (hr : j.jointRunning = true)
    (hall : ∀ s ∈ j.fvss, s.running = true ∧ o < s.size) :
    (Joint.handlePrivate j o m).1.fvss = j.fvss.map (fun s => step s (.priv o m)) := by
  unfold Joint.handlePrivate
  rw [if_neg (by simp [hr])]
  have := forAll_map (fun s => FvssQ.handlePrivate s o m) j.fvss (by
    intro s hs
    obtain ⟨h1, h2⟩ := hall s hs
    unfold FvssQ.handlePrivate
    have hb : badIndex s.size (o : Int) = false := by unfold badIndex; simp; omega
    simp [h1, hb])
  show (Joint.forAll (fun s => FvssQ.handlePrivate s o m) j.fvss).1 = _
  rw [this.1]
  apply List.map_congr_left
  intro s hs
  obtain ⟨h1, h2⟩ := hall s hs
  unfold FvssQ.handlePrivate
  have hb : badIndex s.size (o : Int) = false := by unfold badIndex; simp; omega
  simp [h1, hb]
  rfl

theorem joint_timeout (j : JSt O) (hr : j.jointRunning = true)
    (hall : ∀ s ∈ j.fvss, s.running = true ∧ s.complaintsTimeout = false) :
    (Joint.nextTimeout j).1.fvss = j.fvss.map tstep := by
  unfold Joint.nextTimeout
  rw [if_neg (by simp [hr])]
  have := forAll_map (fun s => FvssQ.nextTimeout s) j.fvss (by
    intro s hs
    obtain ⟨h1, h2⟩ := hall s hs
    unfold FvssQ.nextTimeout
    simp [h1, h2])
  show (Joint.forAll FvssQ.nextTimeout j.fvss).1 = _
  rw [this.1]
  apply List.map_congr_left
  intro s hs
  obtain ⟨h1, h2⟩ := hall s hs
  unfold FvssQ.nextTimeout
  simp [h1, h2]
  rfl

theorem joint_end (j : JSt O) (hr : j.jointRunning = true)
    (hall : ∀ s ∈ j.fvss, s.sharesTimeout = true ∧ s.complaintsTimeout = true) :
    (Joint.end_ j).2.2 = jres j.size j.threshold j.fvss := by
  unfold Joint.end_ jres
  rw [if_neg (by simp [hr])]
  have : (j.fvss.any fun s => !s.sharesTimeout || !s.complaintsTimeout) = false := by
    rw [List.any_eq_false]
    intro s hs
    obtain ⟨h1, h2⟩ := hall s hs
    simp [h1, h2]
  rw [if_neg (by simp [this])]
  simp only []
  have hfv : ((j.fvss.map FvssQ.settle).map (·.1)) = j.fvss.map (fun s => (FvssQ.settle s).1) := by
    rw [List.map_map]; rfl
  rw [hfv]
  generalize j.fvss.map (fun s => (FvssQ.settle s).1) = F
  by_cases hc : (F.filter (·.disqualified)).length > j.threshold ∨ j.size - (F.filter (·.disqualified)).length ≤ j.threshold
  · rw [if_pos hc, if_pos hc]
  · rw [if_neg hc, if_neg hc]
    cases O.sumVecs ((F.filter (fun s => !s.disqualified)).filterMap (·.vA)) with
    | none => rfl
    | some v =>
      simp only []
      split
      · rfl
      · split <;> rfl

end Proofs.DkgCommute
