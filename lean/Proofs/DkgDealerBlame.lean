import Proofs.DkgHonest
import Proofs.DkgBlame

/-!
# An honest dealer is never blamed by an honest receiver (Feldman-VSS-Qual, network level)

`Proofs/DkgHonest.lean` shows that an honest dealer is never *disqualified*. Here: no `Disqualify` and no
`FlagMisbehavior` callback of an honest receiver ever targets an honest dealer, over a whole execution (three rounds of
deliveries, both timeouts, `End`), for every behaviour of the other participants and every delivery order - given what
an honest dealer and a reliable network provide: each message of the dealer (its vector, the receiver's share, the
answer to each complainer) is delivered at most once, the vector and the share in the first round, the dealer
broadcasts nothing else that the instance reads, at most `t` participants complain and each is answered.
-/

namespace Proofs.DkgAgree
open Model Model.Dkg Proofs.DkgCommute

variable {O : Ops}

/-- the dealer's message of this kind has not been received before, and is in time -/
def FreshFor (s : St O) : Kind → Prop
  | .vec _ => s.vAReceived = false ∧ s.sharesTimeout = false
  | .share _ => s.xReceived = false ∧ s.sharesTimeout = false
  | .ans j _ => ¬ answered s j
  | _ => True

/-- the dealer broadcasts no complaint-tagged message once the complaints timeout has passed (the only ignored
    broadcast of the dealer that is flagged) -/
def DealerQuiet (s : St O) (e : Dl) : Prop :=
  e.sender = s.dealer → classify s e = .noop → s.complaintsTimeout = false

theorem nb_disq {A o : Nat} (h : o ≠ A) : NoBlame A [Out.disq o] := by
  have : (o == A) = false := by simpa using h
  simp [NoBlame, blames, this]

theorem nb_flag {A o : Nat} (h : o ≠ A) : NoBlame A [Out.flag o] := by
  have : (o == A) = false := by simpa using h
  simp [NoBlame, blames, this]

/-- **one delivery never blames an honest dealer**: the receiver's instance is consistent with the honest dealer
    (`HD`), the delivery is one an honest dealer and arbitrary others can cause (`AllowedK`), a message of the dealer
    is delivered for the first time and in time (`FreshFor`), and the dealer does not broadcast complaints after the
    second timeout (`DealerQuiet`) -/
theorem step_noblame_dealer {H : Honest O} {s : St O} (h : HD H s) (e : Dl)
    (ha : AllowedK H s (classify s e)) (hf : FreshFor s (classify s e)) (hq : DealerQuiet s e) :
    NoBlame s.dealer (stepOuts s e) := by
  have hme := h.inv.hme
  have hndq := h.ndq
  cases e with
  | priv o m =>
    show NoBlame s.dealer (FvssQ.privBody s o m).2
    unfold FvssQ.privBody
    by_cases ho : s.me = o
    · rw [if_pos ho]; exact NoBlame.nil _
    · rw [if_neg ho, if_neg (by simp [hndq])]
      by_cases hod : o = s.dealer
      · -- the dealer's share
        have hc : classify s (Dl.priv o m) = .share m := by
          show (if s.me = o then Kind.noop else if o = s.dealer then Kind.share m else Kind.noop) = _
          rw [if_neg ho, if_pos hod]
        rw [hc] at ha hf
        obtain ⟨_, hp⟩ := ha
        obtain ⟨hx, hst⟩ := hf
        unfold parseShare at hp
        by_cases c1 : m.length = 0 ∨ m.headD 0 ≠ tagShare
        · rw [if_pos c1] at hp; cases hp
        · rw [if_neg c1] at hp
          by_cases c2 : (m.drop 1).length ≠ shareSize
          · rw [if_pos c2] at hp; cases hp
          · rw [if_neg c2] at hp
            unfold FvssQ.receiveShare
            rw [if_neg (by simpa using hod), if_neg (by simp [hst]), if_neg (by simp [hx])]
            simp only []
            rw [if_neg c1, if_neg c2, hp]
            simp only []
            by_cases hv : s.vAReceived = true
            · rw [if_pos hv]
              have hvs : ({ s with xReceived := true, x := H.x0 } : St O).verifyShare = true := by
                unfold St.verifyShare
                simp only []
                rw [h.vec hv, h.me]
                exact H.shareOk
              rw [hvs]
              exact NoBlame.nil _
            · rw [if_neg hv]; exact NoBlame.nil _
      · unfold FvssQ.receiveShare
        rw [if_pos hod]; exact NoBlame.nil _
  | bcast o m =>
    show NoBlame s.dealer (FvssQ.bcastBody s o m).2
    have hcB : classify s (Dl.bcast o m) = classifyB s o m := rfl
    rw [hcB] at ha hf
    unfold FvssQ.bcastBody
    by_cases ho : s.me = o
    · rw [if_pos ho]; exact NoBlame.nil _
    · rw [if_neg ho, if_neg (by simp [hndq])]
      simp only []
      unfold classifyB at ha hf
      rw [if_neg ho] at ha hf
      by_cases h0 : m.length = 0
      · rw [if_pos h0]
        rw [if_pos h0] at ha
        by_cases hod : o = s.dealer
        · rw [if_pos hod] at ha; exact absurd ha (by simp [AllowedK])
        · exact nb_disq hod
      · rw [if_neg h0]
        rw [if_neg h0] at ha hf
        by_cases h1 : m.headD 0 = tagVerifVec
        · rw [if_pos h1]
          rw [if_pos h1] at ha hf
          by_cases hod : o = s.dealer
          · rw [if_pos hod] at ha hf
            obtain ⟨_, hp⟩ := ha
            obtain ⟨hv, hst⟩ := hf
            unfold parseVec at hp
            by_cases c1 : (m.drop 1).length ≠ verifVectorSize * (s.threshold + 1)
            · rw [if_pos c1] at hp; cases hp
            · rw [if_neg c1] at hp
              unfold FvssQ.receiveVerifVector
              rw [if_neg (by simpa using hod), if_neg (by simp [hst]), if_neg (by simp [hv])]
              simp only []
              rw [if_neg c1, hp]
              simp only []
              have hnb : (s.complaints.any fun kc => kc.2.received && kc.2.answerReceived &&
                  ({ s with vAReceived := true, vA := some H.v0 } : St O).checkComplaint kc.1 kc.2) = false := h.noBad
              rw [hnb]
              simp only [Bool.false_eq_true, if_false]
              by_cases hx : s.xReceived = true
              · rw [if_pos hx]
                have hvs : ({ s with vAReceived := true, vA := some H.v0 } : St O).verifyShare = true := by
                  unfold St.verifyShare
                  simp only []
                  rw [h.share hx, h.me]
                  exact H.shareOk
                rw [hvs]
                exact NoBlame.nil _
              · rw [if_neg hx]; exact NoBlame.nil _
          · unfold FvssQ.receiveVerifVector
            rw [if_pos hod]; exact NoBlame.nil _
        · rw [if_neg h1]
          rw [if_neg h1] at ha hf
          by_cases h2 : m.headD 0 = tagComplaint
          · rw [if_pos h2]
            rw [if_pos h2] at ha hf
            unfold FvssQ.receiveComplaint
            by_cases hct : s.complaintsTimeout = true
            · rw [if_pos hct]
              by_cases hod : o = s.dealer
              · -- a complaint-tagged broadcast of the dealer after the second timeout: excluded
                have hcl : classify s (Dl.bcast o m) = .noop := by
                  show classifyB s o m = _
                  unfold classifyB
                  rw [if_neg ho, if_neg h0, if_neg h1, if_pos h2, if_pos hct]
                have := hq hod hcl
                rw [hct] at this; cases this
              · exact nb_flag hod
            · rw [if_neg hct]
              rw [if_neg hct] at ha
              unfold parseC at ha
              by_cases c1 : (m.drop 1).length ≠ 1
              · rw [if_pos c1]
                rw [if_pos c1] at ha
                simp only [] at ha
                by_cases hod : o = s.dealer
                · rw [if_pos hod] at ha; exact absurd ha (by simp [AllowedK])
                · rw [if_neg hod]; exact NoBlame.nil _
              · rw [if_neg c1]
                rw [if_neg c1] at ha
                simp only []
                by_cases c2 : ((m.drop 1).headD 0).toNat ≥ s.size
                · rw [if_pos c2]
                  rw [if_pos c2] at ha
                  simp only [] at ha
                  by_cases hod : o = s.dealer
                  · rw [if_pos hod] at ha; exact absurd ha (by simp [AllowedK])
                  · rw [if_neg hod]; exact NoBlame.nil _
                · rw [if_neg c2]
                  by_cases hod : o = s.dealer
                  · rw [if_pos hod]; exact NoBlame.nil _
                  · rw [if_neg hod]
                    by_cases c3 : ((m.drop 1).headD 0).toNat ≠ s.dealer
                    · rw [if_pos c3]; exact NoBlame.nil _
                    · rw [if_neg c3]
                      cases hfo : s.find o with
                      | none =>
                        simp only []
                        have : ¬ (s.setC o { received := true, answerReceived := false }).me =
                            (s.setC o { received := true, answerReceived := false }).dealer := hme
                        rw [if_neg this]; exact NoBlame.nil _
                      | some c =>
                        simp only []
                        by_cases cr : c.received = true
                        · rw [if_pos cr]; exact nb_flag hod
                        · rw [if_neg cr]
                          split
                          · rename_i hcond
                            have hvr : s.vAReceived = true := hcond.1
                            have har : c.answerReceived = true := hcond.2.1
                            have hchk : (s.setC o { c with received := true }).checkComplaint o { c with received := true } = false := by
                              unfold St.checkComplaint
                              show (match s.vA with | some v => !(O.checkLog v o c.answer) | none => true) = false
                              rw [h.vec hvr]
                              simp only []
                              rw [h.ans o c hfo har]; rfl
                            rw [hchk]
                            exact NoBlame.nil _
                          · exact NoBlame.nil _
          · rw [if_neg h2]
            rw [if_neg h2] at ha hf
            by_cases h3 : m.headD 0 = tagAnswer
            · rw [if_pos h3]
              rw [if_pos h3] at ha hf
              by_cases hod : o = s.dealer
              · rw [if_pos hod] at ha hf
                unfold parseA at ha hf
                by_cases c1 : (m.drop 1).length ≠ 1 + shareSize
                · rw [if_pos c1] at ha; exact absurd ha (by simp [AllowedK])
                · rw [if_neg c1] at ha hf
                  by_cases c2 : ((m.drop 1).headD 0).toNat ≥ s.size
                  · rw [if_pos c2] at ha; exact absurd ha (by simp [AllowedK])
                  · rw [if_neg c2] at ha hf
                    simp only [] at ha hf
                    obtain ⟨a, hsc, hva⟩ := ha
                    unfold FvssQ.receiveComplaintAnswer
                    rw [if_neg (by simpa using hod), if_neg c1]
                    simp only []
                    rw [if_neg c2]
                    cases hfj : s.find ((m.drop 1).headD 0).toNat with
                    | none =>
                      simp only []
                      rw [hsc]; exact NoBlame.nil _
                    | some c =>
                      simp only []
                      by_cases car : c.answerReceived = true
                      · exact absurd ⟨c, hfj, car⟩ hf
                      · rw [if_neg car]
                        by_cases cr : c.received = true
                        · rw [if_pos cr, hsc]
                          simp only []
                          by_cases hvr : s.vAReceived = true
                          · have hvr' : ((s.setC ((m.drop 1).headD 0).toNat { c with answerReceived := true }).setC
                                ((m.drop 1).headD 0).toNat { c with answerReceived := true, answer := a }).vAReceived = true := hvr
                            rw [if_pos hvr']
                            have hchk : ((s.setC ((m.drop 1).headD 0).toNat { c with answerReceived := true }).setC
                                ((m.drop 1).headD 0).toNat { c with answerReceived := true, answer := a }).checkComplaint
                                ((m.drop 1).headD 0).toNat { c with answerReceived := true, answer := a } = false := by
                              unfold St.checkComplaint
                              show (match s.vA with | some v => !(O.checkLog v _ a) | none => true) = false
                              rw [h.vec hvr]
                              simp only []
                              rw [hva]; rfl
                            rw [hchk]
                            exact NoBlame.nil _
                          · have hvr' : ¬ ((s.setC ((m.drop 1).headD 0).toNat { c with answerReceived := true }).setC
                                ((m.drop 1).headD 0).toNat { c with answerReceived := true, answer := a }).vAReceived = true := hvr
                            rw [if_neg hvr']
                            exact NoBlame.nil _
                        · rw [if_neg cr]; exact NoBlame.nil _
              · unfold FvssQ.receiveComplaintAnswer
                rw [if_pos hod]; exact NoBlame.nil _
            · rw [if_neg h3]
              rw [if_neg h3] at ha
              by_cases hod : o = s.dealer
              · rw [if_pos hod] at ha; exact absurd ha (by simp [AllowedK])
              · exact nb_disq hod

/-! ### what a fresh, allowed delivery does to the state: exactly one thing -/

theorem interp_vec_fresh {H : Honest O} {s : St O} (h : HD H s) (d : Bytes) (hp : parseVec s d = some H.v0)
    (hv : s.vAReceived = false) (hst : s.sharesTimeout = false) : interp s (.vec d) = setVec s H.v0 := by
  show (FvssQ.receiveVerifVector s s.dealer d).1 = _
  rw [rv_eq s s.dealer rfl d hst hv, hp]
  simp only []
  unfold rvOk
  rw [h.noBad]
  simp only [Bool.false_eq_true, if_false]
  by_cases hx : s.xReceived = true
  · rw [if_pos hx]
    have hvs : (setVec s H.v0).verifyShare = true := by
      rw [vs_setVec, h.share hx, h.me]; exact H.shareOk
    simp only [hvs, Bool.not_true, Bool.false_eq_true, if_false]
  · rw [if_neg hx]

theorem interp_share_fresh {H : Honest O} {s : St O} (h : HD H s) (d : Bytes) (hp : parseShare O d = some H.x0)
    (hx : s.xReceived = false) (hst : s.sharesTimeout = false) : interp s (.share d) = setX s H.x0 := by
  show (FvssQ.receiveShare s s.dealer d).1 = _
  rw [rs_eq s s.dealer rfl d hst hx, hp]
  simp only []
  unfold rsOk
  by_cases hv : s.vAReceived = true
  · rw [if_pos hv]
    have hvs : (setX s H.x0).verifyShare = true := by
      unfold St.verifyShare
      simp only [setX_vA, setX_me, setX_x, h.vec hv, h.me]
      exact H.shareOk
    simp only [hvs, Bool.not_true, Bool.false_eq_true, if_false]
  · rw [if_neg hv]

/-- an answered complaint after a well-formed complaint of `k` was answered before -/
theorem answered_rcOk_back (s : St O) (k j : Nat) (h : answered (rcOk s k) j) : answered s j := by
  obtain ⟨c, hc, ha⟩ := h
  rw [rcOk_F, find_applyUpd] at hc
  cases he : (cmplF k s).entry with
  | none => rw [he] at hc; exact ⟨c, hc, ha⟩
  | some c' =>
    rw [he] at hc
    simp only [] at hc
    by_cases hj : j = k
    · rw [if_pos hj] at hc
      have hcc : c' = c := Option.some.inj hc
      subst hcc
      subst hj
      unfold cmplF rcU at he
      cases hf : s.find j with
      | none =>
        rw [hf] at he
        simp only [] at he
        have := Option.some.inj he
        rw [← this] at ha
        cases ha
      | some c0 =>
        rw [hf] at he
        simp only [] at he
        split at he
        · cases he
        · split at he
          · have := Option.some.inj he
            rw [← this] at ha
            exact ⟨c0, hf, ha⟩
          · have := Option.some.inj he
            rw [← this] at ha
            exact ⟨c0, hf, ha⟩
    · rw [if_neg hj] at hc; exact ⟨c, hc, ha⟩

/-- **what an allowed, fresh delivery can newly establish**: the vector flag only if it is the vector, the share flag
    only if it is the share, an answered complaint of `j` only if it is the answer for `j` -/
theorem frames_interp {H : Honest O} {s : St O} (h : HD H s) (k : Kind) (ha : AllowedK H s k) (hf : FreshFor s k) :
    ((interp s k).vAReceived = true → s.vAReceived = true ∨ ∃ d, k = .vec d) ∧
    ((interp s k).xReceived = true → s.xReceived = true ∨ ∃ d, k = .share d) ∧
    (∀ j, answered (interp s k) j → answered s j ∨ ∃ sc, k = .ans j sc) := by
  cases k with
  | noop => exact ⟨Or.inl, Or.inl, fun _ => Or.inl⟩
  | disq => exact absurd ha (by simp [AllowedK])
  | cmpl c =>
    have kp := rcOk_keeps s c
    refine ⟨fun hh => Or.inl (by rw [← kp.1]; exact hh), fun hh => Or.inl (by rw [← kp.2.1]; exact hh), ?_⟩
    intro j hj
    exact Or.inl (answered_rcOk_back s c j hj)
  | ans j' sc =>
    have kp := raOk_keeps s j' sc
    refine ⟨fun hh => Or.inl (by rw [← kp.1]; exact hh), fun hh => Or.inl (by rw [← kp.2.1]; exact hh), ?_⟩
    intro j hj
    by_cases hjj : j = j'
    · exact Or.inr ⟨sc, by rw [hjj]⟩
    · left
      obtain ⟨c, hc, hca⟩ := hj
      have : (interp s (.ans j' sc)).find j = s.find j := by
        show (raOk s j' sc).find j = _
        rw [raOk_F]; exact find_applyUpd_other s j j' _ hjj
      rw [this] at hc
      exact ⟨c, hc, hca⟩
  | vec d =>
    rw [interp_vec_fresh h d ha.2 hf.1 hf.2]
    exact ⟨fun _ => Or.inr ⟨d, rfl⟩, fun hh => Or.inl hh, fun j ⟨c, hc, hca⟩ => Or.inl ⟨c, hc, hca⟩⟩
  | share d =>
    rw [interp_share_fresh h d ha.2 hf.1 hf.2]
    exact ⟨fun hh => Or.inl hh, fun _ => Or.inr ⟨d, rfl⟩, fun j ⟨c, hc, hca⟩ => Or.inl ⟨c, hc, hca⟩⟩

/-! ### at most once: the history of a run -/

/-- the part of the configuration the classification of the dealer's messages depends on -/
def Cfg4 (s0 t : St O) : Prop := t.me = s0.me ∧ t.dealer = s0.dealer ∧ t.size = s0.size ∧ t.threshold = s0.threshold

/-- two deliveries are the same message of the dealer: two vectors, two shares, two answers for one complainer -/
def SameMsg : Kind → Kind → Prop
  | .vec _, .vec _ => True
  | .share _, .share _ => True
  | .ans j _, .ans j' _ => j = j'
  | _, _ => False

/-- **no message of the dealer is delivered twice** (reliable broadcast of an honest dealer's messages) -/
def Once (s0 : St O) (l : List Dl) : Prop :=
  l.Pairwise (fun a b => ∀ t u, Cfg4 s0 t → Cfg4 s0 u → ¬ SameMsg (classify t a) (classify u b))

/-- what is still to be delivered has not been received yet -/
def Safe (s0 s : St O) (R : List Dl) : Prop :=
  ∀ e ∈ R, ∀ t, Cfg4 s0 t →
    match classify t e with
    | .vec _ => s.vAReceived = false
    | .share _ => s.xReceived = false
    | .ans j _ => ¬ answered s j
    | _ => True

/-- neither the vector nor a share among the deliveries (rounds two and three) -/
def NoVS (s0 : St O) (l : List Dl) : Prop :=
  ∀ e ∈ l, ∀ t, Cfg4 s0 t → match classify t e with | .vec _ => False | .share _ => False | _ => True

theorem freshFor_of_safe {s0 s : St O} {e : Dl} {R : List Dl} (hs : Safe s0 s (e :: R)) (hc : Cfg4 s0 s)
    (hvs : s.sharesTimeout = false ∨ NoVS s0 [e]) : FreshFor s (classify s e) := by
  have h1 := hs e List.mem_cons_self s hc
  have h2 : s.sharesTimeout = true → match classify s e with | .vec _ => False | .share _ => False | _ => True := by
    intro hst
    rcases hvs with h | h
    · rw [h] at hst; cases hst
    · exact h e List.mem_cons_self s hc
  cases hk : classify s e with
  | vec d =>
    rw [hk] at h1 h2
    refine ⟨h1, ?_⟩
    cases hst : s.sharesTimeout
    · rfl
    · exact absurd (h2 hst) (by simp)
  | share d =>
    rw [hk] at h1 h2
    refine ⟨h1, ?_⟩
    cases hst : s.sharesTimeout
    · rfl
    · exact absurd (h2 hst) (by simp)
  | ans j sc => rw [hk] at h1; exact h1
  | noop => trivial
  | disq => trivial
  | cmpl k => trivial

theorem safe_step {H : Honest O} {s0 s : St O} {e : Dl} {R : List Dl} (h : HD H s) (hc : Cfg4 s0 s)
    (ha : AllowedK H s (classify s e)) (hf : FreshFor s (classify s e)) (hs : Safe s0 s (e :: R))
    (ho : ∀ b ∈ R, ∀ t u, Cfg4 s0 t → Cfg4 s0 u → ¬ SameMsg (classify t e) (classify u b)) :
    Safe s0 (step s e) R := by
  rw [step_classify s e h.inv.hme h.ndq]
  have fr := frames_interp h _ ha hf
  intro b hb t ht
  have hsb := hs b (List.mem_cons_of_mem _ hb) t ht
  have hob := ho b hb s t hc ht
  cases hk : classify t b with
  | vec d =>
    rw [hk] at hsb hob
    simp only []
    cases hv : (interp s (classify s e)).vAReceived
    · rfl
    · rcases fr.1 hv with h1 | ⟨d', h1⟩
      · rw [hsb] at h1; cases h1
      · rw [h1] at hob; exact absurd trivial hob
  | share d =>
    rw [hk] at hsb hob
    simp only []
    cases hv : (interp s (classify s e)).xReceived
    · rfl
    · rcases fr.2.1 hv with h1 | ⟨d', h1⟩
      · rw [hsb] at h1; cases h1
      · rw [h1] at hob; exact absurd trivial hob
  | ans j sc =>
    rw [hk] at hsb hob
    simp only []
    intro hans
    rcases fr.2.2 j hans with h1 | ⟨sc', h1⟩
    · exact hsb h1
    · rw [h1] at hob; exact hob rfl
  | noop => trivial
  | disq => trivial
  | cmpl k => trivial

theorem runOuts_dealer_cons (s : St O) (e : Dl) (t : List Dl) :
    runOuts s (e :: t) = stepOuts s e ++ runOuts (step s e) t := rfl

/-- **a round never blames the honest dealer**, and what is still to come stays undelivered -/
theorem round_noblame_dealer {H : Honest O} (K : Finset Nat) (s0 : St O) :
    ∀ (l R : List Dl) (s : St O), HD H s → Cfg4 s0 s → RoundOK H K s l →
      (∀ e ∈ l, ∀ t, SameCfg s t → DealerQuiet t e) →
      Once s0 (l ++ R) → Safe s0 s (l ++ R) → (s.sharesTimeout = false ∨ NoVS s0 l) →
      NoBlame s.dealer (runOuts s l) ∧ Safe s0 (runList s l) R := by
  intro l
  induction l with
  | nil =>
    intro R s _ _ _ _ _ hs _
    exact ⟨NoBlame.nil _, hs⟩
  | cons e t ih =>
    intro R s h hc hok hq honce hs hvs
    obtain ⟨ha, hk, _⟩ := hok e List.mem_cons_self s (SameCfg.rfl' s)
    have hvs1 : s.sharesTimeout = false ∨ NoVS s0 [e] := by
      rcases hvs with h1 | h1
      · exact Or.inl h1
      · right
        intro b hb
        have : b = e := by simpa using hb
        subst this
        exact h1 b List.mem_cons_self
    have hs' : Safe s0 s (e :: (t ++ R)) := hs
    have hf := freshFor_of_safe hs' hc hvs1
    have nb := step_noblame_dealer h e ha hf (hq e List.mem_cons_self s (SameCfg.rfl' s))
    obtain ⟨h1, m1⟩ := hd_step K h e ha hk
    have honce' : List.Pairwise (fun a b => ∀ t u, Cfg4 s0 t → Cfg4 s0 u → ¬ SameMsg (classify t a) (classify u b))
        (e :: (t ++ R)) := honce
    rw [List.pairwise_cons] at honce'
    have hs1 := safe_step h hc ha hf hs' honce'.1
    have hc1 : Cfg4 s0 (step s e) :=
      ⟨m1.cfg.1.trans hc.1, m1.cfg.2.1.trans hc.2.1, m1.cfg.2.2.1.trans hc.2.2.1, m1.cfg.2.2.2.1.trans hc.2.2.2⟩
    have hok1 : RoundOK H K (step s e) t := by
      intro e' he' u hu
      exact hok e' (List.mem_cons_of_mem _ he') u (m1.cfg.trans hu)
    have hq1 : ∀ e' ∈ t, ∀ u, SameCfg (step s e) u → DealerQuiet u e' := fun e' he' u hu =>
      hq e' (List.mem_cons_of_mem _ he') u (m1.cfg.trans hu)
    have hvs2 : (step s e).sharesTimeout = false ∨ NoVS s0 t := by
      rcases hvs with h2 | h2
      · left; rw [m1.cfg.2.2.2.2.1]; exact h2
      · right; intro b hb; exact h2 b (List.mem_cons_of_mem _ hb)
    obtain ⟨nb2, hs2⟩ := ih R (step s e) h1 hc1 hok1 hq1 honce'.2 hs1 hvs2
    refine ⟨?_, hs2⟩
    rw [runOuts_dealer_cons]
    apply NoBlame.append nb
    rw [← m1.cfg.2.1]; exact nb2

theorem safe_congr {s0 s t : St O} {R : List Dl} (h : Safe s0 s R) (h1 : t.vAReceived = s.vAReceived)
    (h2 : t.xReceived = s.xReceived) (h3 : t.complaints = s.complaints) : Safe s0 t R := by
  intro e he u hu
  have := h e he u hu
  have hfind : ∀ k, t.find k = s.find k := by intro k; unfold St.find; rw [h3]
  cases hk : classify u e with
  | vec d => rw [hk] at this; simp only [] at this ⊢; rw [h1]; exact this
  | share d => rw [hk] at this; simp only [] at this ⊢; rw [h2]; exact this
  | ans j sc =>
    rw [hk] at this; simp only [] at this ⊢
    rintro ⟨c, hc, hca⟩
    exact this ⟨c, by rw [← hfind]; exact hc, hca⟩
  | noop => trivial
  | disq => trivial
  | cmpl k => trivial

/-- **an honest dealer is never blamed by an honest receiver**: over three rounds of deliveries, both timeouts and
    `End`, no `Disqualify` / `FlagMisbehavior` callback of the receiver targets the dealer - whatever the other
    participants broadcast or send and in whatever order - provided the deliveries are compatible with an honest
    dealer (`RoundOK'`: the dealer's vector, the receiver's valid share, valid answers, nothing malformed from the
    dealer), the vector and the share arrive in the first round, at most `t` participants (`K`) complain and each is
    answered, no message of the dealer is delivered twice (`Once`), and the dealer broadcasts no complaint after the
    second timeout. -/
theorem honest_dealer_never_blamed (H : Honest O) (K : Finset Nat) (s0 : St O) (h0 : HD H s0)
    (hst0 : s0.sharesTimeout = false) (hct0 : s0.complaintsTimeout = false) (hK : K.card ≤ s0.threshold)
    (hk0 : keysIn K s0) (hv0 : s0.vAReceived = false) (hx0 : s0.xReceived = false) (hc0 : s0.complaints = [])
    (r1 r2 r3 : List Dl)
    (ok1 : RoundOK' H K s0 false r1) (ok2 : RoundOK' H K s0 false r2) (ok3 : RoundOK' H K s0 true r3)
    (hvec : ∃ e ∈ r1, ∃ d, ∀ t, CfgCT s0 false t → classify t e = .vec d)
    (hshare : ∃ e ∈ r1, ∃ d, ∀ t, CfgCT s0 false t → classify t e = .share d)
    (hans : ∀ k ∈ K, ∃ a, (∃ e ∈ r1, ∀ t, CfgCT s0 false t → classify t e = .ans k (some a)) ∨
      (∃ e ∈ r2, ∀ t, CfgCT s0 false t → classify t e = .ans k (some a)) ∨
      (∃ e ∈ r3, ∀ t, CfgCT s0 true t → classify t e = .ans k (some a)))
    (once : Once s0 (r1 ++ (r2 ++ r3))) (novs2 : NoVS s0 r2) (novs3 : NoVS s0 r3)
    (quiet3 : ∀ e ∈ r3, ∀ t, CfgCT s0 true t → DealerQuiet t e) :
    NoBlame s0.dealer (allOuts s0 r1 r2 r3) := by
  have c0 : CfgCT s0 false s0 := ⟨rfl, rfl, rfl, rfl, hct0⟩
  have q0 : Cfg4 s0 s0 := ⟨rfl, rfl, rfl, rfl⟩
  have safe0 : Safe s0 s0 (r1 ++ (r2 ++ r3)) := by
    intro e _ t _
    cases classify t e with
    | vec d => exact hv0
    | share d => exact hx0
    | ans j sc =>
      simp only []
      rintro ⟨c, hc, _⟩
      unfold St.find at hc
      rw [hc0] at hc
      cases hc
    | noop => trivial
    | disq => trivial
    | cmpl k => trivial
  -- round 1
  obtain ⟨h1, m1, v1, x1, a1⟩ := hd_round K r1 s0 h0 (roundOK_of' ok1 s0 c0)
  have quietF : ∀ (s : St O), s.complaintsTimeout = false → ∀ (l : List Dl), ∀ e ∈ l, ∀ t, SameCfg s t → DealerQuiet t e := by
    intro s hs l e _ t ht _ _
    rw [ht.2.2.2.2.2.1]; exact hs
  obtain ⟨nb1, sf1⟩ := round_noblame_dealer K s0 r1 (r2 ++ r3) s0 h0 q0 (roundOK_of' ok1 s0 c0)
    (quietF s0 hct0 r1) once safe0 (Or.inl hst0)
  obtain ⟨ev, hev, dv, hcv⟩ := hvec
  obtain ⟨es, hes, ds, hcs⟩ := hshare
  have hv1 := v1 hst0 ev hev dv (hcv s0 c0)
  have hxr1 := x1 hst0 es hes ds (hcs s0 c0)
  have hst1 : (runList s0 r1).sharesTimeout = false := by rw [m1.cfg.2.2.2.2.1]; exact hst0
  have hct1 : (runList s0 r1).complaintsTimeout = false := by rw [m1.cfg.2.2.2.2.2.1]; exact hct0
  have ht1 : tstep (runList s0 r1) = stFlag (runList s0 r1) := by
    rw [tstep_eq]
    simp [h1.ndq, hst1, hv1, hxr1]
  have to1 : (FvssQ.timeoutBody (runList s0 r1)).2 = [] := by
    unfold FvssQ.timeoutBody FvssQ.setSharesTimeout
    simp [h1.ndq, hst1, hv1, hxr1]
  have i1 := inv_tstep _ h1.inv
  rw [ht1] at i1
  have g1 : HD H (stFlag (runList s0 r1)) :=
    hd_congr_fields h1 _ i1 rfl rfl h1.ndq h1.vec h1.novec h1.share
  have c1 : CfgCT s0 false (stFlag (runList s0 r1)) :=
    ⟨m1.cfg.1, m1.cfg.2.1, m1.cfg.2.2.1, m1.cfg.2.2.2.1, hct1⟩
  have q1 : Cfg4 s0 (stFlag (runList s0 r1)) := ⟨m1.cfg.1, m1.cfg.2.1, m1.cfg.2.2.1, m1.cfg.2.2.2.1⟩
  have sf1' : Safe s0 (stFlag (runList s0 r1)) (r2 ++ r3) := safe_congr sf1 rfl rfl rfl
  have once2 : Once s0 (r2 ++ r3) := (List.pairwise_append.1 once).2.1
  -- round 2
  obtain ⟨h2, m2, _, _, a2⟩ := hd_round K r2 _ g1 (roundOK_of' ok2 _ c1)
  obtain ⟨nb2, sf2⟩ := round_noblame_dealer K s0 r2 r3 _ g1 q1 (roundOK_of' ok2 _ c1)
    (quietF (stFlag (runList s0 r1)) hct1 r2) once2 sf1' (Or.inr novs2)
  have hst2 : (runList (stFlag (runList s0 r1)) r2).sharesTimeout = true := by rw [m2.cfg.2.2.2.2.1]; rfl
  have hct2 : (runList (stFlag (runList s0 r1)) r2).complaintsTimeout = false := by
    rw [m2.cfg.2.2.2.2.2.1]; exact hct1
  have hkeys2 : keysIn K (runList (stFlag (runList s0 r1)) r2) :=
    m2.keys (fun k c hf => m1.keys hk0 k c hf)
  have hthr2 : (runList (stFlag (runList s0 r1)) r2).threshold = s0.threshold := by
    rw [m2.cfg.2.2.2.1]; exact m1.cfg.2.2.2.1
  have hlen2 : ¬ (runList (stFlag (runList s0 r1)) r2).complaints.length > (runList (stFlag (runList s0 r1)) r2).threshold := by
    have hlen := length_le_card K _ h2.inv.nodup hkeys2
    rw [hthr2]; omega
  have ht2 : tstep (runList (stFlag (runList s0 r1)) r2) = ctFlag (runList (stFlag (runList s0 r1)) r2) := by
    rw [tstep_eq]
    simp [h2.ndq, hst2, hlen2]
  have to2 : (FvssQ.timeoutBody (runList (stFlag (runList s0 r1)) r2)).2 = [] := by
    unfold FvssQ.timeoutBody FvssQ.setComplaintsTimeout
    simp only [h2.ndq, Bool.false_eq_true, if_false, hst2, Bool.not_true]
    have : ¬ ({ runList (stFlag (runList s0 r1)) r2 with complaintsTimeout := true } : St O).complaints.length >
        ({ runList (stFlag (runList s0 r1)) r2 with complaintsTimeout := true } : St O).threshold := hlen2
    rw [if_neg this]
  have i2 := inv_tstep _ h2.inv
  rw [ht2] at i2
  have g2 : HD H (ctFlag (runList (stFlag (runList s0 r1)) r2)) :=
    hd_congr_fields h2 _ i2 rfl rfl h2.ndq h2.vec h2.novec h2.share
  have c2 : CfgCT s0 true (ctFlag (runList (stFlag (runList s0 r1)) r2)) :=
    ⟨m2.cfg.1.trans m1.cfg.1, m2.cfg.2.1.trans m1.cfg.2.1, m2.cfg.2.2.1.trans m1.cfg.2.2.1,
      m2.cfg.2.2.2.1.trans m1.cfg.2.2.2.1, rfl⟩
  have q2 : Cfg4 s0 (ctFlag (runList (stFlag (runList s0 r1)) r2)) := ⟨c2.1, c2.2.1, c2.2.2.1, c2.2.2.2.1⟩
  have sf2' : Safe s0 (ctFlag (runList (stFlag (runList s0 r1)) r2)) (r3 ++ []) := by
    rw [List.append_nil]; exact safe_congr sf2 rfl rfl rfl
  have once3 : Once s0 (r3 ++ []) := by
    rw [List.append_nil]; exact (List.pairwise_append.1 once2).2.1
  -- round 3
  obtain ⟨h3, m3, _, _, a3⟩ := hd_round K r3 _ g2 (roundOK_of' ok3 _ c2)
  have quiet3' : ∀ e ∈ r3, ∀ t, SameCfg (ctFlag (runList (stFlag (runList s0 r1)) r2)) t → DealerQuiet t e := by
    intro e he t ht
    exact quiet3 e he t ⟨ht.1.trans c2.1, ht.2.1.trans c2.2.1, ht.2.2.1.trans c2.2.2.1, ht.2.2.2.1.trans c2.2.2.2.1,
      ht.2.2.2.2.2.1.trans c2.2.2.2.2⟩
  obtain ⟨nb3, _⟩ := round_noblame_dealer K s0 r3 [] _ g2 q2 (roundOK_of' ok3 _ c2) quiet3' once3 sf2' (Or.inr novs3)
  -- End: every complaint has been answered
  have hkeysF : keysIn K (runList (ctFlag (runList (stFlag (runList s0 r1)) r2)) r3) := m3.keys hkeys2
  have hansF : ∀ k ∈ K, answered (runList (ctFlag (runList (stFlag (runList s0 r1)) r2)) r3) k := by
    intro k hk
    obtain ⟨a, h | h | h⟩ := hans k hk
    · obtain ⟨e, he, hc⟩ := h
      exact m3.ans k (m2.ans k (a1 e he k a (hc s0 c0)))
    · obtain ⟨e, he, hc⟩ := h
      exact m3.ans k (a2 e he k a (hc _ c1))
    · obtain ⟨e, he, hc⟩ := h
      exact a3 e he k a (hc _ c2)
  have hnone : ((runList (ctFlag (runList (stFlag (runList s0 r1)) r2)) r3).complaints.any
      fun kc => kc.2.received && !kc.2.answerReceived) = false := by
    rw [List.any_eq_false]
    intro kc hkc
    have hf : (runList (ctFlag (runList (stFlag (runList s0 r1)) r2)) r3).find kc.1 = some kc.2 := by
      unfold St.find
      rw [find_of_mem _ h3.inv.nodup kc.1 kc.2 hkc]; rfl
    obtain ⟨c, hc, hca⟩ := hansF kc.1 (hkeysF kc.1 kc.2 hf)
    rw [hf] at hc
    have := Option.some.inj hc
    rw [this, hca]
    simp
  have hfin : final s0 r1 r2 r3 = runList (ctFlag (runList (stFlag (runList s0 r1)) r2)) r3 := by
    unfold final; rw [ht1, ht2]
  have se : (FvssQ.settle (final s0 r1 r2 r3)).2 = [] := by
    rw [hfin]
    unfold FvssQ.settle
    rw [hnone]
    simp
  unfold allOuts
  rw [to1, ht1, to2, ht2, se]
  have d1 : (stFlag (runList s0 r1)).dealer = s0.dealer := c1.2.1
  have d2 : (ctFlag (runList (stFlag (runList s0 r1)) r2)).dealer = s0.dealer := c2.2.1
  rw [d1] at nb2
  rw [d2] at nb3
  simp only [List.append_nil]
  exact NoBlame.append (NoBlame.append nb1 nb2) nb3

end Proofs.DkgAgree
