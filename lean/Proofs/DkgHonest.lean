import Proofs.DkgJoint
import Mathlib.Data.Finset.Card

/-! An honest dealer is never disqualified: whatever the other participants send and in whatever order, a receiver
that gets the dealer's vector and its share in the first round, and a valid answer to every complaint in the round
of the complaint, ends with the dealer's keys. -/

namespace Proofs.DkgCommute
open Model Model.Dkg
variable {O : Ops}

/-- what an honest dealer's run looks like from one receiver: the vector `v0`, the share `x0`, valid answers -/
structure Honest (O : Ops) where
  v0 : O.Vec
  vb : Bytes                      -- payload of the vector broadcast
  x0 : Nat
  sb : Bytes                      -- the private share message
  me : Nat
  shareOk : O.checkLog v0 me x0 = true

/-- deliveries an honest dealer and arbitrary other participants can cause -/
def AllowedK (H : Honest O) (s : St O) : Kind → Prop
  | .noop => True
  | .disq => False
  | .cmpl _ => True
  | .ans j sc => ∃ a, sc = some a ∧ O.checkLog H.v0 j a = true
  | .vec d => d = H.vb ∧ parseVec s d = some H.v0
  | .share d => d = H.sb ∧ parseShare O d = some H.x0

/-- the invariant: not disqualified, nothing inconsistent with the honest dealer's polynomial is stored -/
structure HD (H : Honest O) (s : St O) : Prop where
  inv : Inv s
  me : s.me = H.me
  ndq : s.disqualified = false
  vec : s.vAReceived = true → s.vA = some H.v0
  novec : s.vAReceived = false → s.vA = none
  share : s.xReceived = true → s.x = H.x0
  ans : ∀ k c, s.find k = some c → c.answerReceived = true → O.checkLog H.v0 k c.answer = true
  own : s.find s.me = none ∨ ∃ c, s.find s.me = some c ∧ c.received = false


theorem HD.noBad {H : Honest O} {s : St O} (h : HD H s) : anyBad (setVec s H.v0) = false := by
  unfold anyBad
  rw [List.any_eq_false]
  intro kc hkc
  have hf : s.find kc.1 = some kc.2 := by
    unfold St.find
    rw [find_of_mem s.complaints h.inv.nodup kc.1 kc.2 hkc]
    rfl
  unfold entryBad
  cases hr : kc.2.received <;> cases ha : kc.2.answerReceived <;> simp
  exact h.ans kc.1 kc.2 hf ha

theorem hd_setC {H : Honest O} {s : St O} (h : HD H s) (k : Nat) (c : Complaint) (hk : k ≠ s.me)
    (hc : c.answerReceived = true → O.checkLog H.v0 k c.answer = true)
    (hinv : Inv (s.setC k c)) : HD H (s.setC k c) := by
  refine ⟨hinv, h.me, h.ndq, h.vec, h.novec, h.share, ?_, ?_⟩
  · intro j c' hf ha
    rw [find_setC] at hf
    split at hf
    · rename_i hj
      have := Option.some.inj hf
      subst this; subst hj
      exact hc ha
    · exact h.ans j c' hf ha
  · have e : (s.setC k c).find (s.setC k c).me = s.find s.me := find_setC_other s s.me k c (fun e => hk e.symm)
    rw [e]
    exact h.own

theorem hd_cmpl {H : Honest O} {s : St O} (h : HD H s) (k : Nat) (hk : k ≠ s.me) : HD H (rcOk s k) := by
  have hinv := inv_rcOk s h.inv h.ndq k hk
  unfold rcOk at hinv ⊢
  cases hf : s.find k with
  | none =>
    rw [hf] at hinv
    exact hd_setC h k fresh hk (fun ha => by cases ha) hinv
  | some c =>
    rw [hf] at hinv
    simp only [] at hinv ⊢
    by_cases hr : c.received = true
    · rw [if_pos hr]; exact h
    · rw [if_neg hr] at hinv ⊢
      by_cases hva : s.vAReceived = true ∧ c.answerReceived = true
      · rw [if_pos hva] at hinv ⊢
        have hchk : s.checkComplaint k (recv c) = false := by
          unfold St.checkComplaint
          rw [h.vec hva.1]
          show (!(O.checkLog H.v0 k c.answer)) = false
          rw [h.ans k c hf hva.2]; rfl
        rw [hchk] at hinv ⊢
        have hS : HD H (s.setC k (recv c)) := by
          apply hd_setC h k (recv c) hk (fun _ => h.ans k c hf hva.2)
          -- the invariants do not depend on the disqualified flag here
          exact ⟨hinv.hme, hinv.nodup, hinv.wf, fun hv _ => h.inv.vecok hv h.ndq, hinv.own⟩
        exact ⟨hinv, hS.me, rfl, hS.vec, hS.novec, hS.share, hS.ans, hS.own⟩
      · rw [if_neg hva] at hinv ⊢
        apply hd_setC h k (recv c) hk _ hinv
        intro ha
        exact h.ans k c hf ha


theorem hd_ans {H : Honest O} {s : St O} (h : HD H s) (j a : Nat) (hva : O.checkLog H.v0 j a = true) :
    HD H (raOk s j (some a)) := by
  have hinv := inv_raOk s h.inv h.ndq j (some a)
  unfold raOk at hinv ⊢
  cases hf : s.find j with
  | none =>
    rw [hf] at hinv
    simp only [] at hinv ⊢
    refine ⟨hinv, h.me, h.ndq, h.vec, h.novec, h.share, ?_, ?_⟩
    · intro k c' hf' ha
      rw [find_setC] at hf'
      split at hf'
      · rename_i hk
        have := Option.some.inj hf'
        subst this; subst hk
        exact hva
      · exact h.ans k c' hf' ha
    · show (s.setC j (early a)).find s.me = none ∨ ∃ c, (s.setC j (early a)).find s.me = some c ∧ c.received = false
      rw [find_setC]
      split
      · exact Or.inr ⟨early a, rfl, rfl⟩
      · exact h.own
  | some c =>
    rw [hf] at hinv
    simp only [] at hinv ⊢
    by_cases har : c.answerReceived = true
    · rw [if_pos har]; exact h
    · rw [if_neg har] at hinv ⊢
      have hrc : c.received = true := by
        rcases h.inv.wf j c hf with h1 | h1
        · exact h1
        · exact absurd h1 har
      rw [if_pos hrc] at hinv ⊢
      -- the complainer is not this node (its own entry is never `received` while the dealer is honest)
      have hjm : j ≠ s.me := by
        intro e
        rcases h.own with ho | ⟨c', ho, hr'⟩
        · rw [← e, hf] at ho; cases ho
        · rw [← e, hf] at ho
          have := Option.some.inj ho
          rw [this] at hrc; rw [hrc] at hr'; cases hr'
      have hnm : ¬ ((!(if s.vAReceived = true then
            setDisq (s.setC j { c with answerReceived := true, answer := a })
              (s.checkComplaint j { c with answerReceived := true, answer := a })
          else s.setC j { c with answerReceived := true, answer := a }).disqualified) = true ∧ j = s.me) :=
        fun hh => hjm hh.2
      rw [if_neg hnm] at hinv ⊢
      have hS : ∀ (hi : Inv (s.setC j { c with answerReceived := true, answer := a })),
          HD H (s.setC j { c with answerReceived := true, answer := a }) :=
        fun hi => hd_setC h j _ hjm (fun _ => hva) hi
      by_cases hv : s.vAReceived = true
      · rw [if_pos hv] at hinv ⊢
        have hchk : s.checkComplaint j { c with answerReceived := true, answer := a } = false := by
          unfold St.checkComplaint
          rw [h.vec hv]
          show (!(O.checkLog H.v0 j a)) = false
          rw [hva]; rfl
        rw [hchk] at hinv ⊢
        have hS' := hS ⟨hinv.hme, hinv.nodup, hinv.wf, fun hv' _ => h.inv.vecok hv' h.ndq, hinv.own⟩
        exact ⟨hinv, hS'.me, rfl, hS'.vec, hS'.novec, hS'.share, hS'.ans, hS'.own⟩
      · rw [if_neg hv] at hinv ⊢
        exact hS hinv


theorem hd_congr_fields {H : Honest O} {s : St O} (h : HD H s) (t : St O) (hinv : Inv t) (h1 : t.me = s.me)
    (h2 : t.complaints = s.complaints) (hd : t.disqualified = false)
    (hv : t.vAReceived = true → t.vA = some H.v0) (hnv : t.vAReceived = false → t.vA = none)
    (hx : t.xReceived = true → t.x = H.x0) : HD H t := by
  have hfind : ∀ k, t.find k = s.find k := by intro k; unfold St.find; rw [h2]
  refine ⟨hinv, by rw [h1]; exact h.me, hd, hv, hnv, hx, ?_, ?_⟩
  · intro k c hf ha; rw [hfind] at hf; exact h.ans k c hf ha
  · rw [h1, hfind]; exact h.own

theorem hd_vec {H : Honest O} {s : St O} (h : HD H s) (d : Bytes) (hp : parseVec s d = some H.v0) :
    HD H (FvssQ.receiveVerifVector s s.dealer d).1 := by
  have hinv := inv_interp s h.inv h.ndq (.vec d) trivial
  change Inv (FvssQ.receiveVerifVector s s.dealer d).1 at hinv
  by_cases hg : s.sharesTimeout = true ∨ s.vAReceived = true
  · rw [rv_noop s s.dealer rfl d hg]; exact h
  · have hst : s.sharesTimeout = false := by
      cases hh : s.sharesTimeout
      · rfl
      · exact absurd (Or.inl hh) hg
    have hv : s.vAReceived = false := by
      cases hh : s.vAReceived
      · rfl
      · exact absurd (Or.inr hh) hg
    rw [rv_eq s s.dealer rfl d hst hv, hp] at hinv ⊢
    simp only [] at hinv ⊢
    unfold rvOk at hinv ⊢
    rw [h.noBad] at hinv ⊢
    simp only [Bool.false_eq_true, if_false] at hinv ⊢
    have hset : ∀ hi : Inv (setVec s H.v0), HD H (setVec s H.v0) := fun hi =>
      hd_congr_fields h _ hi rfl rfl h.ndq (fun _ => rfl) (fun hh => by cases hh) h.share
    by_cases hx : s.xReceived = true
    · rw [if_pos hx] at hinv ⊢
      have hvs : (setVec s H.v0).verifyShare = true := by
        rw [vs_setVec, h.share hx, h.me]; exact H.shareOk
      simp only [hvs, Bool.not_true, Bool.false_eq_true, if_false] at hinv ⊢
      exact hset hinv
    · rw [if_neg hx] at hinv ⊢
      exact hset hinv

theorem hd_share {H : Honest O} {s : St O} (h : HD H s) (d : Bytes) (hp : parseShare O d = some H.x0) :
    HD H (FvssQ.receiveShare s s.dealer d).1 := by
  have hinv := inv_interp s h.inv h.ndq (.share d) trivial
  change Inv (FvssQ.receiveShare s s.dealer d).1 at hinv
  by_cases hg : s.sharesTimeout = true ∨ s.xReceived = true
  · rw [rs_noop s s.dealer rfl d hg]; exact h
  · have hst : s.sharesTimeout = false := by
      cases hh : s.sharesTimeout
      · rfl
      · exact absurd (Or.inl hh) hg
    have hx : s.xReceived = false := by
      cases hh : s.xReceived
      · rfl
      · exact absurd (Or.inr hh) hg
    rw [rs_eq s s.dealer rfl d hst hx, hp] at hinv ⊢
    simp only [] at hinv ⊢
    unfold rsOk at hinv ⊢
    have hset : ∀ hi : Inv (setX s H.x0), HD H (setX s H.x0) := fun hi =>
      hd_congr_fields h _ hi rfl rfl h.ndq h.vec h.novec (fun _ => rfl)
    by_cases hv : s.vAReceived = true
    · rw [if_pos hv] at hinv ⊢
      have hvs : (setX s H.x0).verifyShare = true := by
        unfold St.verifyShare
        simp only [setX_vA, setX_me, setX_x, h.vec hv, h.me]
        exact H.shareOk
      simp only [hvs, Bool.not_true, Bool.false_eq_true, if_false] at hinv ⊢
      exact hset hinv
    · rw [if_neg hv] at hinv ⊢
      exact hset hinv

/-- **the invariant survives every delivery an honest dealer and arbitrary other participants can cause** -/
theorem hd_interp {H : Honest O} {s : St O} (h : HD H s) (k : Kind) (ok : KOK s k) (ha : AllowedK H s k) :
    HD H (interp s k) := by
  cases k with
  | noop => exact h
  | disq => exact absurd ha (by simp [AllowedK])
  | cmpl k => exact hd_cmpl h k ok
  | ans j sc =>
    obtain ⟨a, rfl, hva⟩ := ha
    exact hd_ans h j a hva
  | vec d => exact hd_vec h d ha.2
  | share d => exact hd_share h d ha.2


/-! ### what only grows along a run -/

def answered (s : St O) (k : Nat) : Prop := ∃ c, s.find k = some c ∧ c.answerReceived = true

def keysIn (K : Finset Nat) (s : St O) : Prop := ∀ k c, s.find k = some c → k ∈ K

def KindIn (K : Finset Nat) : Kind → Prop
  | .cmpl k => k ∈ K
  | .ans j _ => j ∈ K
  | _ => True

/-- facts that a delivery never undoes -/
structure Mono (K : Finset Nat) (s t : St O) : Prop where
  cfg : SameCfg s t
  vec : s.vAReceived = true → t.vAReceived = true
  share : s.xReceived = true → t.xReceived = true
  ans : ∀ k, answered s k → answered t k
  keys : keysIn K s → keysIn K t

theorem Mono.refl' (K : Finset Nat) (s : St O) : Mono K s s :=
  ⟨SameCfg.rfl' s, fun h => h, fun h => h, fun _ h => h, fun h => h⟩

theorem Mono.trans' {K : Finset Nat} {s t u : St O} (a : Mono K s t) (b : Mono K t u) : Mono K s u :=
  ⟨a.cfg.trans b.cfg, fun h => b.vec (a.vec h), fun h => b.share (a.share h), fun k h => b.ans k (a.ans k h),
    fun h => b.keys (a.keys h)⟩

theorem mono_applyUpd (K : Finset Nat) (s : St O) (k : Nat) (u : Upd)
    (hent : ∀ c, u.entry = some c → k ∈ K ∧ ∀ c0, s.find k = some c0 → c0.answerReceived = true → c.answerReceived = true) :
    Mono K s (applyUpd s k u) := by
  have a := applyUpd_vA s k u
  refine ⟨applyUpd_cfg s k u, fun h => by rw [a.2.1]; exact h, fun h => by rw [a.2.2.2.2]; exact h, ?_, ?_⟩
  · rintro j ⟨c0, hf, ha⟩
    unfold answered
    rw [find_applyUpd]
    cases he : u.entry with
    | none => exact ⟨c0, hf, ha⟩
    | some c =>
      simp only []
      by_cases hj : j = k
      · rw [if_pos hj]
        subst hj
        exact ⟨c, rfl, (hent c he).2 c0 hf ha⟩
      · rw [if_neg hj]; exact ⟨c0, hf, ha⟩
  · intro hk j c hf
    rw [find_applyUpd] at hf
    cases he : u.entry with
    | none => rw [he] at hf; exact hk j c hf
    | some c' =>
      rw [he] at hf
      simp only [] at hf
      by_cases hj : j = k
      · rw [hj]; exact (hent c' he).1
      · rw [if_neg hj] at hf; exact hk j c hf

theorem mono_fields (K : Finset Nat) (s t : St O) (hc : SameCfg s t) (h2 : t.complaints = s.complaints)
    (hv : s.vAReceived = true → t.vAReceived = true) (hx : s.xReceived = true → t.xReceived = true) : Mono K s t := by
  have hfind : ∀ k, t.find k = s.find k := by intro k; unfold St.find; rw [h2]
  refine ⟨hc, hv, hx, ?_, ?_⟩
  · rintro k ⟨c, hf, ha⟩; exact ⟨c, by rw [hfind]; exact hf, ha⟩
  · intro hk k c hf; rw [hfind] at hf; exact hk k c hf


theorem rcU_entry (fc : Option Complaint) (b : Bool) (chk : Complaint → Bool) (c : Complaint)
    (h : (rcU fc b chk).entry = some c) : ∀ c0, fc = some c0 → c0.answerReceived = true → c.answerReceived = true := by
  intro c0 hfc ha
  subst hfc
  unfold rcU at h
  simp only [] at h
  split at h
  · cases h
  · split at h <;> (have := Option.some.inj h; rw [← this]; exact ha)

theorem raU_entry (fc : Option Complaint) (b : Bool) (chk : Complaint → Bool) (d m : Bool) (a : Nat) (c : Complaint)
    (h : (raU fc b chk d m (some a)).entry = some c) : c.answerReceived = true := by
  unfold raU at h
  cases fc with
  | none => simp only [] at h; have := Option.some.inj h; rw [← this]; rfl
  | some c0 =>
    simp only [] at h
    split at h
    · cases h
    · split at h <;> (have := Option.some.inj h; rw [← this])

/-- an allowed delivery never undoes: the stored vector, the stored share, answered complaints, the key set -/
theorem mono_interp {H : Honest O} {s : St O} (K : Finset Nat) (h : HD H s) (k : Kind) (ha : AllowedK H s k)
    (hk : KindIn K k) : Mono K s (interp s k) := by
  cases k with
  | noop => exact Mono.refl' K s
  | disq => exact absurd ha (by simp [AllowedK])
  | cmpl k =>
    show Mono K s (rcOk s k)
    rw [rcOk_F]
    apply mono_applyUpd
    intro c hc
    exact ⟨hk, fun c0 hf => rcU_entry _ _ _ c hc c0 hf⟩
  | ans j sc =>
    obtain ⟨a, rfl, _⟩ := ha
    show Mono K s (raOk s j (some a))
    rw [raOk_F]
    apply mono_applyUpd
    intro c hc
    exact ⟨hk, fun _ _ _ => raU_entry _ _ _ _ _ a c hc⟩
  | vec d =>
    have hd := hd_vec h d ha.2
    show Mono K s (FvssQ.receiveVerifVector s s.dealer d).1
    by_cases hg : s.sharesTimeout = true ∨ s.vAReceived = true
    · rw [rv_noop s s.dealer rfl d hg]; exact Mono.refl' K s
    · have hst : s.sharesTimeout = false := by
        cases hh : s.sharesTimeout
        · rfl
        · exact absurd (Or.inl hh) hg
      have hv : s.vAReceived = false := by
        cases hh : s.vAReceived
        · rfl
        · exact absurd (Or.inr hh) hg
      rw [rv_eq s s.dealer rfl d hst hv, ha.2]
      simp only []
      unfold rvOk
      rw [h.noBad]
      simp only [Bool.false_eq_true, if_false]
      have hset : Mono K s (setVec s H.v0) :=
        mono_fields K s _ ⟨rfl, rfl, rfl, rfl, rfl, rfl, rfl⟩ rfl (fun _ => rfl) (fun hh => hh)
      by_cases hx : s.xReceived = true
      · rw [if_pos hx]
        have hvs : (setVec s H.v0).verifyShare = true := by
          rw [vs_setVec, h.share hx, h.me]; exact H.shareOk
        simp only [hvs, Bool.not_true, Bool.false_eq_true, if_false]
        exact hset
      · rw [if_neg hx]; exact hset
  | share d =>
    show Mono K s (FvssQ.receiveShare s s.dealer d).1
    by_cases hg : s.sharesTimeout = true ∨ s.xReceived = true
    · rw [rs_noop s s.dealer rfl d hg]; exact Mono.refl' K s
    · have hst : s.sharesTimeout = false := by
        cases hh : s.sharesTimeout
        · rfl
        · exact absurd (Or.inl hh) hg
      have hx : s.xReceived = false := by
        cases hh : s.xReceived
        · rfl
        · exact absurd (Or.inr hh) hg
      rw [rs_eq s s.dealer rfl d hst hx, ha.2]
      simp only []
      unfold rsOk
      have hset : Mono K s (setX s H.x0) :=
        mono_fields K s _ ⟨rfl, rfl, rfl, rfl, rfl, rfl, rfl⟩ rfl (fun hh => hh) (fun _ => rfl)
      by_cases hv : s.vAReceived = true
      · rw [if_pos hv]
        have hvs : (setX s H.x0).verifyShare = true := by
          unfold St.verifyShare
          simp only [setX_vA, setX_me, setX_x, h.vec hv, h.me]
          exact H.shareOk
        simp only [hvs, Bool.not_true, Bool.false_eq_true, if_false]
        exact hset
      · rw [if_neg hv]; exact hset

/-- what a delivery establishes -/
theorem sets_interp {H : Honest O} {s : St O} (h : HD H s) (hst : s.sharesTimeout = false) :
    (∀ d, AllowedK H s (.vec d) → (interp s (.vec d)).vAReceived = true) ∧
    (∀ d, AllowedK H s (.share d) → (interp s (.share d)).xReceived = true) ∧
    (∀ j a, answered (interp s (.ans j (some a))) j) := by
  refine ⟨?_, ?_, ?_⟩
  · intro d ha
    show (FvssQ.receiveVerifVector s s.dealer d).1.vAReceived = true
    by_cases hv : s.vAReceived = true
    · rw [rv_noop s s.dealer rfl d (Or.inr hv)]; exact hv
    · have hv' : s.vAReceived = false := by simpa using hv
      rw [rv_eq s s.dealer rfl d hst hv', ha.2]
      simp only []
      unfold rvOk
      rw [h.noBad]
      simp only [Bool.false_eq_true, if_false]
      split
      · split
        · exact (bc_keeps _).2.1
        · rfl
      · rfl
  · intro d ha
    show (FvssQ.receiveShare s s.dealer d).1.xReceived = true
    by_cases hx : s.xReceived = true
    · rw [rs_noop s s.dealer rfl d (Or.inr hx)]; exact hx
    · have hx' : s.xReceived = false := by simpa using hx
      rw [rs_eq s s.dealer rfl d hst hx', ha.2]
      simp only []
      unfold rsOk
      split
      · split
        · exact (bc_keeps _).2.2
        · rfl
      · rfl
  · intro j a
    show answered (raOk s j (some a)) j
    unfold answered
    rw [raOk_F, find_applyUpd]
    have hu : ansF j (some a) s = raU (s.find j) s.vAReceived (s.checkComplaint j) s.disqualified (decide (j = s.me)) (some a) := rfl
    cases he : (ansF j (some a) s).entry with
    | some c =>
      simp only [if_true]
      rw [hu] at he
      exact ⟨c, rfl, raU_entry _ _ _ _ _ a c he⟩
    | none =>
      simp only []
      -- no new entry: the complaint was already answered
      rw [hu] at he
      unfold raU at he
      cases hf : s.find j with
      | none => rw [hf] at he; simp at he
      | some c0 =>
        rw [hf] at he
        simp only [] at he
        by_cases har : c0.answerReceived = true
        · exact ⟨c0, rfl, har⟩
        · rw [if_neg har] at he
          split at he <;> simp at he


/-! ### a round, the timeouts, `End` -/

/-- the deliveries of a round are all compatible with an honest dealer, whatever state (with this configuration)
    they meet -/
def RoundOK (H : Honest O) (K : Finset Nat) (s : St O) (l : List Dl) : Prop :=
  ∀ e ∈ l, ∀ t, SameCfg s t → AllowedK H t (classify t e) ∧ KindIn K (classify t e) ∧ KOK t (classify t e)

theorem hd_step {H : Honest O} {s : St O} (K : Finset Nat) (h : HD H s) (e : Dl)
    (ha : AllowedK H s (classify s e)) (hk : KindIn K (classify s e)) :
    HD H (step s e) ∧ Mono K s (step s e) := by
  rw [step_classify s e h.inv.hme h.ndq]
  exact ⟨hd_interp h _ (classify_src s e).2 ha, mono_interp K h _ ha hk⟩

theorem hd_round {H : Honest O} (K : Finset Nat) : ∀ (l : List Dl) (s : St O), HD H s → RoundOK H K s l →
    HD H (runList s l) ∧ Mono K s (runList s l) ∧
    (s.sharesTimeout = false → ∀ e ∈ l, ∀ d, classify s e = .vec d → (runList s l).vAReceived = true) ∧
    (s.sharesTimeout = false → ∀ e ∈ l, ∀ d, classify s e = .share d → (runList s l).xReceived = true) ∧
    (∀ e ∈ l, ∀ j a, classify s e = .ans j (some a) → answered (runList s l) j) := by
  intro l
  induction l with
  | nil =>
    intro s h _
    refine ⟨h, Mono.refl' K s, ?_, ?_, ?_⟩
    · intro _ e he; simp at he
    · intro _ e he; simp at he
    · intro e he; simp at he
  | cons e t ih =>
    intro s h hok
    obtain ⟨ha, hk, _⟩ := hok e (by simp) s (SameCfg.rfl' s)
    obtain ⟨h1, m1⟩ := hd_step K h e ha hk
    have hok' : RoundOK H K (step s e) t := by
      intro e' he' u hu
      exact hok e' (List.mem_cons_of_mem _ he') u (m1.cfg.trans hu)
    obtain ⟨h2, m2, v2, x2, a2⟩ := ih (step s e) h1 hok'
    have hcl : ∀ e', classify (step s e) e' = classify s e' := fun e' => classify_cfg s _ m1.cfg e'
    have hst' : s.sharesTimeout = false → (step s e).sharesTimeout = false := by
      intro hs; rw [m1.cfg.2.2.2.2.1]; exact hs
    refine ⟨h2, m1.trans' m2, ?_, ?_, ?_⟩
    · intro hs e' he' d hc
      rcases List.mem_cons.1 he' with rfl | he'
      · have : (step s e').vAReceived = true := by
          rw [step_classify s e' h.inv.hme h.ndq, hc]
          exact (sets_interp h hs).1 d (by rw [← hc]; exact ha)
        exact m2.vec this
      · exact v2 (hst' hs) e' he' d (by rw [hcl]; exact hc)
    · intro hs e' he' d hc
      rcases List.mem_cons.1 he' with rfl | he'
      · have : (step s e').xReceived = true := by
          rw [step_classify s e' h.inv.hme h.ndq, hc]
          exact (sets_interp h hs).2.1 d (by rw [← hc]; exact ha)
        exact m2.share this
      · exact x2 (hst' hs) e' he' d (by rw [hcl]; exact hc)
    · intro e' he' j a hc
      rcases List.mem_cons.1 he' with rfl | he'
      · have : answered (step s e') j := by
          rw [step_classify s e' h.inv.hme h.ndq, hc]
          cases hst : s.sharesTimeout with
          | false => exact (sets_interp h hst).2.2 j a
          | true =>
            -- `sets_interp` needs no timeout fact for answers: restate through the same proof
            show answered (raOk s j (some a)) j
            unfold answered
            rw [raOk_F, find_applyUpd]
            have hu : ansF j (some a) s = raU (s.find j) s.vAReceived (s.checkComplaint j) s.disqualified
                (decide (j = s.me)) (some a) := rfl
            cases he2 : (ansF j (some a) s).entry with
            | some c =>
              simp only [if_true]
              rw [hu] at he2
              exact ⟨c, rfl, raU_entry _ _ _ _ _ a c he2⟩
            | none =>
              simp only []
              rw [hu] at he2
              unfold raU at he2
              cases hf : s.find j with
              | none => rw [hf] at he2; simp at he2
              | some c0 =>
                rw [hf] at he2
                simp only [] at he2
                by_cases har : c0.answerReceived = true
                · exact ⟨c0, rfl, har⟩
                · rw [if_neg har] at he2
                  split at he2 <;> simp at he2
        exact m2.ans j this
      · exact a2 e' he' j a (by rw [hcl]; exact hc)


/-- configuration of the instance and the complaints-timeout flag -/
def CfgCT (s0 : St O) (ct : Bool) (t : St O) : Prop :=
  t.me = s0.me ∧ t.dealer = s0.dealer ∧ t.size = s0.size ∧ t.threshold = s0.threshold ∧ t.complaintsTimeout = ct

/-- a round whose deliveries are compatible with an honest dealer, stated for every state of the instance -/
def RoundOK' (H : Honest O) (K : Finset Nat) (s0 : St O) (ct : Bool) (l : List Dl) : Prop :=
  ∀ e ∈ l, ∀ t, CfgCT s0 ct t → AllowedK H t (classify t e) ∧ KindIn K (classify t e) ∧ KOK t (classify t e)

theorem roundOK_of' {H : Honest O} {K : Finset Nat} {s0 : St O} {ct : Bool} {l : List Dl}
    (h : RoundOK' H K s0 ct l) (u : St O) (hu : CfgCT s0 ct u) : RoundOK H K u l := by
  intro e he t ht
  obtain ⟨t1, t2, t3, t4, _, t6, _⟩ := ht
  obtain ⟨u1, u2, u3, u4, u5⟩ := hu
  exact h e he t ⟨t1.trans u1, t2.trans u2, t3.trans u3, t4.trans u4, t6.trans u5⟩

theorem length_le_card (K : Finset Nat) (s : St O) (hn : KeysNodup s) (hk : keysIn K s) :
    s.complaints.length ≤ K.card := by
  have hsub : (s.complaints.map (·.1)).toFinset ⊆ K := by
    intro k hk'
    obtain ⟨kc, hm, rfl⟩ := List.mem_map.1 (List.mem_toFinset.1 hk')
    have hf : s.find kc.1 = some kc.2 := by
      unfold St.find
      rw [find_of_mem s.complaints hn kc.1 kc.2 hm]; rfl
    exact hk kc.1 kc.2 hf
  have := Finset.card_le_card hsub
  rw [List.toFinset_card_of_nodup hn, List.length_map] at this
  exact this

/-- **an honest dealer is never disqualified and the receiver ends with the dealer's keys**: whatever the other
    participants broadcast or send and in whatever order, if the dealer's vector and the receiver's share arrive in
    the first round, at most `t` participants ever complain or are answered, and every one of them gets a valid
    answer before `End`, then `End` returns the receiver's share, the group key and the key shares of the dealer's
    polynomial -/
theorem honest_dealer_keys (H : Honest O) (K : Finset Nat) (s0 : St O) (h0 : HD H s0)
    (hst0 : s0.sharesTimeout = false) (hct0 : s0.complaintsTimeout = false) (hK : K.card ≤ s0.threshold)
    (hk0 : keysIn K s0) (hx0 : H.x0 ≠ 0) (hid : O.groupKeyIsIdentity H.v0 = false) (r1 r2 r3 : List Dl)
    (ok1 : RoundOK' H K s0 false r1) (ok2 : RoundOK' H K s0 false r2) (ok3 : RoundOK' H K s0 true r3)
    (hvec : ∃ e ∈ r1, ∃ d, ∀ t, CfgCT s0 false t → classify t e = .vec d)
    (hshare : ∃ e ∈ r1, ∃ d, ∀ t, CfgCT s0 false t → classify t e = .share d)
    (hans : ∀ k ∈ K, ∃ a, (∃ e ∈ r1, ∀ t, CfgCT s0 false t → classify t e = .ans k (some a)) ∨
      (∃ e ∈ r2, ∀ t, CfgCT s0 false t → classify t e = .ans k (some a)) ∨
      (∃ e ∈ r3, ∀ t, CfgCT s0 true t → classify t e = .ans k (some a))) :
    exec s0 r1 r2 r3 = .keys H.x0 (O.groupKey H.v0) (O.pubShares H.v0) := by
  have c0 : CfgCT s0 false s0 := ⟨rfl, rfl, rfl, rfl, hct0⟩
  -- round 1
  obtain ⟨h1, m1, v1, x1, a1⟩ := hd_round K r1 s0 h0 (roundOK_of' ok1 s0 c0)
  obtain ⟨ev, hev, dv, hcv⟩ := hvec
  obtain ⟨es, hes, ds, hcs⟩ := hshare
  have hv1 := v1 hst0 ev hev dv (hcv s0 c0)
  have hxr1 := x1 hst0 es hes ds (hcs s0 c0)
  have hst1 : (runList s0 r1).sharesTimeout = false := by rw [m1.cfg.2.2.2.2.1]; exact hst0
  have hct1 : (runList s0 r1).complaintsTimeout = false := by rw [m1.cfg.2.2.2.2.2.1]; exact hct0
  -- first timeout: nothing happens but the flag
  have ht1 : tstep (runList s0 r1) = stFlag (runList s0 r1) := by
    rw [tstep_eq]
    simp [h1.ndq, hst1, hv1, hxr1]
  have i1 := inv_tstep _ h1.inv
  rw [ht1] at i1
  have g1 : HD H (stFlag (runList s0 r1)) :=
    hd_congr_fields h1 _ i1 rfl rfl h1.ndq h1.vec h1.novec h1.share
  have c1 : CfgCT s0 false (stFlag (runList s0 r1)) :=
    ⟨m1.cfg.1, m1.cfg.2.1, m1.cfg.2.2.1, m1.cfg.2.2.2.1, hct1⟩
  -- round 2
  obtain ⟨h2, m2, _, _, a2⟩ := hd_round K r2 _ g1 (roundOK_of' ok2 _ c1)
  have hst2 : (runList (stFlag (runList s0 r1)) r2).sharesTimeout = true := by rw [m2.cfg.2.2.2.2.1]; rfl
  have hct2 : (runList (stFlag (runList s0 r1)) r2).complaintsTimeout = false := by
    rw [m2.cfg.2.2.2.2.2.1]; exact hct1
  have hkeys2 : keysIn K (runList (stFlag (runList s0 r1)) r2) :=
    m2.keys (fun k c hf => m1.keys hk0 k c hf)
  have hthr2 : (runList (stFlag (runList s0 r1)) r2).threshold = s0.threshold := by
    rw [m2.cfg.2.2.2.1]; exact m1.cfg.2.2.2.1
  -- second timeout: at most t complaints
  have ht2 : tstep (runList (stFlag (runList s0 r1)) r2) = ctFlag (runList (stFlag (runList s0 r1)) r2) := by
    rw [tstep_eq]
    have hlen := length_le_card K _ h2.inv.nodup hkeys2
    have : ¬ (runList (stFlag (runList s0 r1)) r2).complaints.length > (runList (stFlag (runList s0 r1)) r2).threshold := by
      rw [hthr2]; omega
    simp [h2.ndq, hst2, this]
  have i2 := inv_tstep _ h2.inv
  rw [ht2] at i2
  have g2 : HD H (ctFlag (runList (stFlag (runList s0 r1)) r2)) :=
    hd_congr_fields h2 _ i2 rfl rfl h2.ndq h2.vec h2.novec h2.share
  have c2 : CfgCT s0 true (ctFlag (runList (stFlag (runList s0 r1)) r2)) :=
    ⟨m2.cfg.1.trans m1.cfg.1, m2.cfg.2.1.trans m1.cfg.2.1, m2.cfg.2.2.1.trans m1.cfg.2.2.1,
      m2.cfg.2.2.2.1.trans m1.cfg.2.2.2.1, rfl⟩
  -- round 3
  obtain ⟨h3, m3, _, _, a3⟩ := hd_round K r3 _ g2 (roundOK_of' ok3 _ c2)
  unfold exec
  rw [ht1, ht2, endRes_eq]
  -- the final state
  have hvF : (runList (ctFlag (runList (stFlag (runList s0 r1)) r2)) r3).vAReceived = true :=
    m3.vec (m2.vec hv1)
  have hxF : (runList (ctFlag (runList (stFlag (runList s0 r1)) r2)) r3).xReceived = true :=
    m3.share (m2.share hxr1)
  have hkeysF : keysIn K (runList (ctFlag (runList (stFlag (runList s0 r1)) r2)) r3) := m3.keys hkeys2
  -- every participant of K has been answered
  have hansF : ∀ k ∈ K, answered (runList (ctFlag (runList (stFlag (runList s0 r1)) r2)) r3) k := by
    intro k hk
    obtain ⟨a, h | h | h⟩ := hans k hk
    · obtain ⟨e, he, hc⟩ := h
      exact m3.ans k (m2.ans k (a1 e he k a (hc s0 c0)))
    · obtain ⟨e, he, hc⟩ := h
      exact m3.ans k (a2 e he k a (hc _ c1))
    · obtain ⟨e, he, hc⟩ := h
      exact a3 e he k a (hc _ c2)
  have hnone : ((runList (ctFlag (runList (stFlag (runList s0 r1)) r2)) r3).complaints.any
      fun kc => kc.2.received && !kc.2.answerReceived) = false := by
    rw [List.any_eq_false]
    intro kc hkc
    have hf : (runList (ctFlag (runList (stFlag (runList s0 r1)) r2)) r3).find kc.1 = some kc.2 := by
      unfold St.find
      rw [find_of_mem _ h3.inv.nodup kc.1 kc.2 hkc]; rfl
    obtain ⟨c, hc, hca⟩ := hansF kc.1 (hkeysF kc.1 kc.2 hf)
    rw [hf] at hc
    have := Option.some.inj hc
    rw [this, hca]
    simp
  rw [h3.ndq, hnone, h3.vec hvF, h3.share hxF]
  simp [hx0, hid]

/-- the invariant holds right after `Start` at a participant other than the dealer -/
theorem hd_init (H : Honest O) (size threshold dealer : Nat) (hne : H.me ≠ dealer) :
    HD H ({ size := size, threshold := threshold, me := H.me, dealer := dealer, running := true } : St O) := by
  refine ⟨⟨hne, List.nodup_nil, ?_, ?_, ?_⟩, rfl, rfl, ?_, fun _ => rfl, ?_, ?_, Or.inl rfl⟩
  · intro k c hc; cases hc
  · intro hv; cases hv
  · intro c hc; cases hc
  · intro hv; cases hv
  · intro hx; cases hx
  · intro k c hc; cases hc

end Proofs.DkgCommute
