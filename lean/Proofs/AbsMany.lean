import Proofs.AbsAgg

/-! `VerifyBLSSignatureManyMessages` (bls_multisig.go) and its two C back ends
(`bls_verifyPerDistinctMessage`, `bls_verifyPerDistinctKey`) over the abstract pairing setting.

Go's map iteration order, the way equal points in different coordinates fall into different map
entries, and the comparator choosing the back end are *parameters*: a grouping is any list of groups
whose flattening is a permutation of the (hash image, key) entries. -/

variable {r : ℕ} [Fact r.Prime] {P : PairingGroups r}

/-- parse a signature and require subgroup membership -/
def readG1 (C : Codec P) (sig : Bytes) : Option P.G1 :=
  match C.decode sig with
  | none => none
  | some x => P.toG1 x

theorem readG1_some_iff (C : Codec P) (sig : Bytes) (s : P.G1) :
    readG1 C sig = some s ↔ sig = C.encode (P.ι s) := by
  unfold readG1
  constructor
  · intro h
    split at h
    · cases h
    · next x hd =>
      have := (P.toG1_iff _ _).1 h
      rw [this]; exact (C.enc_dec _ _ hd).symm
  · rintro rfl
    rw [C.dec_enc]; exact P.toG1_ι s

/-- `Verify` in terms of the pairing equation (any public key) -/
theorem verifyCore_true_iff (C : Codec P) (pk : P.G2) (sig : Bytes) (h : P.G1) :
    verifyCore C pk sig h = true ↔ pk ≠ 0 ∧ ∃ s : P.G1, sig = C.encode (P.ι s) ∧ P.e s P.g2 = P.e h pk := by
  unfold verifyCore
  constructor
  · intro hv
    split at hv; · cases hv
    split at hv; · cases hv
    rename_i hl hpk
    cases hd : C.decode sig with
    | none => rw [hd] at hv; cases hv
    | some x =>
      rw [hd] at hv
      simp only at hv
      cases ht : P.toG1 x with
      | none => rw [ht] at hv; cases hv
      | some s =>
        rw [ht] at hv
        simp only [pairingCheck, decide_eq_true_eq] at hv
        refine ⟨hpk, s, ?_, ?_⟩
        · rw [(P.toG1_iff _ _).1 ht]; exact (C.enc_dec _ _ hd).symm
        · rw [map_neg, neg_add_eq_zero] at hv; exact hv
  · rintro ⟨hpk, s, rfl, he⟩
    rw [if_neg (by simpa using C.len _ _ (C.dec_enc _)), if_neg hpk, C.dec_enc]
    simp only [P.toG1_ι, pairingCheck, decide_eq_true_eq]
    rw [map_neg, neg_add_eq_zero]; exact he

/-- the pairing product over the entries: Σ e(h_i, pk_i) -/
def pairingSum (entries : List (P.G1 × P.G2)) : P.GT := (entries.map fun x => P.e x.1 x.2).sum

/-- entries of a grouping by message: one pairing `e(h, Σ pks)` per group -/
def flattenByMsg (groups : List (P.G1 × List P.G2)) : List (P.G1 × P.G2) :=
  groups.flatMap fun g => g.2.map fun pk => (g.1, pk)

/-- entries of a grouping by key: one pairing `e(Σ hs, pk)` per group -/
def flattenByKey (groups : List (P.G2 × List P.G1)) : List (P.G1 × P.G2) :=
  groups.flatMap fun g => g.2.map fun h => (h, g.1)

theorem sum_byMsg (groups : List (P.G1 × List P.G2)) :
    (groups.map fun g => P.e g.1 g.2.sum).sum = pairingSum (flattenByMsg groups) := by
  unfold pairingSum flattenByMsg
  induction groups with
  | nil => simp
  | cons g t ih =>
    simp only [List.map_cons, List.sum_cons, List.flatMap_cons, List.map_append, List.sum_append, ih]
    congr 1
    induction g.2 with
    | nil => simp
    | cons a l ihl => simp [map_add, ihl]

theorem sum_byKey (groups : List (P.G2 × List P.G1)) :
    (groups.map fun g => P.e g.2.sum g.1).sum = pairingSum (flattenByKey groups) := by
  unfold pairingSum flattenByKey
  induction groups with
  | nil => simp
  | cons g t ih =>
    simp only [List.map_cons, List.sum_cons, List.flatMap_cons, List.map_append, List.sum_append, ih]
    congr 1
    induction g.2 with
    | nil => simp
    | cons a l ihl => simp [map_add, ihl]

theorem pairingSum_perm {l l' : List (P.G1 × P.G2)} (h : l.Perm l') : pairingSum l = pairingSum l' :=
  (h.map _).sum_eq

/-- control flow after the Go-level guards: identity keys, parsing, one multi-pairing on the chosen grouping -/
def verifyManyCore (C : Codec P) (entries : List (P.G1 × P.G2)) (sig : Bytes) (byMsg : Bool)
    (gm : List (P.G1 × List P.G2)) (gk : List (P.G2 × List P.G1)) : Bool :=
  if sig.length ≠ 48 then false
  else if entries.any (fun x => decide (x.2 = 0)) then false
  else match readG1 C sig with
    | none => false
    | some s =>
      if byMsg then decide (P.e s (-P.g2) + (gm.map fun g => P.e g.1 g.2.sum).sum = 0)
      else decide (P.e s (-P.g2) + (gk.map fun g => P.e g.2.sum g.1).sum = 0)

/-- **the verdict is the pairing-product definition, for every grouping, order and back end** -/
theorem verifyManyCore_spec (C : Codec P) (entries : List (P.G1 × P.G2)) (sig : Bytes) (byMsg : Bool)
    (gm : List (P.G1 × List P.G2)) (gk : List (P.G2 × List P.G1))
    (hgm : (flattenByMsg gm).Perm entries) (hgk : (flattenByKey gk).Perm entries) :
    verifyManyCore C entries sig byMsg gm gk = true ↔
      (∀ x ∈ entries, x.2 ≠ 0) ∧ ∃ s : P.G1, sig = C.encode (P.ι s) ∧ P.e s P.g2 = pairingSum entries := by
  unfold verifyManyCore
  rw [sum_byMsg, sum_byKey, pairingSum_perm hgm, pairingSum_perm hgk]
  simp only [ite_self]
  constructor
  · intro h
    split at h; · cases h
    split at h; · cases h
    rename_i hl hid
    split at h; · cases h
    rename_i s hs
    simp only [decide_eq_true_eq] at h
    refine ⟨?_, s, (readG1_some_iff C sig s).1 hs, ?_⟩
    · intro x hx h0
      apply hid
      rw [List.any_eq_true]; exact ⟨x, hx, by simpa using h0⟩
    · rw [map_neg, neg_add_eq_zero] at h; exact h
  · rintro ⟨hid, s, rfl, he⟩
    rw [if_neg (by simpa using C.len _ _ (C.dec_enc _))]
    rw [if_neg (by
      rw [List.any_eq_true]; rintro ⟨x, hx, h0⟩; exact hid x hx (by simpa using h0))]
    rw [(readG1_some_iff C _ s).2 rfl]
    simp only [decide_eq_true_eq]
    rw [map_neg, neg_add_eq_zero]; exact he

/-- with `pk_i = sk_i • g2`: the only accepted string is `encode(Σ sk_i • h_i)` -/
theorem pairingSum_scalars (es : List (ZMod r × P.G1)) :
    pairingSum (es.map fun x => (x.2, x.1 • P.g2)) = P.e ((es.map fun x => x.1 • x.2).sum) P.g2 := by
  unfold pairingSum
  induction es with
  | nil => simp
  | cons a t ih =>
    simp only [List.map_cons, List.sum_cons, List.map_map] at ih ⊢
    rw [map_add, LinearMap.add_apply, ← ih]
    simp [map_smul]

/-- `VerifyBLSSignatureOneMessage`: aggregate the keys, then `Verify` -/
def verifyOneCore (C : Codec P) (pks : List P.G2) (sig : Bytes) (h : P.G1) : Except Err Bool :=
  match aggPK pks with
  | .error e => .error e
  | .ok pk => .ok (verifyCore C pk sig h)
