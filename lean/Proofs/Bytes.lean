import Model.Bytes
import Mathlib.Tactic.Ring

/-! Byte-string / number conversion lemmas (round trips, bounds). Core Lean only. -/

namespace Model

theorem natLE_length' (k n : Nat) : (natLE k n).length = k := by
  induction k generalizing n with
  | zero => rfl
  | succ k ih => simp [natLE, ih]

theorem natBE_length (k n : Nat) : (natBE k n).length = k := by
  simp [natBE, natLE_length']

theorem leNat_natLE' (k n : Nat) : leNat (natLE k n) = n % 256 ^ k := by
  induction k generalizing n with
  | zero => simp [natLE, leNat, Nat.mod_one]
  | succ k ih =>
    simp only [natLE, leNat, ih]
    have h1 : (UInt8.ofNat (n % 256)).toNat = n % 256 := by
      simp [UInt8.toNat_ofNat']
    rw [h1, Nat.pow_succ, Nat.mul_comm (256 ^ k) 256, Nat.mod_mul]

theorem leNat_lt (l : Bytes) : leNat l < 256 ^ l.length := by
  induction l with
  | nil => simp [leNat]
  | cons b t ih =>
    simp only [leNat, List.length_cons, Nat.pow_succ]
    have := b.toNat_lt
    omega

theorem natLE_leNat (l : Bytes) : natLE l.length (leNat l) = l := by
  induction l with
  | nil => rfl
  | cons b t ih =>
    simp only [List.length_cons, natLE, leNat]
    have hb := b.toNat_lt
    have h1 : (b.toNat + 256 * leNat t) % 256 = b.toNat := by omega
    have h2 : (b.toNat + 256 * leNat t) / 256 = leNat t := by omega
    rw [h1, h2, ih]
    simp

theorem beNat_foldl (l : Bytes) (acc : Nat) :
    l.foldl (fun acc b => acc * 256 + b.toNat) acc = acc * 256 ^ l.length + leNat l.reverse := by
  induction l generalizing acc with
  | nil => simp [leNat]
  | cons b t ih =>
    simp only [List.foldl_cons, List.length_cons, List.reverse_cons]
    rw [ih]
    have hrev : ∀ (u : Bytes) (x : UInt8), leNat (u ++ [x]) = leNat u + 256 ^ u.length * x.toNat := by
      intro u x
      induction u with
      | nil => simp [leNat]
      | cons c u ihu =>
        simp only [List.cons_append, leNat, ihu, List.length_cons, Nat.pow_succ]
        ring
    rw [hrev, List.length_reverse, Nat.pow_succ]
    ring

theorem beNat_eq (l : Bytes) : beNat l = leNat l.reverse := by
  unfold beNat
  rw [beNat_foldl]; simp

theorem beNat_lt (l : Bytes) : beNat l < 256 ^ l.length := by
  rw [beNat_eq]
  have := leNat_lt l.reverse
  simpa using this

/-- decoding then re-encoding big-endian bytes of the same length gives the bytes back -/
theorem natBE_beNat (l : Bytes) : natBE l.length (beNat l) = l := by
  unfold natBE
  rw [beNat_eq]
  have := natLE_leNat l.reverse
  rw [List.length_reverse] at this
  rw [this, List.reverse_reverse]

/-- encoding then decoding a number that fits gives the number back -/
theorem beNat_natBE (k n : Nat) : beNat (natBE k n) = n % 256 ^ k := by
  rw [beNat_eq]
  unfold natBE
  rw [List.reverse_reverse, leNat_natLE']

end Model
