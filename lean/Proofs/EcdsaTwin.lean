import Proofs.EcdsaExact

/-! The twin `(r, n - s)` of a signature the executable ECDSA model accepts is accepted as well (it is the signature with
the nonce `n - k`): malleability of ECDSA, stated for the model's byte-level verification. -/

namespace Proofs.EcdsaTwin
open Model Model.Curve Proofs.CurveGroup Proofs.CurveInst Proofs.EcdsaModel WeierstrassCurve.Affine

section neg
variable (p : ℕ) [Fact p.Prime] (a b : ℕ) (hΔ : (W p a b).Δ ≠ 0)

include hΔ in
/-- the point with the negated ordinate is the negative -/
theorem neg_point {x y : ℕ} (hv : Valid p a b (some (x, y))) :
    Valid p a b (some (x, Fp.neg p y)) ∧
      toPoint p a b (some (x, Fp.neg p y)) = - toPoint p a b (some (x, y)) := by
  have hns : (W p a b).Nonsingular (x : ZMod p) (y : ZMod p) :=
    ((W p a b).equation_iff_nonsingular_of_Δ_ne_zero hΔ).1 ((onCurve_iff p a b hv.1 hv.2.1).1 hv.2.2)
  have hneg : (W p a b).Nonsingular (x : ZMod p) ((Fp.neg p y : ℕ) : ZMod p) := by
    rw [c_neg, ← negY_eq p a b (x : ZMod p) (y : ZMod p)]
    exact (nonsingular_neg ..).2 hns
  have hlt : Fp.neg p y < p := by unfold Fp.neg; exact Nat.mod_lt _ (Fact.out : Nat.Prime p).pos
  refine ⟨⟨hv.1, hlt, (onCurve_iff p a b hv.1 hlt).2 hneg.1⟩, ?_⟩
  rw [toPoint_some p a b hneg, toPoint_some p a b hns, Point.neg_some]
  exact some_congr p a b hneg rfl (by rw [c_neg, negY_eq]) _

end neg

variable {S : Ecdsa.CurveSpec} {a b : ℕ} [Fact (Nat.Prime S.p)] [hn : Fact (Nat.Prime S.n)]

/-- the signature with nonce `n - k` is the twin of the signature with nonce `k` -/
theorem sign_twin (G : Good S a b) (d k : ℕ) (_hk0 : 0 < k) (hk : k < S.n) (h sig : Bytes)
    (hs : Ecdsa.signWith S d k h = some sig) :
    Ecdsa.signWith S d (S.n - k) h =
      some (natBE 32 (beNat (sig.take 32)) ++ natBE 32 (S.n - beNat (sig.drop 32))) := by
  have hn0 : 0 < S.n := by have := G.n2; omega
  have hn800 : S.n < 2 ^ 800 := lt_trans G.n256 (Nat.pow_lt_pow_right (by decide) (by decide))
  unfold Ecdsa.signWith at hs ⊢
  cases hR : Curve.mul S.C k S.g with
  | none => rw [hR] at hs; cases hs
  | some xy =>
    obtain ⟨x, y⟩ := xy
    rw [hR] at hs
    simp only [] at hs
    obtain ⟨r, hr⟩ : ∃ r, r = x % S.n := ⟨_, rfl⟩
    obtain ⟨e, he⟩ : ∃ e, e = beNat (h.take 32) := ⟨_, rfl⟩
    obtain ⟨s, hsd⟩ : ∃ s, s = powMod k (S.n - 2) S.n * ((e + r * d) % S.n) % S.n := ⟨_, rfl⟩
    rw [← hr, ← he, ← hsd] at hs
    by_cases hz : r = 0 ∨ s = 0
    · rw [if_pos hz] at hs; cases hs
    rw [if_neg hz] at hs
    have hsig : sig = natBE 32 r ++ natBE 32 s := (Option.some.inj hs).symm
    have hr0 : r ≠ 0 := fun h' => hz (Or.inl h')
    have hs0 : s ≠ 0 := fun h' => hz (Or.inr h')
    have hrn : r < S.n := by rw [hr]; exact Nat.mod_lt _ hn0
    have hsn : s < S.n := by rw [hsd]; exact Nat.mod_lt _ hn0
    have h256 : (256 : ℕ) ^ 32 = 2 ^ 256 := by norm_num
    have br : beNat (sig.take 32) = r := by
      rw [hsig, List.take_append_of_le_length (by rw [Model.natBE_length]),
        List.take_of_length_le (by rw [Model.natBE_length]), Model.beNat_natBE, h256,
        Nat.mod_eq_of_lt (lt_trans hrn G.n256)]
    have bs : beNat (sig.drop 32) = s := by
      rw [hsig, List.drop_append_of_le_length (by rw [Model.natBE_length]),
        List.drop_of_length_le (by rw [Model.natBE_length]), List.nil_append, Model.beNat_natBE, h256,
        Nat.mod_eq_of_lt (lt_trans hsn G.n256)]
    rw [br, bs]
    -- the ephemeral point of the nonce n - k
    have kR := mul_eq S.p a b G.hΔ G.h2 G.hb k (lt_trans hk hn800) S.g G.hg
    have kR' := mul_eq S.p a b G.hΔ G.h2 G.hb (S.n - k) (lt_of_le_of_lt (Nat.sub_le _ _) hn800) S.g G.hg
    rw [← G.hC] at kR kR'
    have e0 : S.n • toPoint S.p a b S.g = 0 := by
      have mn := mul_eq S.p a b G.hΔ G.h2 G.hb S.n hn800 S.g G.hg
      rw [← G.hC] at mn
      rw [← mn.2, G.hn]; rfl
    have vR : Valid S.p a b (some (x, y)) := by rw [← hR]; exact kR.1
    have np := neg_point S.p a b G.hΔ vR
    have hR' : Curve.mul S.C (S.n - k) S.g = some (x, Fp.neg S.p y) := by
      apply toPoint_inj S.p a b G.hΔ _ _ kR'.1 np.1
      rw [kR'.2, np.2, ← hR, kR.2]
      have : (S.n - k) • toPoint S.p a b S.g + k • toPoint S.p a b S.g = 0 := by
        rw [← add_nsmul, Nat.sub_add_cancel (le_of_lt hk), e0]
      exact eq_neg_of_add_eq_zero_left this
    rw [hR']
    simp only []
    rw [← hr, ← he]
    -- the scalar
    have ck : ((powMod k (S.n - 2) S.n : ℕ) : ZMod S.n) = (k : ZMod S.n)⁻¹ := Proofs.PowMod.powMod_inv S.n G.n2 hn800 k
    have ck' : ((powMod (S.n - k) (S.n - 2) S.n : ℕ) : ZMod S.n) = ((S.n - k : ℕ) : ZMod S.n)⁻¹ :=
      Proofs.PowMod.powMod_inv S.n G.n2 hn800 (S.n - k)
    have cnk : ((S.n - k : ℕ) : ZMod S.n) = -(k : ZMod S.n) := by
      rw [Nat.cast_sub (le_of_lt hk), ZMod.natCast_self, zero_sub]
    have hs' : powMod (S.n - k) (S.n - 2) S.n * ((e + r * d) % S.n) % S.n = S.n - s := by
      have hc : (((powMod (S.n - k) (S.n - 2) S.n * ((e + r * d) % S.n) % S.n : ℕ)) : ZMod S.n) =
          ((S.n - s : ℕ) : ZMod S.n) := by
        rw [ZMod.natCast_mod, Nat.cast_mul, ck', cnk, ZMod.natCast_mod, Nat.cast_sub (le_of_lt hsn), ZMod.natCast_self,
          zero_sub, hsd, ZMod.natCast_mod, Nat.cast_mul, ck, ZMod.natCast_mod, inv_neg]
        ring
      have := congrArg ZMod.val hc
      rw [ZMod.val_natCast, ZMod.val_natCast, Nat.mod_mod, Nat.mod_eq_of_lt (by omega : S.n - s < S.n)] at this
      exact this
    rw [hs', if_neg (by omega)]

/-- **the twin of an accepted signature is accepted** (executable model, both curves via `Good`) -/
theorem verify_twin (G : Good S a b) (d : ℕ) (hd : d < S.n) (h sig : Bytes) (Q : ℕ × ℕ)
    (hQ : Ecdsa.publicKeyOf S d = some Q) (hv : Ecdsa.verifyHash S Q h sig = true) :
    Ecdsa.verifyHash S Q h (natBE 32 (beNat (sig.take 32)) ++ natBE 32 (S.n - beNat (sig.drop 32))) = true := by
  obtain ⟨k, hk0, hk, hs⟩ := Proofs.EcdsaExact.verify_sign G d hd h sig Q hQ hv
  exact sign_verify G d (S.n - k) hd (by omega) h _ Q hQ (sign_twin G d k hk0 hk h sig hs)

end Proofs.EcdsaTwin
#print axioms Proofs.EcdsaTwin.verify_twin
