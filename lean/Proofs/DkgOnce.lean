import Proofs.DkgRounds

/-! The node broadcasts its own complaint at most once, whatever it receives and in whatever order
(the defect class F9: a second complaint would make every other honest participant flag an honest node). -/

namespace Proofs.DkgCommute
open Model Model.Dkg
variable {O : Ops}

/-- number of complaint broadcasts among the outputs of a call -/
def cnt (o : List Out) : Nat :=
  (o.filter (fun x => match x with | .bcast m => m.headD 0 == tagComplaint | _ => false)).length

/-- the node's complaint is out -/
def Compl (s : St O) : Prop := ∃ c, s.find s.me = some c ∧ c.received = true

theorem cnt_append (a b : List Out) : cnt (a ++ b) = cnt a + cnt b := by
  unfold cnt; rw [List.filter_append, List.length_append]

theorem bc_out (s : St O) :
    (Compl s → (FvssQ.buildComplaint s).2 = []) ∧ cnt (FvssQ.buildComplaint s).2 ≤ 1 ∧ Compl (FvssQ.buildComplaint s).1 := by
  have hme : (FvssQ.buildComplaint s).1.me = s.me := (bc_cfg s).1
  refine ⟨?_, ?_, ?_⟩
  · rintro ⟨c, hc, hr⟩
    unfold FvssQ.buildComplaint
    rw [hc]
    simp only [hr, if_true]
  · unfold FvssQ.buildComplaint
    cases s.find s.me with
    | none => simp [cnt, tagComplaint]
    | some c =>
      simp only []
      repeat' (first | split | (simp only []; split))
      all_goals simp [cnt, tagComplaint]
  · unfold Compl
    rw [hme, bc_eq]
    cases hf : s.find s.me with
    | none => exact ⟨fresh, by simp, rfl⟩
    | some c =>
      simp only []
      by_cases hr : c.received = true
      · rw [if_pos hr]; exact ⟨c, hf, hr⟩
      · rw [if_neg hr]
        refine ⟨recv c, ?_, rfl⟩
        repeat' (first | split | (simp only []; split))
        all_goals simp


theorem compl_congr (s t : St O) (h : Compl s) (h1 : t.me = s.me) (h2 : t.complaints = s.complaints) : Compl t := by
  obtain ⟨c, hc, hr⟩ := h
  refine ⟨c, ?_, hr⟩
  rw [h1]; unfold St.find; rw [h2]; exact hc

theorem compl_applyUpd_other (s : St O) (K : Nat) (u : Upd) (h : Compl s) (hK : s.me ≠ K) : Compl (applyUpd s K u) := by
  obtain ⟨c, hc, hr⟩ := h
  exact ⟨c, by rw [(applyUpd_vA s K u).2.2.1, find_applyUpd_other s s.me K u hK]; exact hc, hr⟩

theorem compl_interp (s : St O) (h : Compl s) (k : Kind) (ok : KOK s k) : Compl (interp s k) := by
  cases k with
  | noop => exact h
  | disq => exact compl_congr s _ h rfl rfl
  | cmpl k =>
    show Compl (rcOk s k)
    rw [rcOk_F]
    exact compl_applyUpd_other s k _ h (fun e => ok e.symm)
  | ans j sc =>
    show Compl (raOk s j sc)
    rw [raOk_F]
    by_cases hj : s.me = j
    · subst hj
      obtain ⟨c0, hc0, hr0⟩ := h
      unfold Compl
      rw [(applyUpd_vA s s.me _).2.2.1, find_applyUpd]
      have hu : ansF s.me sc s = raU (s.find s.me) s.vAReceived (s.checkComplaint s.me) s.disqualified
          (decide (s.me = s.me)) sc := rfl
      cases he : (ansF s.me sc s).entry with
      | none => exact ⟨c0, hc0, hr0⟩
      | some c' =>
        simp only [if_true]
        refine ⟨c', rfl, ?_⟩
        rw [hu, hc0] at he
        rw [raU_recv_some c0 _ _ _ _ _ c' he]; exact hr0
    · exact compl_applyUpd_other s j _ h hj
  | vec d =>
    show Compl (FvssQ.receiveVerifVector s s.dealer d).1
    by_cases hg : s.sharesTimeout = true ∨ s.vAReceived = true
    · rw [rv_noop s s.dealer rfl d hg]; exact h
    · have hst : s.sharesTimeout = false := by
        cases hh : s.sharesTimeout
        · rfl
        · exact absurd (Or.inl hh) hg
      have hv : s.vAReceived = false := by
        cases hh : s.vAReceived
        · rfl
        · exact absurd (Or.inr hh) hg
      rw [rv_eq s s.dealer rfl d hst hv]
      cases parseVec s d with
      | none => exact compl_congr s _ h rfl rfl
      | some v =>
        simp only []
        unfold rvOk
        split
        · exact compl_congr s _ h rfl rfl
        · split
          · split
            · exact (bc_out _).2.2
            · exact compl_congr s _ h rfl rfl
          · exact compl_congr s _ h rfl rfl
  | share sh =>
    show Compl (FvssQ.receiveShare s s.dealer sh).1
    by_cases hg : s.sharesTimeout = true ∨ s.xReceived = true
    · rw [rs_noop s s.dealer rfl sh hg]; exact h
    · have hst : s.sharesTimeout = false := by
        cases hh : s.sharesTimeout
        · rfl
        · exact absurd (Or.inl hh) hg
      have hx : s.xReceived = false := by
        cases hh : s.xReceived
        · rfl
        · exact absurd (Or.inr hh) hg
      rw [rs_eq s s.dealer rfl sh hst hx]
      cases parseShare O sh with
      | none => exact (bc_out _).2.2
      | some x =>
        simp only []
        unfold rsOk
        split
        · split
          · exact (bc_out _).2.2
          · exact compl_congr s _ h rfl rfl
        · exact compl_congr s _ h rfl rfl


/-- the three facts about the outputs `o` of a call that leads from `s` to `s'` -/
def OutOK (s : St O) (o : List Out) (s' : St O) : Prop :=
  cnt o ≤ 1 ∧ (Compl s → cnt o = 0) ∧ (cnt o = 1 → Compl s')

theorem outOK_quiet (s s' : St O) (o : List Out) (h : cnt o = 0) : OutOK s o s' :=
  ⟨by omega, fun _ => h, fun h1 => by omega⟩

theorem outOK_bc (s t : St O) (h1 : t.me = s.me) (h2 : t.complaints = s.complaints) (extra : List Out)
    (hx : cnt extra = 0) : OutOK s ((FvssQ.buildComplaint t).2 ++ extra) (FvssQ.buildComplaint t).1 := by
  have b := bc_out t
  refine ⟨by rw [cnt_append, hx]; exact b.2.1, ?_, fun _ => b.2.2⟩
  intro hc
  have : Compl t := compl_congr s t hc h1 h2
  rw [b.1 this]; simpa using hx

theorem outOK_bc' (s t : St O) (h1 : t.me = s.me) (h2 : t.complaints = s.complaints) :
    OutOK s (FvssQ.buildComplaint t).2 (FvssQ.buildComplaint t).1 := by
  have := outOK_bc s t h1 h2 [] rfl
  simpa using this

theorem out_rs (s : St O) (o : Nat) (d : Bytes) :
    OutOK s (FvssQ.receiveShare s o d).2 (FvssQ.receiveShare s o d).1 := by
  unfold FvssQ.receiveShare FvssQ.badShare
  repeat' (first | split | (simp only []; split))
  all_goals (try dsimp only)
  all_goals first
    | exact outOK_quiet _ _ _ rfl
    | (refine outOK_bc s _ ?_ ?_ _ ?_ <;> rfl)
    | (refine outOK_bc' s _ ?_ ?_ <;> rfl)

theorem out_rv (s : St O) (o : Nat) (d : Bytes) :
    OutOK s (FvssQ.receiveVerifVector s o d).2 (FvssQ.receiveVerifVector s o d).1 := by
  unfold FvssQ.receiveVerifVector
  repeat' (first | split | (simp only []; split))
  all_goals (try dsimp only)
  all_goals first
    | exact outOK_quiet _ _ _ rfl
    | (refine outOK_bc' s _ ?_ ?_ <;> rfl)

theorem out_rc (s : St O) (hme : s.me ≠ s.dealer) (o : Nat) (d : Bytes) :
    cnt (FvssQ.receiveComplaint s o d).2 = 0 := by
  unfold FvssQ.receiveComplaint FvssQ.buildAnswer
  repeat' (first | split | (simp only []; split))
  all_goals first
    | rfl
    | simp [cnt]
    | (exfalso; apply hme; assumption)

theorem out_ra (s : St O) (o : Nat) (d : Bytes) : cnt (FvssQ.receiveComplaintAnswer s o d).2 = 0 := by
  unfold FvssQ.receiveComplaintAnswer
  repeat' (first | split | (simp only []; split))
  all_goals first
    | rfl
    | simp [cnt]


def stepOut (s : St O) : Dl → List Out
  | .bcast o m => (FvssQ.bcastBody s o m).2
  | .priv o m => (FvssQ.privBody s o m).2

theorem out_step (s : St O) (hme : s.me ≠ s.dealer) (e : Dl) : OutOK s (stepOut s e) (step s e) := by
  cases e with
  | priv o m =>
    show OutOK s (FvssQ.privBody s o m).2 (FvssQ.privBody s o m).1
    unfold FvssQ.privBody
    split
    · exact outOK_quiet _ _ _ rfl
    · split
      · exact outOK_quiet _ _ _ rfl
      · exact out_rs s o m
  | bcast o m =>
    show OutOK s (FvssQ.bcastBody s o m).2 (FvssQ.bcastBody s o m).1
    unfold FvssQ.bcastBody
    split
    · exact outOK_quiet _ _ _ rfl
    · split
      · exact outOK_quiet _ _ _ rfl
      · simp only []
        split
        · exact outOK_quiet _ _ _ rfl
        · split
          · exact out_rv s o _
          · split
            · exact outOK_quiet _ _ _ (out_rc s hme o _)
            · split
              · exact outOK_quiet _ _ _ (out_ra s o _)
              · exact outOK_quiet _ _ _ rfl

theorem compl_step (s : St O) (hme : s.me ≠ s.dealer) (h : Compl s) (e : Dl) : Compl (step s e) := by
  rw [step_run s e hme]
  unfold run
  split
  · exact h
  · exact compl_interp s h _ (classify_src s e).2

theorem out_tstep (s : St O) : OutOK s (FvssQ.timeoutBody s).2 (tstep s) := by
  unfold tstep FvssQ.timeoutBody FvssQ.setSharesTimeout FvssQ.setComplaintsTimeout
  repeat' (first | split | (simp only []; split))
  all_goals (try dsimp only)
  all_goals first
    | exact outOK_quiet _ _ _ rfl
    | (refine outOK_bc' s _ ?_ ?_ <;> rfl)

theorem compl_tstep (s : St O) (h : Compl s) : Compl (tstep s) := by
  rw [tstep_eq]
  repeat' (first | split | (simp only []; split))
  all_goals first
    | exact compl_congr s _ h rfl rfl
    | exact (bc_out _).2.2

/-- an event at the participant: a delivery or a local timeout -/
inductive Ev
  | dl (e : Dl)
  | timeout

def evStep (s : St O) : Ev → St O
  | .dl e => step s e
  | .timeout => tstep s

def evOut (s : St O) : Ev → List Out
  | .dl e => stepOut s e
  | .timeout => (FvssQ.timeoutBody s).2

/-- all callbacks and messages produced along a sequence of events -/
def outputs (s : St O) : List Ev → List Out
  | [] => []
  | ev :: rest => evOut s ev ++ outputs (evStep s ev) rest

theorem evStep_cfg (s : St O) (hme : s.me ≠ s.dealer) (ev : Ev) : (evStep s ev).me ≠ (evStep s ev).dealer := by
  cases ev with
  | dl e =>
    show (step s e).me ≠ (step s e).dealer
    rw [step_run s e hme]
    have c := run_cfg s (classify s e)
    rw [c.1, c.2.1]; exact hme
  | timeout =>
    show (tstep s).me ≠ (tstep s).dealer
    rw [tstep_eq]
    repeat' (first | split | (simp only []; split))
    all_goals first
      | exact hme
      | (have c := bc_cfg (stFlag s); rw [c.1, c.2.1]; exact hme)

/-- **the participant broadcasts its complaint at most once**, for every sequence of deliveries and timeouts -/
theorem complaint_at_most_once (s : St O) (hme : s.me ≠ s.dealer) (evs : List Ev) :
    cnt (outputs s evs) ≤ 1 ∧ (Compl s → cnt (outputs s evs) = 0) := by
  induction evs generalizing s with
  | nil => exact ⟨by simp [outputs, cnt], fun _ => by simp [outputs, cnt]⟩
  | cons ev rest ih =>
    have hok : OutOK s (evOut s ev) (evStep s ev) := by
      cases ev with
      | dl e => exact out_step s hme e
      | timeout => exact out_tstep s
    have hc : Compl s → Compl (evStep s ev) := by
      intro h
      cases ev with
      | dl e => exact compl_step s hme h e
      | timeout => exact compl_tstep s h
    obtain ⟨r1, r2⟩ := ih (evStep s ev) (evStep_cfg s hme ev)
    obtain ⟨a1, a2, a3⟩ := hok
    simp only [outputs, cnt_append]
    refine ⟨?_, ?_⟩
    · by_cases h1 : cnt (evOut s ev) = 1
      · have := r2 (a3 h1); omega
      · omega
    · intro h
      have := a2 h
      have := r2 (hc h)
      omega

end Proofs.DkgCommute
