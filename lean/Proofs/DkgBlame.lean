import Proofs.DkgAgree

/-! No honest participant is ever blamed by another honest participant (Feldman-VSS-Qual, network level).

An honest participant `A` other than the dealer broadcasts one thing only, its complaint, at most once and never
after the second timeout (`emission_once`). Another honest participant `B` blames (flags or disqualifies) only the
sender of the message it is handling or the dealer (`step_noblame_other`), and handling `A`'s single complaint blames
nobody but possibly the dealer (`step_noblame_complaint`). Hence nothing `B` outputs during a whole execution
targets `A` (`run_noblame`), whatever the dealer and the others do and in whatever order messages arrive. -/

namespace Proofs.DkgAgree
open Model Model.Dkg Proofs.DkgCommute
variable {O : Ops}

/-- the callback blames participant `A` -/
def blames (A : Nat) : Out → Bool
  | .disq i => i == A
  | .flag i => i == A
  | _ => false

/-- no `Disqualify` / `FlagMisbehavior` callback among `outs` targets `A` -/
def NoBlame (A : Nat) (outs : List Out) : Prop := outs.all (fun o => !blames A o) = true

theorem NoBlame.nil (A : Nat) : NoBlame A [] := rfl

theorem NoBlame.append {A : Nat} {o1 o2 : List Out} (h1 : NoBlame A o1) (h2 : NoBlame A o2) : NoBlame A (o1 ++ o2) := by
  unfold NoBlame at *; simp [List.all_append, h1, h2]

theorem bc_noblame (s : St O) (A : Nat) (hA : A ≠ s.dealer) : NoBlame A (FvssQ.buildComplaint s).2 := by
  have h1 : (s.dealer == A) = false := by simpa using (Ne.symm hA)
  unfold FvssQ.buildComplaint St.setC
  repeat' (first | split | (simp only []; split))
  all_goals simp [NoBlame, blames, h1]

theorem rs_noblame (s : St O) (o : Nat) (d : Bytes) (A : Nat) (hA : A ≠ s.dealer) (ho : A ≠ o) :
    NoBlame A (FvssQ.receiveShare s o d).2 := by
  have h1 : (s.dealer == A) = false := by simpa using (Ne.symm hA)
  have h2 : (o == A) = false := by simpa using (Ne.symm ho)
  have hb : ∀ t : St O, t.dealer = s.dealer → NoBlame A (FvssQ.buildComplaint t).2 := by
    intro t ht; exact bc_noblame t A (by rw [ht]; exact hA)
  unfold FvssQ.receiveShare FvssQ.badShare
  repeat' (first | split | (simp only []; split))
  all_goals first
    | (simp [NoBlame, blames, h1, h2]; done)
    | exact hb _ rfl
    | exact NoBlame.append (hb _ rfl) (by simp [NoBlame, blames, h1, h2])

theorem rv_noblame (s : St O) (o : Nat) (d : Bytes) (A : Nat) (hA : A ≠ s.dealer) (ho : A ≠ o) :
    NoBlame A (FvssQ.receiveVerifVector s o d).2 := by
  have h1 : (s.dealer == A) = false := by simpa using (Ne.symm hA)
  have h2 : (o == A) = false := by simpa using (Ne.symm ho)
  have hb : ∀ t : St O, t.dealer = s.dealer → NoBlame A (FvssQ.buildComplaint t).2 := by
    intro t ht; exact bc_noblame t A (by rw [ht]; exact hA)
  unfold FvssQ.receiveVerifVector
  repeat' (first | split | (simp only []; split))
  all_goals first
    | (simp [NoBlame, blames, h1, h2]; done)
    | exact hb _ rfl

theorem rc_noblame (s : St O) (o : Nat) (d : Bytes) (A : Nat) (hA : A ≠ s.dealer) (ho : A ≠ o) :
    NoBlame A (FvssQ.receiveComplaint s o d).2 := by
  have h1 : (s.dealer == A) = false := by simpa using (Ne.symm hA)
  have h2 : (o == A) = false := by simpa using (Ne.symm ho)
  unfold FvssQ.receiveComplaint FvssQ.buildAnswer St.setC
  repeat' (first | split | (simp only []; split))
  all_goals (simp [NoBlame, blames, h1, h2])

theorem ra_noblame (s : St O) (o : Nat) (d : Bytes) (A : Nat) (hA : A ≠ s.dealer) (ho : A ≠ o) :
    NoBlame A (FvssQ.receiveComplaintAnswer s o d).2 := by
  have h1 : (s.dealer == A) = false := by simpa using (Ne.symm hA)
  have h2 : (o == A) = false := by simpa using (Ne.symm ho)
  unfold FvssQ.receiveComplaintAnswer St.setC
  repeat' (first | split | (simp only []; split))
  all_goals (simp [NoBlame, blames, h1, h2])

/-- **a delivery from `o` never blames a third participant `A`** (neither `o` nor the dealer) -/
theorem step_noblame_other (s : St O) (e : Dl) (A : Nat) (hA : A ≠ s.dealer) (ho : A ≠ e.sender) :
    NoBlame A (stepOuts s e) := by
  cases e with
  | bcast o m =>
    have ho' : A ≠ o := ho
    have h1 : (s.dealer == A) = false := by simpa using (Ne.symm hA)
    have h2 : (o == A) = false := by simpa using (Ne.symm ho')
    show NoBlame A (FvssQ.bcastBody s o m).2
    unfold FvssQ.bcastBody
    repeat' (first | split | (simp only []; split))
    all_goals first
      | (simp [NoBlame, blames, h1, h2]; done)
      | exact rv_noblame s o _ A hA ho'
      | exact rc_noblame s o _ A hA ho'
      | exact ra_noblame s o _ A hA ho'
  | priv o m =>
    have ho' : A ≠ o := ho
    show NoBlame A (FvssQ.privBody s o m).2
    unfold FvssQ.privBody
    repeat' (first | split | (simp only []; split))
    all_goals first
      | (simp [NoBlame, blames]; done)
      | exact rs_noblame s o _ A hA ho'

/-- a private message from a participant that is not the dealer is ignored -/
theorem priv_noblame_nondealer (s : St O) (A : Nat) (m : Bytes) (hA : A ≠ s.dealer) : NoBlame A (stepOuts s (.priv A m)) := by
  show NoBlame A (FvssQ.privBody s A m).2
  unfold FvssQ.privBody
  split
  · rfl
  · split
    · rfl
    · unfold FvssQ.receiveShare; rw [if_pos hA]; rfl

/-- the entry of participant `A` carries the `received` flag -/
def recvAt (s : St O) (A : Nat) : Bool := recvOf (s.find A)

/-- **the one complaint of `A`, delivered before the second timeout to a participant that had not yet received it,
    blames nobody but (possibly) the dealer** -/
theorem step_noblame_complaint (s : St O) (A : Nat) (hA : A ≠ s.dealer) (hme : s.me ≠ s.dealer)
    (hct : s.complaintsTimeout = false) (hr : recvAt s A = false) :
    NoBlame A (stepOuts s (zCmpl A s.dealer)) := by
  have h1 : (s.dealer == A) = false := by simpa using (Ne.symm hA)
  show NoBlame A (FvssQ.bcastBody s A (cmplMsg s.dealer)).2
  unfold FvssQ.bcastBody cmplMsg
  split
  · rfl
  · split
    · rfl
    · have e1 : ¬ ([tagComplaint, UInt8.ofNat s.dealer].length = 0) := by simp
      have e2 : ¬ (tagComplaint = tagVerifVec) := by decide
      simp only [List.headD_cons, List.drop_succ_cons, List.drop_zero]
      rw [if_neg e1, if_neg e2, if_pos trivial]
      unfold FvssQ.receiveComplaint
      rw [if_neg (by simp [hct])]
      simp only [List.length_singleton, ne_eq, not_true_eq_false, if_false, List.headD_cons]
      unfold recvAt at hr
      repeat' (first | split | (simp only []; split))
      all_goals first
        | (simp [NoBlame, blames, h1]; done)
        | (rename_i c hf hrc; rw [hf] at hr; exact absurd hr (by simpa [recvOf] using hrc))
        | skip
      all_goals simp_all [NoBlame, blames, recvOf, FvssQ.buildAnswer]


/-! ### the `received` flag of `A`'s entry changes only when `A`'s complaint is delivered -/

theorem recvAt_congr {s t : St O} (A : Nat) (h : t.complaints = s.complaints) : recvAt t A = recvAt s A := by
  unfold recvAt St.find; rw [h]

theorem recvAt_applyUpd_other (s : St O) (K : Nat) (u : Upd) (A : Nat) (h : A ≠ K) : recvAt (applyUpd s K u) A = recvAt s A := by
  unfold recvAt; rw [find_applyUpd_other s A K u h]

theorem recvAt_raOk (s : St O) (j : Nat) (v : Bool) (chk : Complaint → Bool) (d m : Bool) (sc : Option Nat) (A : Nat) :
    recvAt (applyUpd s j (raU (s.find j) v chk d m sc)) A = recvAt s A := by
  by_cases hj : A = j
  · subst hj
    unfold recvAt
    rw [find_applyUpd]
    cases he : (raU (s.find A) v chk d m sc).entry with
    | none => rfl
    | some c =>
      have hr := raU_recv _ _ _ _ _ _ c he
      simp only [if_true]
      exact hr
  · exact recvAt_applyUpd_other s j _ A hj

theorem recvAt_bc (t : St O) (A : Nat) (h : A ≠ t.me) : recvAt (FvssQ.buildComplaint t).1 A = recvAt t A := by
  rw [bc_upd]; exact recvAt_applyUpd_other t t.me _ A h

theorem recvAt_interp (s : St O) (k : Kind) (A : Nat) (hA : A ≠ s.me) (hk : k ≠ .cmpl A) :
    recvAt (interp s k) A = recvAt s A := by
  cases k with
  | noop => rfl
  | disq => exact recvAt_congr A rfl
  | cmpl k =>
    show recvAt (rcOk s k) A = _
    rw [rcOk_upd]
    exact recvAt_applyUpd_other s k _ A (fun h => hk (by rw [h]))
  | ans j sc =>
    show recvAt (raOk s j sc) A = _
    rw [raOk_upd]; exact recvAt_raOk s j _ _ _ _ sc A
  | vec d =>
    show recvAt (FvssQ.receiveVerifVector s s.dealer d).1 A = _
    by_cases hn : s.sharesTimeout = true ∨ s.vAReceived = true
    · rw [rv_noop s s.dealer rfl d hn]
    · have hst : s.sharesTimeout = false := by
        cases hs : s.sharesTimeout with
        | false => rfl
        | true => exact absurd (Or.inl hs) hn
      have hv : s.vAReceived = false := by
        cases hs : s.vAReceived with
        | false => rfl
        | true => exact absurd (Or.inr hs) hn
      rw [rv_eq s s.dealer rfl d hst hv]
      cases parseVec s d with
      | none => exact recvAt_congr A rfl
      | some v =>
        simp only []
        unfold rvOk
        split
        · exact recvAt_congr A rfl
        · split
          · split
            · rw [recvAt_bc (setVec s v) A hA]; exact recvAt_congr A rfl
            · exact recvAt_congr A rfl
          · exact recvAt_congr A rfl
  | share d =>
    show recvAt (FvssQ.receiveShare s s.dealer d).1 A = _
    by_cases hn : s.sharesTimeout = true ∨ s.xReceived = true
    · rw [rs_noop s s.dealer rfl d hn]
    · have hst : s.sharesTimeout = false := by
        cases hs : s.sharesTimeout with
        | false => rfl
        | true => exact absurd (Or.inl hs) hn
      have hx : s.xReceived = false := by
        cases hs : s.xReceived with
        | false => rfl
        | true => exact absurd (Or.inr hs) hn
      rw [rs_eq s s.dealer rfl d hst hx]
      cases parseShare O d with
      | none => simp only []; rw [recvAt_bc (markX s) A hA]; exact recvAt_congr A rfl
      | some x =>
        simp only []
        unfold rsOk
        split
        · split
          · rw [recvAt_bc (setX s x) A hA]; exact recvAt_congr A rfl
          · exact recvAt_congr A rfl
        · exact recvAt_congr A rfl

theorem classify_not_cmpl (s : St O) (e : Dl) (A : Nat) (h : e.chan ≠ (A, false)) : classify s e ≠ .cmpl A := by
  cases e with
  | priv o m =>
    show (if s.me = o then Kind.noop else if o = s.dealer then .share m else .noop) ≠ .cmpl A
    split
    · intro h'; cases h'
    · split <;> (intro h'; cases h')
  | bcast o m =>
    intro hc
    have : A = o := classifyB_cmpl s o m A hc
    apply h
    rw [this]; rfl

theorem recvAt_step_other (s : St O) (hme : s.me ≠ s.dealer) (e : Dl) (A : Nat) (hA : A ≠ s.me) (h : e.chan ≠ (A, false)) :
    recvAt (step s e) A = recvAt s A := by
  rw [step_run s e hme]
  unfold run
  split
  · rfl
  · exact recvAt_interp s _ A hA (classify_not_cmpl s e A h)

theorem recvAt_tstep (s : St O) (A : Nat) (hA : A ≠ s.me) : recvAt (tstep s) A = recvAt s A := by
  rw [tstep_eq]
  repeat' (first | split | (simp only []; split))
  all_goals first
    | exact recvAt_congr A rfl
    | (rw [recvAt_bc (stFlag s) A hA]; exact recvAt_congr A rfl)

/-! ### a whole round -/

/-- all callbacks and messages produced while the deliveries of a round are handled -/
def runOuts (s : St O) : List Dl → List Out
  | [] => []
  | e :: l => stepOuts s e ++ runOuts (step s e) l

theorem stream_cons_ne (e : Dl) (t : List Dl) (c : Nat × Bool) (h : e.chan ≠ c) : stream (e :: t) c = stream t c := by
  unfold stream
  rw [List.filter_cons]
  have : (e.chan == c) = false := by simpa using h
  simp [this]

theorem stream_cons_eq (e : Dl) (t : List Dl) (c : Nat × Bool) (h : e.chan = c) : stream (e :: t) c = e :: stream t c := by
  unfold stream
  rw [List.filter_cons]
  have : (e.chan == c) = true := by simpa using h
  simp [this]

/-- **one round at an honest participant `s` never blames the honest participant `A`**, if what `s` is delivered from
    `A` on the broadcast channel in this round is nothing, or `A`'s one complaint (not received before, and before the
    second timeout) -/
theorem run_noblame (s : St O) (inv : Inv s) (A : Nat) (hA : A ≠ s.dealer) (hAme : A ≠ s.me) (l : List Dl)
    (hl : stream l (A, false) = [] ∨
      (stream l (A, false) = [zCmpl A s.dealer] ∧ recvAt s A = false ∧ s.complaintsTimeout = false)) :
    NoBlame A (runOuts s l) ∧ (stream l (A, false) = [] → recvAt (runList s l) A = recvAt s A) := by
  induction l generalizing s with
  | nil => exact ⟨NoBlame.nil A, fun _ => rfl⟩
  | cons e t ih =>
    have c := step_cfg s inv.hme e
    have inv' := inv_step s inv e
    show NoBlame A (stepOuts s e ++ runOuts (step s e) t) ∧ (_ → recvAt (runList (step s e) t) A = _)
    by_cases hc : e.chan = (A, false)
    · -- this delivery is A's complaint
      rw [stream_cons_eq e t _ hc] at hl
      rcases hl with h0 | ⟨h1, hr, hct⟩
      · cases h0
      · have he : e = zCmpl A s.dealer := (List.cons.inj h1).1
        have ht : stream t (A, false) = [] := (List.cons.inj h1).2
        have r := ih (step s e) inv' (by rw [c.2.1]; exact hA) (by rw [c.1]; exact hAme) (Or.inl ht)
        refine ⟨NoBlame.append ?_ r.1, ?_⟩
        · rw [he]; exact step_noblame_complaint s A hA inv.hme hct hr
        · intro h; rw [stream_cons_eq e t _ hc] at h; cases h
    · rw [stream_cons_ne e t _ hc] at hl ⊢
      have hrec := recvAt_step_other s inv.hme e A hAme hc
      have hl' : stream t (A, false) = [] ∨ (stream t (A, false) = [zCmpl A (step s e).dealer] ∧
          recvAt (step s e) A = false ∧ (step s e).complaintsTimeout = false) := by
        rcases hl with h0 | ⟨h1, hr, hct⟩
        · exact Or.inl h0
        · exact Or.inr ⟨by rw [c.2.1]; exact h1, by rw [hrec]; exact hr, by rw [c.2.2.2.2.2.1]; exact hct⟩
      have r := ih (step s e) inv' (by rw [c.2.1]; exact hA) (by rw [c.1]; exact hAme) hl'
      refine ⟨NoBlame.append ?_ r.1, fun h => by rw [r.2 h, hrec]⟩
      -- the delivery itself: from another sender, or a private message of A
      by_cases hs : A = e.sender
      · cases e with
        | priv o m =>
          have : A = o := hs
          subst this
          exact priv_noblame_nondealer s A m hA
        | bcast o m =>
          exfalso; apply hc
          have : A = o := hs
          rw [this]; rfl
      · exact step_noblame_other s e A hA hs

theorem timeout_noblame (s : St O) (A : Nat) (hA : A ≠ s.dealer) : NoBlame A (FvssQ.timeoutBody s).2 ∧ NoBlame A (FvssQ.settle s).2 := by
  have h1 : (s.dealer == A) = false := by simpa using (Ne.symm hA)
  constructor
  · unfold FvssQ.timeoutBody FvssQ.setSharesTimeout FvssQ.setComplaintsTimeout
    repeat' (first | split | (simp only []; split))
    all_goals first
      | (simp [NoBlame, blames, h1]; done)
      | exact bc_noblame (O := O) { s with sharesTimeout := true } A hA
  · unfold FvssQ.settle
    split <;> simp [NoBlame, blames, h1]


/-! ### an honest participant broadcasts its complaint at most once, and never after the first timeout has passed -/

theorem ownRecv_iff_compl (s : St O) : ownRecv s = true ↔ Compl s := by
  unfold ownRecv Compl
  cases hf : s.find s.me with
  | none => simp [recvOf]
  | some c => simp [recvOf]

theorem ownRecv_mono_step (s : St O) (hme : s.me ≠ s.dealer) (e : Dl) (h : ownRecv s = true) : ownRecv (step s e) = true :=
  (ownRecv_iff_compl _).2 (compl_step s hme ((ownRecv_iff_compl s).1 h) e)

theorem ownRecv_mono_tstep (s : St O) (h : ownRecv s = true) : ownRecv (tstep s) = true :=
  (ownRecv_iff_compl _).2 (compl_tstep s ((ownRecv_iff_compl s).1 h))

theorem ownRecv_interp_pub (s : St O) (k : Kind) (ok : KOK s k) (h1 : ∀ d, k ≠ .vec d) (h2 : ∀ d, k ≠ .share d) :
    ownRecv (interp s k) = ownRecv s := by
  cases k with
  | noop => rfl
  | disq => exact ownRecv_congr rfl rfl
  | cmpl k =>
    have hk : k ≠ s.me := ok
    show ownRecv (rcOk s k) = _
    rw [rcOk_upd]; exact ownRecv_applyUpd_other s k _ (fun e => hk e.symm)
  | ans j sc =>
    show ownRecv (raOk s j sc) = _
    rw [raOk_upd]; exact ownRecv_raOk s j _ _ _ _ sc
  | vec d => exact absurd rfl (h1 d)
  | share d => exact absurd rfl (h2 d)

/-- after the first timeout no delivery makes the participant complain -/
theorem ownRecv_step_late (s : St O) (hme : s.me ≠ s.dealer) (e : Dl) (hst : s.sharesTimeout = true) :
    ownRecv (step s e) = ownRecv s := by
  rw [step_run s e hme]
  unfold run
  split
  · rfl
  · cases hk : classify s e with
    | vec d => show ownRecv (FvssQ.receiveVerifVector s s.dealer d).1 = _; rw [rv_noop s s.dealer rfl d (Or.inl hst)]
    | share d => show ownRecv (FvssQ.receiveShare s s.dealer d).1 = _; rw [rs_noop s s.dealer rfl d (Or.inl hst)]
    | noop => rfl
    | disq => exact ownRecv_congr rfl rfl
    | cmpl k =>
      have ok : KOK s (.cmpl k) := by have := (classify_src s e).2; rw [hk] at this; exact this
      exact ownRecv_interp_pub s _ ok (fun d h => by cases h) (fun d h => by cases h)
    | ans j sc => exact ownRecv_interp_pub s _ trivial (fun d h => by cases h) (fun d h => by cases h)

theorem ownRecv_runList_late (s : St O) (inv : Inv s) (l : List Dl) (hst : s.sharesTimeout = true) :
    ownRecv (runList s l) = ownRecv s := by
  induction l generalizing s with
  | nil => rfl
  | cons e t ih =>
    have c := step_cfg s inv.hme e
    show ownRecv (runList (step s e) t) = _
    rw [ih (step s e) (inv_step s inv e) (by rw [c.2.2.2.2.1]; exact hst), ownRecv_step_late s inv.hme e hst]

/-- what a participant broadcasts in a round: its complaint if the round made it complain, nothing otherwise -/
theorem roundOuts_eq (a : St O) (inv : Inv a) (l : List Dl) :
    roundOuts a l = if ownRecv a then [] else if ownRecv (runList a l) then [cmplMsg a.dealer] else [] := by
  induction l generalizing a with
  | nil =>
    show [] = if ownRecv a then [] else if ownRecv a then [cmplMsg a.dealer] else []
    cases ownRecv a <;> rfl
  | cons e t ih =>
    have c := step_cfg a inv.hme e
    have g : Good a (step a e, stepOuts a e) := step_good a inv.hme e
    unfold Good at g
    show bcasts (stepOuts a e) ++ roundOuts (step a e) t = if ownRecv a then [] else if ownRecv (runList (step a e) t) then _ else []
    rw [g, ih (step a e) (inv_step a inv e), c.2.1]
    by_cases h0 : ownRecv a = true
    · rw [h0, ownRecv_mono_step a inv.hme e h0]; rfl
    · have h0' : ownRecv a = false := by simpa using h0
      rw [h0']
      by_cases h1 : ownRecv (step a e) = true
      · have hm : ownRecv (runList (step a e) t) = true := by
          have : ∀ (s : St O) (_ : Inv s) (l : List Dl), ownRecv s = true → ownRecv (runList s l) = true := by
            intro s is l
            induction l generalizing s with
            | nil => exact fun h => h
            | cons x r ihr => exact fun h => ihr (step s x) (inv_step s is x) (ownRecv_mono_step s is.hme x h)
          exact this _ (inv_step a inv e) t h1
        rw [h1, hm]; rfl
      · have h1' : ownRecv (step a e) = false := by simpa using h1
        rw [h1']; rfl

theorem timeoutOuts_eq (a : St O) :
    timeoutOuts a = if ownRecv a then [] else if ownRecv (tstep a) then [cmplMsg a.dealer] else [] := by
  have g : Good a (tstep a, (FvssQ.timeoutBody a).2) := tstep_good a
  exact g

/-- **an honest participant broadcasts at most one message in the whole execution, its complaint, in the first round
    or at the first timeout (then it lands in the second round); nothing in the third round** -/
theorem emission_once (size threshold me dealer : Nat) (hne : me ≠ dealer) (r1 r2 r3 : List Dl) :
    bR3 (fresh O size threshold me dealer) r1 r2 r3 = [] ∧
    ((bR1 (fresh O size threshold me dealer) r1 = [] ∧ bR2 (fresh O size threshold me dealer) r1 r2 = []) ∨
     (bR1 (fresh O size threshold me dealer) r1 = [cmplMsg dealer] ∧ bR2 (fresh O size threshold me dealer) r1 r2 = []) ∨
     (bR1 (fresh O size threshold me dealer) r1 = [] ∧ bR2 (fresh O size threshold me dealer) r1 r2 = [cmplMsg dealer])) := by
  have i0 : Inv (fresh O size threshold me dealer) := inv_fresh size threshold me dealer hne
  have i1 := inv_runList _ i0 r1
  have j1 := inv_tstep _ i1
  have i2 := inv_runList _ j1 r2
  have j2 := inv_tstep _ i2
  have d1 : (runList (fresh O size threshold me dealer) r1).dealer = dealer := (runList_me _ i0 r1).2
  have d1' : (tstep (runList (fresh O size threshold me dealer) r1)).dealer = dealer := by rw [(tstep_me_size _).2.2, d1]
  have st1 : (tstep (runList (fresh O size threshold me dealer) r1)).sharesTimeout = true := tstep_st _
  have st2 : (runList (tstep (runList (fresh O size threshold me dealer) r1)) r2).sharesTimeout = true := by
    rw [(runList_st _ j1 r2).1]; exact st1
  have st2' : (tstep (runList (tstep (runList (fresh O size threshold me dealer) r1)) r2)).sharesTimeout = true := tstep_st _
  have o0 : ownRecv (fresh O size threshold me dealer) = false := rfl
  have late2 := ownRecv_runList_late _ j1 r2 st1
  have late3 := ownRecv_runList_late _ j2 r3 st2'
  -- the second timeout never builds a complaint
  have t2 : ownRecv (tstep (runList (tstep (runList (fresh O size threshold me dealer) r1)) r2)) =
      ownRecv (runList (tstep (runList (fresh O size threshold me dealer) r1)) r2) := by
    rw [tstep_eq]
    simp only [st2, Bool.not_true, Bool.false_eq_true, if_false]
    repeat' (first | split | (simp only []; split))
    all_goals exact ownRecv_congr rfl rfl
  unfold bR3 bR2 bR1
  rw [roundOuts_eq _ i0, roundOuts_eq _ j1, roundOuts_eq _ j2, timeoutOuts_eq, timeoutOuts_eq, late2, late3, t2, o0, d1, d1']
  cases h1 : ownRecv (runList (fresh O size threshold me dealer) r1) with
  | true =>
    have h1' := ownRecv_mono_tstep _ h1
    rw [h1']
    exact ⟨by simp, Or.inr (Or.inl ⟨rfl, by simp⟩)⟩
  | false =>
    cases h2 : ownRecv (tstep (runList (fresh O size threshold me dealer) r1)) with
    | true => exact ⟨by simp, Or.inr (Or.inr ⟨rfl, by simp [fresh]⟩)⟩
    | false => rw [h2] at late2; exact ⟨by simp [late2], Or.inl ⟨rfl, by simp [late2]⟩⟩


/-! ### the whole execution -/

/-- every callback and message an honest participant produces during the three rounds, the two timeouts and `End` -/
def allOuts (s : St O) (r1 r2 r3 : List Dl) : List Out :=
  runOuts s r1 ++ (FvssQ.timeoutBody (runList s r1)).2 ++
  runOuts (tstep (runList s r1)) r2 ++ (FvssQ.timeoutBody (runList (tstep (runList s r1)) r2)).2 ++
  runOuts (tstep (runList (tstep (runList s r1)) r2)) r3 ++ (FvssQ.settle (final s r1 r2 r3)).2

theorem tstep_ct_first (s : St O) (h1 : s.sharesTimeout = false) (h2 : s.complaintsTimeout = false) :
    (tstep s).complaintsTimeout = false := by
  rw [tstep_eq]
  have hb := bc_cfg (stFlag s)
  simp only [h1, Bool.not_false, if_true]
  repeat' (first | split | (simp only []; split))
  all_goals first | exact h2 | (rw [hb.2.2.2.2.2.1]; exact h2)

/-- **no honest participant is ever blamed by another honest participant**: in an execution of Feldman-VSS-Qual,
    nothing the honest participant `mb` outputs (`Disqualify` / `FlagMisbehavior` callbacks during the three rounds,
    the timeouts and `End`) targets the honest participant `ma`, whatever the dealer and everybody else send and in
    whatever order `mb` and `ma` are delivered their messages — provided only that what `mb` receives from `ma` on
    the broadcast channel in each round is what `ma` broadcast in that round (reliable broadcast, round synchrony) -/
theorem honest_never_blamed (size threshold dealer ma mb : Nat) (hmad : ma ≠ dealer) (hmbd : mb ≠ dealer) (hab : ma ≠ mb)
    (ra1 ra2 ra3 rb1 rb2 rb3 : List Dl)
    (n1 : stream rb1 (ma, false) = (bR1 (fresh O size threshold ma dealer) ra1).map (Dl.bcast ma))
    (n2 : stream rb2 (ma, false) = (bR2 (fresh O size threshold ma dealer) ra1 ra2).map (Dl.bcast ma))
    (n3 : stream rb3 (ma, false) = (bR3 (fresh O size threshold ma dealer) ra1 ra2 ra3).map (Dl.bcast ma)) :
    NoBlame ma (allOuts (fresh O size threshold mb dealer) rb1 rb2 rb3) := by
  obtain ⟨e3, e12⟩ := emission_once (O := O) size threshold ma dealer hmad ra1 ra2 ra3
  rw [e3] at n3
  have s0inv : Inv (fresh O size threshold mb dealer) := inv_fresh size threshold mb dealer hmbd
  have i1 := inv_runList _ s0inv rb1
  have j1 := inv_tstep _ i1
  have i2 := inv_runList _ j1 rb2
  have j2 := inv_tstep _ i2
  have me1 := runList_me _ s0inv rb1
  have me1' := tstep_me_size (runList (fresh O size threshold mb dealer) rb1)
  have me2 := runList_me _ j1 rb2
  have me2' := tstep_me_size (runList (tstep (runList (fresh O size threshold mb dealer) rb1)) rb2)
  have dl1 : (runList (fresh O size threshold mb dealer) rb1).dealer = dealer := me1.2
  have dl1' : (tstep (runList (fresh O size threshold mb dealer) rb1)).dealer = dealer := by rw [me1'.2.2, dl1]
  have dl2 : (runList (tstep (runList (fresh O size threshold mb dealer) rb1)) rb2).dealer = dealer := by rw [me2.2, dl1']
  have dl2' : (tstep (runList (tstep (runList (fresh O size threshold mb dealer) rb1)) rb2)).dealer = dealer := by
    rw [me2'.2.2, dl2]
  have mm1 : (runList (fresh O size threshold mb dealer) rb1).me = mb := me1.1
  have mm1' : (tstep (runList (fresh O size threshold mb dealer) rb1)).me = mb := by rw [me1'.1, mm1]
  have mm2 : (runList (tstep (runList (fresh O size threshold mb dealer) rb1)) rb2).me = mb := by rw [me2.1, mm1']
  have mm2' : (tstep (runList (tstep (runList (fresh O size threshold mb dealer) rb1)) rb2)).me = mb := by rw [me2'.1, mm2]
  have r0 : recvAt (fresh O size threshold mb dealer) ma = false := rfl
  -- the first timeout leaves the second-timeout flag unset
  have ct1 : (runList (fresh O size threshold mb dealer) rb1).complaintsTimeout = false := by
    have : ∀ (s : St O) (_ : Inv s) (l : List Dl), (runList s l).complaintsTimeout = s.complaintsTimeout := by
      intro s is l
      induction l generalizing s with
      | nil => rfl
      | cons x r ihr =>
        show (runList (step s x) r).complaintsTimeout = _
        rw [ihr (step s x) (inv_step s is x), (step_cfg s is.hme x).2.2.2.2.2.1]
    rw [this _ s0inv rb1]; rfl
  have st1 : (runList (fresh O size threshold mb dealer) rb1).sharesTimeout = false := by
    rw [(runList_st _ s0inv rb1).1]; rfl
  have ct1' := tstep_ct_first _ st1 ct1
  have hz : [cmplMsg dealer].map (Dl.bcast ma) = [zCmpl ma dealer] := rfl
  -- round 1
  have R1 := run_noblame (fresh O size threshold mb dealer) s0inv ma hmad hab rb1
  -- round 2
  have R2 := run_noblame (tstep (runList (fresh O size threshold mb dealer) rb1)) j1 ma (by rw [dl1']; exact hmad)
    (by rw [mm1']; exact hab) rb2
  -- round 3
  have R3 := run_noblame (tstep (runList (tstep (runList (fresh O size threshold mb dealer) rb1)) rb2)) j2 ma
    (by rw [dl2']; exact hmad) (by rw [mm2']; exact hab) rb3 (Or.inl n3)
  have T1 := timeout_noblame (runList (fresh O size threshold mb dealer) rb1) ma (by rw [dl1]; exact hmad)
  have T2 := timeout_noblame (runList (tstep (runList (fresh O size threshold mb dealer) rb1)) rb2) ma (by rw [dl2]; exact hmad)
  have dlf : (final (fresh O size threshold mb dealer) rb1 rb2 rb3).dealer = dealer := by
    unfold final; rw [(runList_me _ j2 rb3).2, dl2']
  have T3 := timeout_noblame (final (fresh O size threshold mb dealer) rb1 rb2 rb3) ma (by rw [dlf]; exact hmad)
  unfold allOuts
  rcases e12 with ⟨a1, a2⟩ | ⟨a1, a2⟩ | ⟨a1, a2⟩
  · rw [a1] at n1; rw [a2] at n2
    exact (((((R1 (Or.inl n1)).1.append T1.1).append (R2 (Or.inl n2)).1).append T2.1).append R3.1).append T3.2
  · rw [a1, hz] at n1; rw [a2] at n2
    exact (((((R1 (Or.inr ⟨n1, r0, rfl⟩)).1.append T1.1).append (R2 (Or.inl n2)).1).append T2.1).append R3.1).append T3.2
  · rw [a1] at n1; rw [a2, hz] at n2
    have rr1 : recvAt (runList (fresh O size threshold mb dealer) rb1) ma = false := by
      rw [(R1 (Or.inl n1)).2 n1]; exact r0
    have rr1' : recvAt (tstep (runList (fresh O size threshold mb dealer) rb1)) ma = false := by
      rw [recvAt_tstep _ ma (by rw [mm1]; exact hab)]; exact rr1
    exact (((((R1 (Or.inl n1)).1.append T1.1).append
      (R2 (Or.inr ⟨by rw [dl1']; exact n2, rr1', ct1'⟩)).1).append T2.1).append R3.1).append T3.2

end Proofs.DkgAgree
