import Proofs.BlsFeldman
import Proofs.E2Codec
import Proofs.Bytes

/-! The reader of the verification vector of the BLS crypto record accepts what its writer produces, and derives the
public key shares of the same polynomial: `readVec t size (vecBytes a) = some (vecOfPoly size a)` for every
polynomial `a` of `t + 1` coefficients (below `2^800`) - codec round trip of `E2`, subgroup membership of multiples of
`g2`, and the Feldman identity. -/

namespace Proofs.BlsLaws
open Model Model.Curve Proofs.CurveGroup2 Proofs.CurveInst2 Proofs.BlsFeldman

theorem writeE2_length (P : Bls.P2) : (Bls.writeE2 P).length = 96 := by
  cases P with
  | none => simp [Bls.writeE2, zeros]
  | some xy =>
    obtain ⟨x, y⟩ := xy
    have h : (natBE 48 x.1 ++ natBE 48 x.2).length = 96 := by
      rw [List.length_append, Model.natBE_length, Model.natBE_length]
    have e : Bls.writeE2 (some (x, y)) = match natBE 48 x.1 ++ natBE 48 x.2 with
        | [] => []
        | h :: t => (h ||| UInt8.ofNat (0x80 + 0x20 * Fp2.sign Bls.p y)) :: t := rfl
    rw [e]
    split
    · rename_i heq; rw [heq] at h; simp at h
    · rename_i hd tl heq; rw [heq] at h; simpa using h

/-- canonical points of the curve in the sense of the group bridge are the valid points of the codec -/
theorem codec_valid (P : Bls.P2) (h : Valid Bls.p (0, 0) (4, 4) P) : Proofs.E2Codec.Valid P := by
  intro x y hP
  subst hP
  obtain ⟨hx, hy, hc⟩ := h
  refine ⟨hx.1, hx.2, hy.1, hy.2, ?_⟩
  have hc' : (Fp2.mul Bls.p y y == Fp2.add Bls.p (Fp2.add Bls.p (Fp2.mul Bls.p (Fp2.mul Bls.p x x) x)
      (Fp2.mul Bls.p (0, 0) x)) (4, 4)) = true := hc
  rw [beq_iff_eq] at hc'
  rw [hc']
  unfold Proofs.E2Codec.rhs
  rw [← cast_inj Bls.p (lt_add Bls.p _ _) (lt_add Bls.p _ _), c_add, c_add, c_add, c_mul Bls.p (0, 0) x, c_zero]
  ring

theorem chunks_flatMap {α : Type} (enc : α → Bytes) (henc : ∀ x, (enc x).length = 96) :
    ∀ l : List α, Driver.Dkg.chunks 96 l.length (l.flatMap enc) = l.map enc
  | [] => rfl
  | x :: t => by
    show Driver.Dkg.chunks 96 (t.length + 1) (enc x ++ t.flatMap enc) = enc x :: t.map enc
    unfold Driver.Dkg.chunks
    rw [List.take_left' (henc x), List.drop_left' (henc x), chunks_flatMap enc henc t]

theorem mapM_map {α β γ : Type} (enc : α → β) (f : β → Option γ) (g : α → γ) :
    ∀ l : List α, (∀ x ∈ l, f (enc x) = some (g x)) → (l.map enc).mapM f = some (l.map g)
  | [], _ => rfl
  | x :: t, h => by
    rw [List.map_cons, List.mapM_cons, h x List.mem_cons_self,
      mapM_map enc f g t (fun y hy => h y (List.mem_cons_of_mem _ hy))]
    rfl

theorem gmulE (c : ℕ) (hc : c < 2 ^ 800) :
    Valid Bls.p (0, 0) (4, 4) (Curve.mul Bls.E2 c Bls.g2) ∧
      toPoint Bls.p (0, 0) (4, 4) (Curve.mul Bls.E2 c Bls.g2) = c • toPoint Bls.p (0, 0) (4, 4) Bls.g2 := by
  rw [bls_E2]; exact gmul c hc

theorem mul_none_of_annihilator (c : ℕ) (hc : c < 2 ^ 800) (k : ℕ) (hk : k < 2 ^ 800)
    (h0 : k • toPoint Bls.p (0, 0) (4, 4) Bls.g2 = 0) :
    Curve.mul Bls.E2 k (Curve.mul Bls.E2 c Bls.g2) = none := by
  have g := gmulE c hc
  have m := mul_eq Bls.p (0, 0) (4, 4) bls2_Δ bls2_two bls2_bits k hk _ g.1
  rw [← bls_E2] at m
  have vn : Valid Bls.p (0, 0) (4, 4) none := True.intro
  apply toPoint_inj Bls.p (0, 0) (4, 4) bls2_Δ _ _ m.1 vn
  rw [m.2, g.2, smul_smul, mul_comm, ← smul_smul, h0, nsmul_zero]
  rfl

theorem inG2_gmul (c : ℕ) (hc : c < 2 ^ 800) : Bls.inG2 (Curve.mul Bls.E2 c Bls.g2) = true := by
  have hr : Bls.r < 2 ^ 800 := by decide +kernel
  unfold Bls.inG2
  rw [mul_none_of_annihilator c hc Bls.r hr rG]
  rfl

/-- a multiple of `g2` is accepted by the reader of its own encoding, membership test included -/
theorem read_gmul (c : ℕ) (hc : c < 2 ^ 800) :
    (match Bls.readE2 (Bls.writeE2 (Curve.mul Bls.E2 c Bls.g2)) with
      | .ok P => if Bls.inG2 P then some P else none
      | .error _ => none) = some (Curve.mul Bls.E2 c Bls.g2) := by
  have g := gmulE c hc
  have rt : Bls.readE2 (Bls.writeE2 (Curve.mul Bls.E2 c Bls.g2)) = .ok (Curve.mul Bls.E2 c Bls.g2) :=
    Proofs.E2Codec.e2_roundtrip _ (codec_valid _ g.1)
  rw [rt]
  simp only []
  rw [if_pos (inG2_gmul c hc)]

/-- **the vector reader accepts the vector writer's output and derives the shares of the same polynomial** -/
theorem readVec_vecBytes (a : List ℕ) (ha : ∀ c ∈ a, c < 2 ^ 800) (t size : ℕ) (hlen : a.length = t + 1)
    (hs : size < 2 ^ 800) :
    Driver.Dkg.blsOps.readVec t size (Driver.Dkg.blsOps.vecBytes a) = some (Driver.Dkg.blsOps.vecOfPoly size a) := by
  show Driver.Dkg.readVec t size (a.flatMap fun c => Bls.writeE2 (Curve.mul Bls.E2 c Bls.g2)) = _
  unfold Driver.Dkg.readVec
  rw [← hlen, chunks_flatMap (fun c => Bls.writeE2 (Curve.mul Bls.E2 c Bls.g2)) (fun c => writeE2_length _) a]
  rw [mapM_map (fun c => Bls.writeE2 (Curve.mul Bls.E2 c Bls.g2)) _ (fun c => Curve.mul Bls.E2 c Bls.g2) a
    (fun c hc => read_gmul c (ha c hc))]
  cases a with
  | nil => simp at hlen
  | cons c0 rest =>
    simp only [Option.bind_eq_bind, Option.bind_some, List.map_cons, List.head?_cons, Option.pure_def]
    show some _ = some _
    congr 1
    show ({ a0 := _, ys := _ } : Driver.Dkg.Vec) = { a0 := _, ys := _ }
    congr 1
    apply List.map_congr_left
    intro i hi
    have hi' : i < size := List.mem_range.1 hi
    have := feldman (c0 :: rest) ha (i + 1) (by omega)
    rw [List.map_cons] at this
    exact this

end Proofs.BlsLaws
