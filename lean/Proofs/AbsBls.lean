import Mathlib.Data.ZMod.Basic
import Mathlib.Algebra.Module.LinearMap.Defs
import Mathlib.LinearAlgebra.BilinearMap
import Mathlib.Algebra.Field.ZMod

/-! Abstract pairing setting and the control flow of bls.go / bls_core.c over it.

The cryptographic setting is a *structure*, not an axiom: every theorem is universally quantified over
`PairingGroups r` (groups, bilinear non-degenerate pairing, the curve `E1` containing `G1` as the image of
`ι`), over the hash-to-curve function `H` and over a `Codec` carrying the codec laws. -/

abbrev Bytes := List UInt8

structure PairingGroups (r : ℕ) [Fact r.Prime] where
  E1 : Type
  G1 : Type
  G2 : Type
  GT : Type
  [instE1 : AddCommGroup E1] [instG1 : AddCommGroup G1] [instG2 : AddCommGroup G2] [instGT : AddCommGroup GT]
  [modG1 : Module (ZMod r) G1] [modG2 : Module (ZMod r) G2] [modGT : Module (ZMod r) GT]
  /-- inclusion of the prime-order subgroup into the curve -/
  ι : G1 →+ E1
  ι_inj : Function.Injective ι
  /-- `E1_in_G1` together with the pre-image it licenses -/
  toG1 : E1 → Option G1
  toG1_iff : ∀ x s, toG1 x = some s ↔ ι s = x
  e : G1 →ₗ[ZMod r] G2 →ₗ[ZMod r] GT
  g2 : G2
  nondeg_g2 : ∀ a : G1, e a g2 = 0 → a = 0
  [decG2 : DecidableEq G2] [decGT : DecidableEq GT]

attribute [instance] PairingGroups.instE1 PairingGroups.instG1 PairingGroups.instG2 PairingGroups.instGT
  PairingGroups.modG1 PairingGroups.modG2 PairingGroups.modGT PairingGroups.decG2 PairingGroups.decGT

variable {r : ℕ} [Fact r.Prime] (P : PairingGroups r)

/-- serialization of E1 points (`E1_read_bytes` / `E1_write_bytes`) with the laws C05 is about -/
structure Codec where
  decode : Bytes → Option P.E1
  encode : P.E1 → Bytes
  dec_enc : ∀ x, decode (encode x) = some x
  enc_dec : ∀ b x, decode b = some x → encode x = b
  len : ∀ b x, decode b = some x → b.length = 48

variable {P}

theorem PairingGroups.toG1_ι (s : P.G1) : P.toG1 (P.ι s) = some s := (P.toG1_iff _ _).2 rfl

theorem PairingGroups.g2_smul_ne_zero (hg : P.g2 ≠ 0) (sk : ZMod r) (hsk : sk ≠ 0) : sk • P.g2 ≠ 0 := by
  intro h0
  apply hg
  have : sk⁻¹ • (sk • P.g2) = P.g2 := by rw [smul_smul, inv_mul_cancel₀ hsk, one_smul]
  rw [← this, h0, smul_zero]

/-- the two-pairing check of `bls_verify`: e(s, -g2) · e(h, pk) = 1 -/
def pairingCheck (pk : P.G2) (s h : P.G1) : Bool :=
  decide (P.e s (-P.g2) + P.e h pk = 0)

theorem pairingCheck_iff (sk : ZMod r) (s h : P.G1) :
    pairingCheck (sk • P.g2) s h = true ↔ s = sk • h := by
  unfold pairingCheck
  simp only [decide_eq_true_eq]
  have : P.e s (-P.g2) + P.e h (sk • P.g2) = P.e (sk • h - s) P.g2 := by
    simp [map_neg, map_sub, map_smul, sub_eq_add_neg, add_comm]
  rw [this]
  constructor
  · intro h0
    have := P.nondeg_g2 _ h0
    exact (sub_eq_zero.1 this).symm
  · rintro rfl; simp

/-! ### bls.go: Sign / Verify -/

inductive Err | nilHasher | hasherSize | notBLSKey | emptyList | invalidInputs | invalidSignature
deriving DecidableEq, Repr

/-- a `hash.Hasher` as far as BLS uses it -/
structure Hasher where
  size : Nat
  compute : Bytes → Bytes

/-- `checkBLSHasher` -/
def checkHasher (h : Option Hasher) : Except Err Hasher :=
  match h with
  | none => .error .nilHasher
  | some h => if h.size ≠ 128 then .error .hasherSize else .ok h

/-- control flow of `pubKeyBLSBLS12381.Verify` + `bls_verify` once the hasher output is mapped to G1 by `H` -/
def verifyCore (C : Codec P) (pk : P.G2) (sig : Bytes) (h : P.G1) : Bool :=
  if sig.length ≠ 48 then false
  else if pk = 0 then false                      -- identity public key
  else match C.decode sig with                    -- E1_read_bytes
    | none => false
    | some x => match P.toG1 x with               -- E1_in_G1
      | none => false
      | some s => pairingCheck pk s h

def verify (C : Codec P) (H : Bytes → P.G1) (pk : P.G2) (sig data : Bytes) (hasher : Option Hasher) :
    Except Err Bool :=
  match checkHasher hasher with
  | .error e => .error e
  | .ok k => .ok (verifyCore C pk sig (H (k.compute data)))

def signCore (C : Codec P) (sk : ZMod r) (h : P.G1) : Bytes := C.encode (P.ι (sk • h))

def sign (C : Codec P) (H : Bytes → P.G1) (sk : ZMod r) (data : Bytes) (hasher : Option Hasher) :
    Except Err Bytes :=
  match checkHasher hasher with
  | .error e => .error e
  | .ok k => .ok (signCore C sk (H (k.compute data)))

/-- **the acceptance theorem**: under `sk • g2` with `sk ≠ 0`, exactly one byte string verifies -/
theorem verifyCore_iff (C : Codec P) (sk : ZMod r) (hsk : sk ≠ 0) (hg : P.g2 ≠ 0) (sig : Bytes) (h : P.G1) :
    verifyCore C (sk • P.g2) sig h = true ↔ sig = signCore C sk h := by
  have hpk := P.g2_smul_ne_zero hg sk hsk
  unfold verifyCore signCore
  by_cases hl : sig.length = 48
  · rw [if_neg (by simp [hl]), if_neg hpk]
    cases hdec : C.decode sig with
    | none =>
      simp only [Bool.false_eq_true, false_iff]
      intro h'
      rw [h', C.dec_enc] at hdec
      cases hdec
    | some x =>
      simp only
      cases hto : P.toG1 x with
      | none =>
        simp only [Bool.false_eq_true, false_iff]
        intro h'
        rw [h', C.dec_enc] at hdec
        have hx : x = P.ι (sk • h) := (Option.some.inj hdec).symm
        rw [hx, P.toG1_ι] at hto
        cases hto
      | some s =>
        simp only
        rw [pairingCheck_iff]
        have hs : P.ι s = x := (P.toG1_iff _ _).1 hto
        constructor
        · rintro rfl
          rw [hs]; exact (C.enc_dec _ _ hdec).symm
        · intro h'
          rw [h', C.dec_enc] at hdec
          have hx : P.ι (sk • h) = x := Option.some.inj hdec
          exact P.ι_inj (hs.trans hx.symm)
  · rw [if_pos (by simpa using hl)]
    simp only [Bool.false_eq_true, false_iff]
    intro h'
    exact hl (h' ▸ C.len _ _ (C.dec_enc _))

/-- verification under the identity key is false for every signature -/
theorem verifyCore_identity_key (C : Codec P) (sig : Bytes) (h : P.G1) : verifyCore C 0 sig h = false := by
  unfold verifyCore
  split
  · rfl
  · simp
