import Mathlib.Data.Finset.Card
import Mathlib.Data.Finset.Image
import Mathlib.Data.Nat.ModEq
import Mathlib.Tactic.Ring
import Mathlib.Tactic.Linarith
import Model.Prg
import Proofs.Bytes

/-! Counting lemmas behind "UintN is exactly uniform in the PRG's bits" (C15). -/

open Finset

/-- among the numbers `0 ≤ x < m*c`, exactly `c` are congruent to `v` modulo `m` — the same count for every residue -/
theorem card_mod_eq (m c v : ℕ) (hm : 0 < m) (hv : v < m) :
    ((range (m * c)).filter (fun x => x % m = v)).card = c := by
  have himg : (range (m * c)).filter (fun x => x % m = v) = (range c).image (fun q => m * q + v) := by
    ext x
    simp only [mem_filter, mem_range, mem_image]
    constructor
    · rintro ⟨hx, hmod⟩
      refine ⟨x / m, ?_, ?_⟩
      · exact Nat.div_lt_of_lt_mul hx
      · have := Nat.div_add_mod x m
        rw [hmod] at this; exact this
    · rintro ⟨q, hq, rfl⟩
      constructor
      · calc m * q + v < m * q + m := by omega
          _ = m * (q + 1) := by ring
          _ ≤ m * c := Nat.mul_le_mul_left m (by omega)
      · rw [Nat.mul_add_mod]; exact Nat.mod_eq_of_lt hv
  rw [himg, card_image_of_injective _ (by
    intro a b hab
    simp only at hab
    have : m * a = m * b := by omega
    exact Nat.eq_of_mul_eq_mul_left hm this), card_range]

namespace Model.Prg

/-- the value of one attempt of `UintN` as a function of the number read from the source -/
def attempt (k : Nat) (x : Nat) : Nat := x % 2 ^ k

/-- **one attempt is exactly uniform**: over the `256^size` equally likely values of the `size` source bytes,
    every candidate `v < 2^k` (`k ≤ 8·size` the bit length of `n-1`) is produced the same number of times,
    `2^(8·size - k)` -/
theorem attempt_uniform (size k v : ℕ) (hk : k ≤ 8 * size) (hv : v < 2 ^ k) :
    ((range (256 ^ size)).filter (fun x => attempt k x = v)).card = 2 ^ (8 * size - k) := by
  have h256 : (256 : ℕ) ^ size = 2 ^ k * 2 ^ (8 * size - k) := by
    rw [← pow_add, show (256 : ℕ) = 2 ^ 8 by norm_num, ← pow_mul]
    congr 1; omega
  rw [h256]
  exact card_mod_eq (2 ^ k) _ v (by positivity) hv

/-- in particular any two values in range are equally likely at every attempt, and so is "rejected" independent
    of which accepted value is considered: the first accepted attempt is uniform on `[0, n)` -/
theorem attempt_equiprobable (size k v v' : ℕ) (hk : k ≤ 8 * size) (hv : v < 2 ^ k) (hv' : v' < 2 ^ k) :
    ((range (256 ^ size)).filter (fun x => attempt k x = v)).card =
    ((range (256 ^ size)).filter (fun x => attempt k x = v')).card := by
  rw [attempt_uniform size k v hk hv, attempt_uniform size k v' hk hv']

/-- the bytes read are in bijection with the numbers below `256^size` (little-endian) -/
theorem bytes_numbers_bijection (size : ℕ) :
    (∀ b : Bytes, b.length = size → leNat b < 256 ^ size ∧ natLE size (leNat b) = b) ∧
    (∀ x < 256 ^ size, (natLE size x).length = size ∧ leNat (natLE size x) = x) := by
  constructor
  · intro b hb
    subst hb
    exact ⟨leNat_lt b, natLE_leNat b⟩
  · intro x hx
    exact ⟨natLE_length' size x, by rw [leNat_natLE']; exact Nat.mod_eq_of_lt hx⟩

end Model.Prg

namespace Model.Prg

theorem leNat_append (u v : Bytes) : leNat (u ++ v) = leNat u + 256 ^ u.length * leNat v := by
  induction u with
  | nil => simp [leNat]
  | cons c u ih =>
    simp only [List.cons_append, leNat, ih, List.length_cons, pow_succ]
    ring

/-- the mask loop returns `2^k - 1` for the bit length `k` of `max` -/
theorem maskOf_spec (max : Nat) : ∀ (fuel j : Nat), max < 2 ^ (j + fuel) → (j = 0 ∨ 2 ^ (j - 1) ≤ max) →
    ∃ k, maskOf fuel max (2 ^ j - 1) = 2 ^ k - 1 ∧ max < 2 ^ k ∧ (k = 0 ∨ 2 ^ (k - 1) ≤ max) ∧ k ≤ j + fuel := by
  intro fuel
  induction fuel with
  | zero =>
    intro j h hj
    exact ⟨j, rfl, by simpa using h, hj, by omega⟩
  | succ f ih =>
    intro j h hj
    unfold maskOf
    rw [Nat.and_two_pow_sub_one_eq_mod]
    by_cases hlt : max < 2 ^ j
    · rw [if_pos (Nat.mod_eq_of_lt hlt)]
      exact ⟨j, rfl, hlt, hj, by omega⟩
    · have hne : max % 2 ^ j ≠ max := by
        intro he
        have := Nat.mod_lt max (Nat.two_pow_pos j)
        omega
      rw [if_neg hne]
      have hm : (2 ^ j - 1) * 2 + 1 = 2 ^ (j + 1) - 1 := by
        have := Nat.two_pow_pos j
        rw [pow_succ]; omega
      rw [hm]
      obtain ⟨k, h1, h2, h3, h4⟩ := ih (j + 1) (by rw [show j + 1 + f = j + (f + 1) by omega]; exact h)
        (Or.inr (by simpa using Nat.le_of_not_lt hlt))
      exact ⟨k, h1, h2, h3, by omega⟩

/-- the byte-size loop returns enough bytes to hold `max` -/
theorem byteSize_spec : ∀ (fuel m : Nat), m < 256 ^ fuel → m < 256 ^ (byteSize fuel m) := by
  intro fuel
  induction fuel with
  | zero => intro m h; simpa [byteSize] using h
  | succ f ih =>
    intro m h
    unfold byteSize
    split
    · next h0 => subst h0; simp
    · next h0 =>
      have hd : m / 256 < 256 ^ f := by
        rw [Nat.div_lt_iff_lt_mul (by norm_num)]; rw [pow_succ] at h; exact h
      have := ih (m / 256) hd
      rw [show 1 + byteSize f (m / 256) = byteSize f (m / 256) + 1 by omega, pow_succ]
      have := Nat.div_add_mod m 256
      have := Nat.mod_lt m (by norm_num : 256 > 0)
      nlinarith

/-- **the stale bytes of the 8-byte scratch buffer never influence the value**: with `size` fresh bytes and a
    mask of `k ≤ 8·size` bits, the candidate is the fresh bytes' number modulo `2^k` -/
theorem candidate_eq (bytes stale : Bytes) (size k : Nat) (hl : bytes.length = size) (hk : k ≤ 8 * size) :
    leNat (bytes ++ stale) &&& (2 ^ k - 1) = attempt k (leNat bytes) := by
  rw [Nat.and_two_pow_sub_one_eq_mod, leNat_append, hl]
  unfold attempt
  have hdvd : 2 ^ k ∣ 256 ^ size := by
    rw [show (256 : ℕ) = 2 ^ 8 by norm_num, ← pow_mul]
    exact pow_dvd_pow 2 hk
  obtain ⟨c, hc⟩ := hdvd
  rw [hc, Nat.mul_assoc, Nat.add_mul_mod_self_left]

/-- parameters `UintN(n)` derives from `n`: a mask of `k` bits with `n - 1 < 2^k` and `k ≤ 8·size` -/
theorem uintN_params (n : Nat) (hn : 0 < n) (h64 : n - 1 < 2 ^ 64) :
    ∃ k, maskOf 65 (n - 1) 0 = 2 ^ k - 1 ∧ n - 1 < 2 ^ k ∧ k ≤ 8 * byteSize 9 (n - 1) := by
  obtain ⟨k, h1, h2, h3, _⟩ := maskOf_spec (n - 1) 65 0 (by simpa using lt_trans h64 (by norm_num)) (Or.inl rfl)
  refine ⟨k, by simpa using h1, h2, ?_⟩
  have hb := byteSize_spec 9 (n - 1) (lt_trans h64 (by norm_num))
  rcases h3 with rfl | h3
  · omega
  · have : 2 ^ (k - 1) < 2 ^ (8 * byteSize 9 (n - 1)) := by
      rw [show (256 : ℕ) = 2 ^ 8 by norm_num, ← pow_mul] at hb
      exact lt_of_le_of_lt h3 hb
    have := (Nat.pow_lt_pow_iff_right (by norm_num : 1 < 2)).1 this
    omega

end Model.Prg
