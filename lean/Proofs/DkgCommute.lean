import Proofs.DkgUpdates

/-! Order independence of message delivery at one honest non-dealer participant of Feldman-VSS-Qual
(`Model.Dkg.FvssQ`): two deliveries that the network may reorder (different senders, or the private and the
broadcast channel of one sender) lead to related states in either order — both disqualified (then every later
message is ignored and `End` fails), or the very same state. -/

namespace Proofs.DkgCommute
open Model Model.Dkg
variable {O : Ops}

/-- both disqualified, or the same state -/
def Rel (a b : St O) : Prop := (a.disqualified = true ∧ b.disqualified = true) ∨ a = b

theorem Rel.refl' (a : St O) : Rel a a := Or.inr rfl

/-! ### parsed events -/

def parseVec (s : St O) (data : Bytes) : Option O.Vec :=
  if data.length ≠ verifVectorSize * (s.threshold + 1) then none else O.readVec s.threshold s.size data

def parseShare (O : Ops) (data : Bytes) : Option Nat :=
  if data.length = 0 ∨ data.headD 0 ≠ tagShare then none
  else if (data.drop 1).length ≠ shareSize then none
  else O.readScalar (data.drop 1)

def entryBad (s : St O) (k : Nat) (c : Complaint) : Bool := c.received && c.answerReceived && s.checkComplaint k c

/-- some registered complaint has an answer that does not match the vector -/
def anyBad (s : St O) : Bool := s.complaints.any (fun kc => entryBad s kc.1 kc.2)

def othersBad (s : St O) (k : Nat) : Bool := (s.complaints.filter (·.1 != k)).any (fun kc => entryBad s kc.1 kc.2)

/-! ### the updates leave `find`, `checkComplaint`, … alone -/

section simp_lemmas
variable (s : St O) (v : O.Vec) (x a k : Nat) (b : Bool) (c : Complaint) (l : List (Nat × Complaint))

@[simp] theorem find_setVec : (setVec s v).find k = s.find k := rfl
@[simp] theorem find_vecBad : (vecBad s).find k = s.find k := rfl
@[simp] theorem find_markX : (markX s).find k = s.find k := rfl
@[simp] theorem find_setX : (setX s x).find k = s.find k := rfl
@[simp] theorem find_setDisq : (setDisq s b).find k = s.find k := rfl
@[simp] theorem find_adoptX : (adoptX s a).find k = s.find k := rfl

@[simp] theorem cc_setVec : (setVec s v).checkComplaint k c = !(O.checkLog v k c.answer) := rfl
@[simp] theorem cc_markX : (markX s).checkComplaint k c = s.checkComplaint k c := rfl
@[simp] theorem cc_setX : (setX s x).checkComplaint k c = s.checkComplaint k c := rfl
@[simp] theorem cc_setDisq : (setDisq s b).checkComplaint k c = s.checkComplaint k c := rfl
@[simp] theorem cc_adoptX : (adoptX s a).checkComplaint k c = s.checkComplaint k c := rfl
@[simp] theorem cc_setC (k' : Nat) (c' : Complaint) : (s.setC k' c').checkComplaint k c = s.checkComplaint k c := rfl

@[simp] theorem vs_setVec : (setVec s v).verifyShare = O.checkLog v s.me s.x := rfl
@[simp] theorem vs_setDisq : (setDisq s b).verifyShare = s.verifyShare := rfl
@[simp] theorem vs_markX : (markX s).verifyShare = s.verifyShare := rfl
@[simp] theorem vs_setC (k' : Nat) (c' : Complaint) : (s.setC k' c').verifyShare = s.verifyShare := rfl

@[simp] theorem eb_markX : entryBad (markX s) k c = entryBad s k c := rfl
@[simp] theorem eb_setX : entryBad (setX s x) k c = entryBad s k c := rfl
@[simp] theorem eb_setDisq : entryBad (setDisq s b) k c = entryBad s k c := rfl
@[simp] theorem eb_adoptX : entryBad (adoptX s a) k c = entryBad s k c := rfl
@[simp] theorem eb_setC (k' : Nat) (c' : Complaint) : entryBad (s.setC k' c') k c = entryBad s k c := rfl

@[simp] theorem ab_markX : anyBad (markX s) = anyBad s := rfl
@[simp] theorem ab_setX : anyBad (setX s x) = anyBad s := rfl
@[simp] theorem ab_setDisq : anyBad (setDisq s b) = anyBad s := rfl
@[simp] theorem ab_adoptX : anyBad (adoptX s a) = anyBad s := rfl
@[simp] theorem ob_markX : othersBad (markX s) k = othersBad s k := rfl
@[simp] theorem ob_setX : othersBad (setX s x) k = othersBad s k := rfl
@[simp] theorem ob_setDisq : othersBad (setDisq s b) k = othersBad s k := rfl
@[simp] theorem ob_adoptX : othersBad (adoptX s a) k = othersBad s k := rfl

end simp_lemmas

/-! ### the complaint table -/

/-- at most one entry per complainer -/
def KeysNodup (s : St O) : Prop := (s.complaints.map (·.1)).Nodup

theorem find_none_filter (l : List (Nat × Complaint)) (k : Nat)
    (h : l.find? (·.1 == k) = none) : l.filter (·.1 != k) = l := by
  induction l with
  | nil => rfl
  | cons a t ih =>
    simp only [List.find?_cons] at h
    split at h
    · cases h
    · rename_i hne
      simp only [List.filter_cons]
      have : (a.1 != k) = true := by simpa [bne] using hne
      rw [this, if_pos rfl, ih h]

theorem any_split (l : List (Nat × Complaint)) (k : Nat) (c : Complaint) (p : Nat × Complaint → Bool)
    (hn : (l.map (·.1)).Nodup) (h : l.find? (·.1 == k) = some (k, c)) :
    l.any p = (p (k, c) || (l.filter (·.1 != k)).any p) := by
  induction l with
  | nil => simp at h
  | cons a t ih =>
    simp only [List.find?_cons] at h
    simp only [List.map_cons, List.nodup_cons] at hn
    split at h
    · have ha : a = (k, c) := Option.some.inj h
      subst ha
      simp only [List.any_cons, List.filter_cons, bne_self_eq_false, Bool.false_eq_true, if_false]
      congr 1
      have : t.find? (·.1 == k) = none := by
        rw [List.find?_eq_none]
        intro x hx hk
        apply hn.1
        have : x.1 = k := by simpa using hk
        rw [← this]
        exact List.mem_map.2 ⟨x, hx, rfl⟩
      rw [find_none_filter t k this]
    · rename_i hne
      have hak : (a.1 != k) = true := by simpa [bne] using hne
      simp only [List.any_cons, List.filter_cons, hak, if_true]
      rw [ih hn.2 h]
      cases p a <;> cases p (k, c) <;> simp

theorem find_some_key (l : List (Nat × Complaint)) (k : Nat) (kc : Nat × Complaint)
    (h : l.find? (·.1 == k) = some kc) : kc.1 = k := by
  have := List.find?_some h
  simpa using this

theorem anyBad_find_none (s : St O) (k : Nat) (h : s.find k = none) : anyBad s = othersBad s k := by
  unfold anyBad othersBad
  have : s.complaints.find? (·.1 == k) = none := by
    unfold St.find at h
    cases hf : s.complaints.find? (·.1 == k) with
    | none => rfl
    | some x => rw [hf] at h; simp at h
  rw [find_none_filter _ _ this]

theorem anyBad_find_some (s : St O) (k : Nat) (c : Complaint) (hn : KeysNodup s) (h : s.find k = some c) :
    anyBad s = (entryBad s k c || othersBad s k) := by
  unfold anyBad othersBad
  unfold St.find at h
  cases hf : s.complaints.find? (·.1 == k) with
  | none => rw [hf] at h; simp at h
  | some kc =>
    rw [hf] at h
    have hc : kc.2 = c := by simpa using h
    have hk := find_some_key _ _ _ hf
    have : kc = (k, c) := Prod.ext hk hc
    rw [this] at hf
    rw [any_split _ k c _ hn hf]

@[simp] theorem anyBad_setC (s : St O) (k : Nat) (c : Complaint) :
    anyBad (s.setC k c) = (entryBad s k c || othersBad s k) := by
  unfold anyBad othersBad
  simp only [setC_complaints, List.any_cons]
  rfl

@[simp] theorem othersBad_setC (s : St O) (k : Nat) (c : Complaint) : othersBad (s.setC k c) k = othersBad s k := by
  unfold othersBad
  simp only [setC_complaints, List.filter_cons, bne_self_eq_false, Bool.false_eq_true, if_false, List.filter_filter,
    Bool.and_self]
  rfl

@[simp] theorem find_setC_same (s : St O) (k : Nat) (c : Complaint) : (s.setC k c).find k = some c := by
  unfold St.find
  simp

/-- `anyBad` / `othersBad` after the vector arrived: only the table and the vector matter -/
theorem anyBad_setVec_congr (s t : St O) (v : O.Vec) (h : s.complaints = t.complaints) :
    anyBad (setVec s v) = anyBad (setVec t v) := by
  unfold anyBad entryBad
  simp only [setVec_complaints, cc_setVec, h]

theorem othersBad_setVec_congr (s t : St O) (v : O.Vec) (k : Nat) (h : s.complaints = t.complaints) :
    othersBad (setVec s v) k = othersBad (setVec t v) k := by
  unfold othersBad entryBad
  simp only [setVec_complaints, cc_setVec, h]

theorem entryBad_setVec (s : St O) (v : O.Vec) (k : Nat) (c : Complaint) :
    entryBad (setVec s v) k c = (c.received && c.answerReceived && !(O.checkLog v k c.answer)) := rfl


/-! ### effect of each handler, explicitly -/

/-- own complaint entry once `received` is set -/
def recv (c : Complaint) : Complaint := { c with received := true }

def fresh : Complaint := { received := true, answerReceived := false }

theorem bc_eq (s : St O) : (FvssQ.buildComplaint s).1 =
    match s.find s.me with
    | none => s.setC s.me fresh
    | some c =>
      if c.received then s
      else if c.answerReceived then
        if s.vAReceived ∧ s.vA.isSome then
          if s.checkComplaint s.me (recv c) then setDisq (s.setC s.me (recv c)) true
          else adoptX (setDisq (s.setC s.me (recv c)) false) c.answer
        else adoptX (s.setC s.me (recv c)) c.answer
      else s.setC s.me (recv c) := by
  unfold FvssQ.buildComplaint recv setDisq adoptX
  cases hf : s.find s.me with
  | none => rfl
  | some c =>
    obtain ⟨r, ar, ans⟩ := c
    cases r <;> cases ar <;> simp only [Bool.false_eq_true, if_false, if_true]
    by_cases h3 : s.vAReceived = true ∧ s.vA.isSome = true
    · have h3' : (s.setC s.me { received := true, answerReceived := true, answer := ans }).vAReceived = true ∧
          ((s.setC s.me { received := true, answerReceived := true, answer := ans }).vA.isSome = true) := h3
      rw [if_pos h3, if_pos h3']
      by_cases hc : s.checkComplaint s.me { received := true, answerReceived := true, answer := ans } = true
      · have hc' : (s.setC s.me { received := true, answerReceived := true, answer := ans }).checkComplaint
            (s.setC s.me { received := true, answerReceived := true, answer := ans }).me
            { received := true, answerReceived := true, answer := ans } = true := hc
        rw [if_pos hc, if_pos hc']
      · have hc' : ¬ (s.setC s.me { received := true, answerReceived := true, answer := ans }).checkComplaint
            (s.setC s.me { received := true, answerReceived := true, answer := ans }).me
            { received := true, answerReceived := true, answer := ans } = true := hc
        rw [if_neg hc, if_neg hc']
    · have h3' : ¬ ((s.setC s.me { received := true, answerReceived := true, answer := ans }).vAReceived = true ∧
          ((s.setC s.me { received := true, answerReceived := true, answer := ans }).vA.isSome = true)) := h3
      rw [if_neg h3, if_neg h3']

/-- effect of a well-formed vector on a state that awaits one -/
def rvOk (s : St O) (v : O.Vec) : St O :=
  if anyBad (setVec s v) then setDisq (setVec s v) true
  else if s.xReceived then (if !(setVec s v).verifyShare then (FvssQ.buildComplaint (setVec s v)).1 else setVec s v)
  else setVec s v

theorem rv_eq (s : St O) (d : Nat) (hd : d = s.dealer) (data : Bytes) (hst : s.sharesTimeout = false)
    (hv : s.vAReceived = false) :
    (FvssQ.receiveVerifVector s d data).1 =
      match parseVec s data with
      | none => vecBad s
      | some v => rvOk s v := by
  subst hd
  unfold FvssQ.receiveVerifVector parseVec rvOk anyBad entryBad setVec setDisq vecBad
  simp only [ne_eq, not_true_eq_false, if_false, hst, hv, Bool.false_eq_true]
  by_cases hl : data.length = verifVectorSize * (s.threshold + 1)
  · simp only [hl, not_true_eq_false, if_false]
    cases hr : O.readVec s.threshold s.size data with
    | none => rfl
    | some v =>
      simp only []
      split
      · rfl
      · split
        · split <;> rfl
        · rfl
  · simp only [hl, not_false_eq_true, if_true]

/-- effect of a well-formed share on a state that awaits one -/
def rsOk (s : St O) (x : Nat) : St O :=
  if s.vAReceived then (if !(setX s x).verifyShare then (FvssQ.buildComplaint (setX s x)).1 else setX s x) else setX s x

theorem rs_eq (s : St O) (d : Nat) (hd : d = s.dealer) (data : Bytes) (hst : s.sharesTimeout = false)
    (hx : s.xReceived = false) :
    (FvssQ.receiveShare s d data).1 =
      match parseShare O data with
      | none => (FvssQ.buildComplaint (markX s)).1
      | some x => rsOk s x := by
  subst hd
  unfold FvssQ.receiveShare parseShare rsOk FvssQ.badShare setX markX
  simp only [ne_eq, not_true_eq_false, if_false, hst, hx, Bool.false_eq_true]
  by_cases h1 : data.length = 0 ∨ ¬ data.headD 0 = tagShare
  · simp only [h1, if_true]
  · simp only [h1, if_false]
    by_cases h2 : (data.drop 1).length = shareSize
    · simp only [h2, not_true_eq_false, if_false]
      cases hr : O.readScalar (data.drop 1) with
      | none => rfl
      | some x =>
        simp only []
        split
        · split <;> rfl
        · rfl
    · simp only [h2, not_false_eq_true, if_true]

/-! ### frames: what a handler never changes -/

def SameCfg (s t : St O) : Prop :=
  t.me = s.me ∧ t.dealer = s.dealer ∧ t.size = s.size ∧ t.threshold = s.threshold ∧
  t.sharesTimeout = s.sharesTimeout ∧ t.complaintsTimeout = s.complaintsTimeout ∧ t.running = s.running

theorem SameCfg.rfl' (s : St O) : SameCfg s s := ⟨rfl, rfl, rfl, rfl, rfl, rfl, rfl⟩
theorem SameCfg.trans {s t u : St O} (h1 : SameCfg s t) (h2 : SameCfg t u) : SameCfg s u := by
  obtain ⟨a1, a2, a3, a4, a5, a6, a7⟩ := h1
  obtain ⟨b1, b2, b3, b4, b5, b6, b7⟩ := h2
  exact ⟨b1.trans a1, b2.trans a2, b3.trans a3, b4.trans a4, b5.trans a5, b6.trans a6, b7.trans a7⟩

theorem bc_cfg (s : St O) : SameCfg s (FvssQ.buildComplaint s).1 := by
  unfold FvssQ.buildComplaint SameCfg
  repeat' (first | split | (simp only []; split))
  all_goals simp [St.setC]

theorem bc_keeps (s : St O) : (FvssQ.buildComplaint s).1.vA = s.vA ∧ (FvssQ.buildComplaint s).1.vAReceived = s.vAReceived ∧
    (FvssQ.buildComplaint s).1.xReceived = s.xReceived := by
  unfold FvssQ.buildComplaint
  repeat' (first | split | (simp only []; split))
  all_goals simp [St.setC]

theorem rs_cfg (s : St O) (o : Nat) (d : Bytes) : SameCfg s (FvssQ.receiveShare s o d).1 := by
  unfold FvssQ.receiveShare FvssQ.badShare
  repeat' (first | split | (simp only []; split))
  all_goals first
    | exact SameCfg.rfl' s
    | exact SameCfg.trans ⟨rfl, rfl, rfl, rfl, rfl, rfl, rfl⟩ (bc_cfg _)
    | exact ⟨rfl, rfl, rfl, rfl, rfl, rfl, rfl⟩

theorem rs_keeps (s : St O) (o : Nat) (d : Bytes) :
    (FvssQ.receiveShare s o d).1.vA = s.vA ∧ (FvssQ.receiveShare s o d).1.vAReceived = s.vAReceived := by
  unfold FvssQ.receiveShare FvssQ.badShare
  repeat' (first | split | (simp only []; split))
  all_goals first
    | exact ⟨rfl, rfl⟩
    | exact ⟨(bc_keeps _).1, (bc_keeps _).2.1⟩

theorem rv_cfg (s : St O) (o : Nat) (d : Bytes) : SameCfg s (FvssQ.receiveVerifVector s o d).1 := by
  unfold FvssQ.receiveVerifVector
  repeat' (first | split | (simp only []; split))
  all_goals first
    | exact SameCfg.rfl' s
    | exact SameCfg.trans ⟨rfl, rfl, rfl, rfl, rfl, rfl, rfl⟩ (bc_cfg _)
    | exact ⟨rfl, rfl, rfl, rfl, rfl, rfl, rfl⟩

theorem rv_keeps (s : St O) (o : Nat) (d : Bytes) : (FvssQ.receiveVerifVector s o d).1.xReceived = s.xReceived := by
  unfold FvssQ.receiveVerifVector
  repeat' (first | split | (simp only []; split))
  all_goals first
    | rfl
    | exact (bc_keeps _).2.2

theorem parseVec_cfg (s t : St O) (h : SameCfg s t) (vec : Bytes) : parseVec t vec = parseVec s vec := by
  unfold parseVec; rw [h.2.2.1, h.2.2.2.1]

/-! ### message bodies on a non-dealer -/

theorem priv_eq (s : St O) (d : Nat) (hd : d = s.dealer) (hme : s.me ≠ s.dealer) (sh : Bytes) :
    (FvssQ.privBody s d sh).1 = if s.disqualified then s else (FvssQ.receiveShare s d sh).1 := by
  subst hd
  unfold FvssQ.privBody
  rw [if_neg hme]
  split <;> rfl

theorem bvec_eq (s : St O) (d : Nat) (hd : d = s.dealer) (hme : s.me ≠ s.dealer) (vec : Bytes) :
    (FvssQ.bcastBody s d (tagVerifVec :: vec)).1 =
      if s.disqualified then s else (FvssQ.receiveVerifVector s d vec).1 := by
  subst hd
  unfold FvssQ.bcastBody
  rw [if_neg hme]
  split
  · rfl
  · simp [tagVerifVec]

theorem rs_noop (s : St O) (d : Nat) (hd : d = s.dealer) (sh : Bytes) (h : s.sharesTimeout = true ∨ s.xReceived = true) :
    (FvssQ.receiveShare s d sh).1 = s := by
  subst hd
  unfold FvssQ.receiveShare
  rcases h with h | h
  · simp [h]
  · by_cases h2 : s.sharesTimeout = true <;> simp [h, h2]

theorem rv_noop (s : St O) (d : Nat) (hd : d = s.dealer) (vec : Bytes) (h : s.sharesTimeout = true ∨ s.vAReceived = true) :
    (FvssQ.receiveVerifVector s d vec).1 = s := by
  subst hd
  unfold FvssQ.receiveVerifVector
  rcases h with h | h
  · simp [h]
  · by_cases h2 : s.sharesTimeout = true <;> simp [h, h2]

theorem bc_received (s : St O) (c : Complaint) (h : s.find s.me = some c) (hr : c.received = true) :
    (FvssQ.buildComplaint s).1 = s := by
  rw [bc_eq, h]
  simp only [hr, if_true]


/-! ### share and verification vector in either order (the F9 class) -/

theorem rvOk_noX (s : St O) (v : O.Vec) (hx : s.xReceived = false) :
    rvOk s v = if anyBad (setVec s v) then setDisq (setVec s v) true else setVec s v := by
  unfold rvOk
  simp only [hx, Bool.false_eq_true, if_false]

theorem rvOk_X (s : St O) (v : O.Vec) (hx : s.xReceived = true) :
    rvOk s v = if anyBad (setVec s v) then setDisq (setVec s v) true
      else if !(O.checkLog v s.me s.x) then (FvssQ.buildComplaint (setVec s v)).1 else setVec s v := by
  unfold rvOk
  simp only [hx, if_true, vs_setVec]
  rfl

theorem rsOk_noV (s : St O) (x : Nat) (hv : s.vAReceived = false) : rsOk s x = setX s x := by
  unfold rsOk
  simp only [hv, Bool.false_eq_true, if_false]

/-- the own-complaint entry does not count as bad before it is `received`; afterwards it counts iff answered wrongly -/
theorem anyBad_own (s : St O) (v : O.Vec) (hn : KeysNodup s) :
    anyBad (setVec s v) =
      ((match s.find s.me with | some c => entryBad (setVec s v) s.me c | none => false) || othersBad (setVec s v) s.me) := by
  cases hf : s.find s.me with
  | none =>
    simp only [Bool.false_or]
    exact anyBad_find_none (setVec s v) s.me hf
  | some c =>
    simp only []
    exact anyBad_find_some (setVec s v) s.me c hn hf

/-- main case: the node awaits both the share and the vector; the share is malformed -/
theorem bad_share_vector (s : St O) (v : O.Vec) (hn : KeysNodup s) (hdq : s.disqualified = false)
    (hx : s.xReceived = false) (hv : s.vAReceived = false) :
    Rel (if (rvOk s v).disqualified then rvOk s v else (FvssQ.buildComplaint (markX (rvOk s v))).1)
        (if (FvssQ.buildComplaint (markX s)).1.disqualified then (FvssQ.buildComplaint (markX s)).1
         else rvOk (FvssQ.buildComplaint (markX s)).1 v) := by
  rw [rvOk_noX s v hx]
  have hown := anyBad_own s v hn
  -- the table entry of the node itself decides the shape of both sides
  cases hf : s.find s.me with
  | none =>
    have hP : (FvssQ.buildComplaint (markX s)).1 = (markX s).setC s.me fresh := by
      rw [bc_eq]; simp only [markX_me, find_markX, hf]
    rw [hP]
    simp only [hf, Bool.false_or] at hown
    have hab : anyBad (setVec ((markX s).setC s.me fresh) v) = othersBad (setVec s v) s.me := by
      have : anyBad (setVec ((markX s).setC s.me fresh) v) = anyBad ((setVec s v).setC s.me fresh) :=
        anyBad_setVec_congr _ _ v rfl |>.trans (by rfl)
      rw [this, anyBad_setC]
      simp [entryBad, fresh]
    by_cases hb : othersBad (setVec s v) s.me = true
    · left
      rw [hown, hb]
      simp only [if_true, setDisq_disqualified, setC_disqualified, markX_disqualified, hdq, Bool.false_eq_true, if_false]
      refine ⟨trivial, ?_⟩
      rw [rvOk_X _ v (by simp), hab, hb]
      simp
    · right
      rw [hown]
      simp only [hb, Bool.false_eq_true, if_false, setVec_disqualified, hdq, setC_disqualified, markX_disqualified]
      rw [rvOk_X _ v (by simp), hab]
      simp only [hb, Bool.false_eq_true, if_false]
      have hA : (FvssQ.buildComplaint (markX (setVec s v))).1 = (markX (setVec s v)).setC s.me fresh := by
        rw [bc_eq]; simp only [markX_me, setVec_me, find_markX, find_setVec, hf]
      have hrec : (FvssQ.buildComplaint (setVec ((markX s).setC s.me fresh) v)).1 = setVec ((markX s).setC s.me fresh) v :=
        bc_received _ fresh (by simp) rfl
      rw [hA, hrec]
      split <;> (apply St.ext' <;> simp)
  | some c =>
    simp only [hf] at hown
    have hcongr : ∀ (c' : Complaint) (t : St O), t.complaints = ((markX s).setC s.me c').complaints →
        anyBad (setVec t v) = (entryBad (setVec s v) s.me c' || othersBad (setVec s v) s.me) := by
      intro c' t ht
      have : anyBad (setVec t v) = anyBad ((setVec s v).setC s.me c') := by
        unfold anyBad entryBad
        simp only [setVec_complaints, cc_setVec, ht, setC_complaints, markX_complaints, cc_setC]
      rw [this, anyBad_setC]
    by_cases hr : c.received = true
    · -- already complained: the malformed share changes nothing but `xReceived`
      have hP : (FvssQ.buildComplaint (markX s)).1 = markX s := bc_received _ c (by simpa using hf) hr
      rw [hP]
      have hab : anyBad (setVec (markX s) v) = anyBad (setVec s v) := anyBad_setVec_congr _ _ v rfl
      simp only [markX_disqualified, hdq, Bool.false_eq_true, if_false]
      rw [rvOk_X _ v (by simp), hab]
      by_cases hb : anyBad (setVec s v) = true
      · left; simp [hb]
      · right
        simp only [hb, Bool.false_eq_true, if_false, setVec_disqualified, hdq]
        have h1 : (FvssQ.buildComplaint (markX (setVec s v))).1 = markX (setVec s v) :=
          bc_received _ c (by simpa using hf) hr
        have h2 : (FvssQ.buildComplaint (setVec (markX s) v)).1 = setVec (markX s) v :=
          bc_received _ c (by simpa using hf) hr
        rw [h1, h2]
        split <;> (apply St.ext' <;> simp)
    · have hr' : c.received = false := by simpa using hr
      have hown' : anyBad (setVec s v) = othersBad (setVec s v) s.me := by
        rw [hown]; simp [entryBad, hr']
      by_cases ha : c.answerReceived = true
      · -- the dealer's answer came before the complaint: it is adopted, and checked once the vector is known
        have hP : (FvssQ.buildComplaint (markX s)).1 = adoptX ((markX s).setC s.me (recv c)) c.answer := by
          rw [bc_eq]
          simp only [markX_me, find_markX, hf, hr', ha, Bool.false_eq_true, if_false, if_true, markX_vAReceived, hv,
            false_and]
        rw [hP]
        have hab := hcongr (recv c) (adoptX ((markX s).setC s.me (recv c)) c.answer) rfl
        have heb : entryBad (setVec s v) s.me (recv c) = !(O.checkLog v s.me c.answer) := by
          simp [entryBad, recv, ha]
        have hA : (FvssQ.buildComplaint (markX (setVec s v))).1 =
            if !(O.checkLog v s.me c.answer) then setDisq ((markX (setVec s v)).setC s.me (recv c)) true
            else adoptX (setDisq ((markX (setVec s v)).setC s.me (recv c)) false) c.answer := by
          rw [bc_eq]
          simp only [markX_me, setVec_me, find_markX, find_setVec, hf, hr', ha, Bool.false_eq_true, if_false, if_true,
            markX_vAReceived, setVec_vAReceived, markX_vA, setVec_vA, Option.isSome_some, and_self, cc_markX, cc_setVec]
          rfl
        simp only [adoptX_disqualified, setC_disqualified, markX_disqualified, hdq, Bool.false_eq_true, if_false]
        rw [rvOk_X _ v (by simp), hab, heb, hown']
        by_cases hb : othersBad (setVec s v) s.me = true
        · left; simp [hb]
        · simp only [hb, Bool.false_eq_true, if_false, Bool.or_false, setVec_disqualified, hdq]
          rw [hA]
          by_cases hw : O.checkLog v s.me c.answer = true
          · right
            simp only [hw, Bool.not_true, Bool.false_eq_true, if_false, adoptX_me, setC_me, markX_me, adoptX_x]
            apply St.ext' <;> simp [hdq]
          · left
            have hw' : O.checkLog v s.me c.answer = false := by simpa using hw
            simp [hw']
      · -- an entry that is neither a complaint nor an answer (unreachable): it becomes a complaint
        have ha' : c.answerReceived = false := by simpa using ha
        have hP : (FvssQ.buildComplaint (markX s)).1 = (markX s).setC s.me (recv c) := by
          rw [bc_eq]
          simp only [markX_me, find_markX, hf, hr', ha', Bool.false_eq_true, if_false]
        rw [hP]
        have hab := hcongr (recv c) ((markX s).setC s.me (recv c)) rfl
        have heb : entryBad (setVec s v) s.me (recv c) = false := by simp [entryBad, recv, ha']
        have hA : (FvssQ.buildComplaint (markX (setVec s v))).1 = (markX (setVec s v)).setC s.me (recv c) := by
          rw [bc_eq]
          simp only [markX_me, setVec_me, find_markX, find_setVec, hf, hr', ha', Bool.false_eq_true, if_false]
        have hrec : (FvssQ.buildComplaint (setVec ((markX s).setC s.me (recv c)) v)).1 =
            setVec ((markX s).setC s.me (recv c)) v := bc_received _ (recv c) (by simp) rfl
        simp only [setC_disqualified, markX_disqualified, hdq, Bool.false_eq_true, if_false]
        rw [rvOk_X _ v (by simp), hab, heb, hown']
        by_cases hb : othersBad (setVec s v) s.me = true
        · left; simp [hb]
        · right
          simp only [hb, Bool.false_eq_true, if_false, Bool.or_false, setVec_disqualified, hdq, Bool.false_or]
          rw [hA, hrec]
          split <;> (apply St.ext' <;> simp)

theorem setX_setVec (s : St O) (v : O.Vec) (x : Nat) : setX (setVec s v) x = setVec (setX s x) v := rfl

/-- main case, well-formed share -/
theorem good_share_vector (s : St O) (v : O.Vec) (x : Nat) (hdq : s.disqualified = false)
    (hx : s.xReceived = false) (hv : s.vAReceived = false) :
    Rel (if (rvOk s v).disqualified then rvOk s v else rsOk (rvOk s v) x)
        (if (rsOk s x).disqualified then rsOk s x else rvOk (rsOk s x) v) := by
  rw [rvOk_noX s v hx, rsOk_noV s x hv]
  have hab : anyBad (setVec (setX s x) v) = anyBad (setVec s v) := anyBad_setVec_congr _ _ v rfl
  simp only [setX_disqualified, hdq, Bool.false_eq_true, if_false]
  rw [rvOk_X _ v (by simp), hab]
  by_cases hb : anyBad (setVec s v) = true
  · left; simp [hb]
  · right
    simp only [hb, Bool.false_eq_true, if_false, setVec_disqualified, hdq]
    unfold rsOk
    simp only [setVec_vAReceived, if_true, setX_me, setX_x]
    rw [setX_setVec]
    rfl

/-- **share and verification vector commute**: at a participant other than the dealer, the dealer's private
    share message and its broadcast verification vector lead to related states whichever arrives first
    (the defect class F9: a malformed share before the vector must not be answered by a second complaint) -/
theorem share_vector_commute (s : St O) (hme : s.me ≠ s.dealer) (hn : KeysNodup s) (vec sh : Bytes) :
    Rel (FvssQ.privBody (FvssQ.bcastBody s s.dealer (tagVerifVec :: vec)).1 s.dealer sh).1
        (FvssQ.bcastBody (FvssQ.privBody s s.dealer sh).1 s.dealer (tagVerifVec :: vec)).1 := by
  have cV := rv_cfg s s.dealer vec
  have cP := rs_cfg s s.dealer sh
  rw [bvec_eq s s.dealer rfl hme, priv_eq s s.dealer rfl hme]
  by_cases hdq : s.disqualified = true
  · simp only [hdq, if_true]
    rw [bvec_eq s s.dealer rfl hme, priv_eq s s.dealer rfl hme]
    simp only [hdq, if_true]
    exact Rel.refl' s
  have hdq' : s.disqualified = false := by simpa using hdq
  simp only [hdq', Bool.false_eq_true, if_false]
  have hmeV : (FvssQ.receiveVerifVector s s.dealer vec).1.me ≠ (FvssQ.receiveVerifVector s s.dealer vec).1.dealer := by
    rw [cV.1, cV.2.1]; exact hme
  have hmeP : (FvssQ.receiveShare s s.dealer sh).1.me ≠ (FvssQ.receiveShare s s.dealer sh).1.dealer := by
    rw [cP.1, cP.2.1]; exact hme
  rw [priv_eq _ s.dealer cV.2.1.symm hmeV, bvec_eq _ s.dealer cP.2.1.symm hmeP]
  by_cases hst : s.sharesTimeout = true
  · -- both are late: ignored (flagged)
    have h1 := rv_noop s s.dealer rfl vec (Or.inl hst)
    have h2 := rs_noop s s.dealer rfl sh (Or.inl hst)
    rw [h1, h2]
    simp only [h1, h2, ite_self]
    exact Rel.refl' _
  have hst' : s.sharesTimeout = false := by simpa using hst
  by_cases hv : s.vAReceived = true
  · -- a second vector is ignored in both orders
    have h1 := rv_noop s s.dealer rfl vec (Or.inr hv)
    have h2 := rv_noop (FvssQ.receiveShare s s.dealer sh).1 s.dealer cP.2.1.symm vec
      (Or.inr (by rw [(rs_keeps s s.dealer sh).2]; exact hv))
    rw [h1, h2]
    simp only [hdq', Bool.false_eq_true, if_false, ite_self]
    exact Rel.refl' _
  have hv' : s.vAReceived = false := by simpa using hv
  by_cases hx : s.xReceived = true
  · have h1 := rs_noop s s.dealer rfl sh (Or.inr hx)
    have h2 := rs_noop (FvssQ.receiveVerifVector s s.dealer vec).1 s.dealer cV.2.1.symm sh
      (Or.inr (by rw [rv_keeps s s.dealer vec]; exact hx))
    rw [h1, h2]
    simp only [hdq', Bool.false_eq_true, if_false, ite_self]
    exact Rel.refl' _
  have hx' : s.xReceived = false := by simpa using hx
  -- main case
  have eV := rv_eq s s.dealer rfl vec hst' hv'
  have eP := rs_eq s s.dealer rfl sh hst' hx'
  have ePV := rv_eq (FvssQ.receiveShare s s.dealer sh).1 s.dealer cP.2.1.symm vec (by rw [cP.2.2.2.2.1]; exact hst')
    (by rw [(rs_keeps s s.dealer sh).2]; exact hv')
  rw [parseVec_cfg s _ cP] at ePV
  have eVP := rs_eq (FvssQ.receiveVerifVector s s.dealer vec).1 s.dealer cV.2.1.symm sh (by rw [cV.2.2.2.2.1]; exact hst')
    (by rw [rv_keeps s s.dealer vec]; exact hx')
  rw [eVP, ePV]
  cases hpv : parseVec s vec with
  | none =>
    -- a malformed vector disqualifies in both orders
    rw [hpv] at eV
    simp only [] at eV
    left
    rw [eV]
    simp only [vecBad_disqualified, if_true, true_and]
    split
    · assumption
    · rfl
  | some v =>
    rw [hpv] at eV
    simp only [] at eV ⊢
    rw [eV, eP]
    cases hps : parseShare O sh with
    | none => exact bad_share_vector s v hn hdq' hx' hv'
    | some x => exact good_share_vector s v x hdq' hx' hv'


/-! ### complaints and answers, explicitly -/

/-- the complainee named by a complaint payload, if the payload is well formed -/
def parseC (s : St O) (data : Bytes) : Option Nat :=
  if data.length ≠ 1 then none else if (data.headD 0).toNat ≥ s.size then none else some (data.headD 0).toNat

/-- effect of a well-formed complaint of `o` against the dealer, at a participant that is not the dealer -/
def rcOk (s : St O) (o : Nat) : St O :=
  match s.find o with
  | none => s.setC o fresh
  | some c =>
    if c.received then s
    else if s.vAReceived ∧ c.answerReceived then
      setDisq (s.setC o (recv c)) (s.checkComplaint o (recv c))
    else s.setC o (recv c)

theorem rc_eq (s : St O) (o : Nat) (data : Bytes) (hme : s.me ≠ s.dealer) (hct : s.complaintsTimeout = false) :
    (FvssQ.receiveComplaint s o data).1 =
      match parseC s data with
      | none => if o = s.dealer then setDisq s true else s
      | some ce => if o = s.dealer then s else if ce ≠ s.dealer then s else rcOk s o := by
  unfold FvssQ.receiveComplaint parseC rcOk setDisq recv fresh
  simp only [hct, Bool.false_eq_true, if_false]
  by_cases h1 : data.length = 1
  · simp only [h1, ne_eq, not_true_eq_false, if_false]
    by_cases h2 : (data.headD 0).toNat ≥ s.size
    · simp only [h2, if_true]
      split <;> rfl
    · simp only [h2, if_false]
      by_cases h3 : o = s.dealer
      · simp only [h3, if_true]
      · simp only [h3, if_false]
        by_cases h4 : (data.headD 0).toNat = s.dealer
        · simp only [h4, not_true_eq_false, if_false]
          cases hf : s.find o with
          | none =>
            simp only []
            have : ¬ (s.setC o { received := true, answerReceived := false }).me =
                (s.setC o { received := true, answerReceived := false }).dealer := hme
            rw [if_neg this]
          | some c =>
            simp only []
            split
            · rfl
            · have hme' : (s.setC o { c with received := true }).me ≠ (s.setC o { c with received := true }).dealer := hme
              by_cases h5 : s.vAReceived = true ∧ c.answerReceived = true
              · have h5' : (s.setC o { c with received := true }).vAReceived = true ∧
                    ({ c with received := true } : Complaint).answerReceived = true ∧
                    (s.setC o { c with received := true }).me ≠ (s.setC o { c with received := true }).dealer :=
                  ⟨h5.1, h5.2, hme'⟩
                rw [if_pos h5', if_pos h5]
                rfl
              · have h5' : ¬ ((s.setC o { c with received := true }).vAReceived = true ∧
                    ({ c with received := true } : Complaint).answerReceived = true ∧
                    (s.setC o { c with received := true }).me ≠ (s.setC o { c with received := true }).dealer) :=
                  fun h => h5 ⟨h.1, h.2.1⟩
                rw [if_neg h5', if_neg h5]
        · simp only [h4, not_false_eq_true, if_true]
  · simp only [h1, ne_eq, not_false_eq_true, if_true]
    split <;> rfl

/-- what a complaint-answer payload carries: `none` malformed; `some (k, none)` an unreadable share -/
def parseA (s : St O) (data : Bytes) : Option (Nat × Option Nat) :=
  if data.length ≠ 1 + shareSize then none
  else if (data.headD 0).toNat ≥ s.size then none
  else some ((data.headD 0).toNat, O.readScalar (data.drop 1))

def early (ans : Nat) : Complaint := { received := false, answerReceived := true, answer := ans }

/-- effect of the dealer's answer for complainer `k` -/
def raOk (s : St O) (k : Nat) (sc : Option Nat) : St O :=
  match s.find k with
  | none =>
    match sc with
    | none => setDisq (s.setC k { received := false, answerReceived := true }) true
    | some ans => s.setC k (early ans)
  | some c =>
    if c.answerReceived then s
    else if c.received then
      match sc with
      | none => setDisq (s.setC k { c with answerReceived := true }) true
      | some ans =>
        let c2 : Complaint := { c with answerReceived := true, answer := ans }
        let s2 := s.setC k c2
        let s3 := if s.vAReceived then setDisq s2 (s.checkComplaint k c2) else s2
        if !s3.disqualified ∧ k = s.me then adoptX s3 ans else s3
    else s.setC k { c with answerReceived := true }


theorem setC_setC (s : St O) (k : Nat) (c1 c2 : Complaint) : (s.setC k c1).setC k c2 = s.setC k c2 := by
  unfold St.setC
  simp only [List.filter_cons, bne_self_eq_false, Bool.false_eq_true, if_false, List.filter_filter, Bool.and_self]

theorem ra_eq (s : St O) (data : Bytes) :
    (FvssQ.receiveComplaintAnswer s s.dealer data).1 =
      match parseA s data with
      | none => setDisq s true
      | some (k, sc) => raOk s k sc := by
  unfold FvssQ.receiveComplaintAnswer parseA
  simp only [ne_eq, not_true_eq_false, if_false]
  by_cases h1 : data.length = 1 + shareSize
  · simp only [h1, not_true_eq_false, if_false]
    by_cases h2 : (data.headD 0).toNat ≥ s.size
    · simp only [h2, if_true]; rfl
    · simp only [h2, if_false]
      unfold raOk
      cases hf : s.find (data.headD 0).toNat with
      | none =>
        simp only []
        cases O.readScalar (data.drop 1) <;> rfl
      | some c =>
        obtain ⟨r, ar, a0⟩ := c
        cases ar
        · cases r
          · simp only [Bool.false_eq_true, if_false]
          · simp only [Bool.false_eq_true, if_false, if_true]
            cases O.readScalar (data.drop 1) with
            | none => rfl
            | some ans =>
              simp only [setC_setC]
              by_cases h5 : s.vAReceived = true
              · have h5' : (s.setC (data.headD 0).toNat { received := true, answerReceived := true, answer := ans }).vAReceived = true := h5
                rw [if_pos h5', if_pos h5]
                rfl
              · have h5' : ¬ (s.setC (data.headD 0).toNat { received := true, answerReceived := true, answer := ans }).vAReceived = true := h5
                rw [if_neg h5', if_neg h5]
                rfl
        · simp only [if_true]
  · simp only [h1, not_false_eq_true, if_true]; rfl


/-! ### states up to the order of the complaint table -/

/-- same state, the complaint table up to a permutation (Go iterates over a map; only existence of an entry and
    the number of entries are ever used) -/
def Equiv (a b : St O) : Prop :=
  a.size = b.size ∧ a.threshold = b.threshold ∧ a.me = b.me ∧ a.dealer = b.dealer ∧ a.running = b.running ∧
  a.a = b.a ∧ a.vA = b.vA ∧ a.vAReceived = b.vAReceived ∧ a.x = b.x ∧ a.xReceived = b.xReceived ∧
  a.validKey = b.validKey ∧ a.complaints.Perm b.complaints ∧ a.disqualified = b.disqualified ∧
  a.sharesTimeout = b.sharesTimeout ∧ a.complaintsTimeout = b.complaintsTimeout

theorem Equiv.refl' (a : St O) : Equiv a a :=
  ⟨rfl, rfl, rfl, rfl, rfl, rfl, rfl, rfl, rfl, rfl, rfl, List.Perm.refl _, rfl, rfl, rfl⟩

theorem Equiv.of_eq {a b : St O} (h : a = b) : Equiv a b := h ▸ Equiv.refl' a

theorem Equiv.symm' {a b : St O} (h : Equiv a b) : Equiv b a := by
  obtain ⟨h1, h2, h3, h4, h5, h6, h7, h8, h9, h10, h11, h12, h13, h14, h15⟩ := h
  exact ⟨h1.symm, h2.symm, h3.symm, h4.symm, h5.symm, h6.symm, h7.symm, h8.symm, h9.symm, h10.symm, h11.symm,
    h12.symm, h13.symm, h14.symm, h15.symm⟩

theorem Equiv.trans' {a b c : St O} (h : Equiv a b) (g : Equiv b c) : Equiv a c := by
  obtain ⟨h1, h2, h3, h4, h5, h6, h7, h8, h9, h10, h11, h12, h13, h14, h15⟩ := h
  obtain ⟨g1, g2, g3, g4, g5, g6, g7, g8, g9, g10, g11, g12, g13, g14, g15⟩ := g
  exact ⟨h1.trans g1, h2.trans g2, h3.trans g3, h4.trans g4, h5.trans g5, h6.trans g6, h7.trans g7, h8.trans g8,
    h9.trans g9, h10.trans g10, h11.trans g11, h12.trans g12, h13.trans g13, h14.trans g14, h15.trans g15⟩

/-- both disqualified, or the same state up to the order of the complaint table -/
def RelP (a b : St O) : Prop := (a.disqualified = true ∧ b.disqualified = true) ∨ Equiv a b

theorem Rel.toP {a b : St O} (h : Rel a b) : RelP a b := by
  rcases h with h | h
  · exact Or.inl h
  · subst h; exact Or.inr (Equiv.refl' _)

/-! ### single-entry updates and their commutation -/

/-- what a complaint / answer / own-complaint step does: at most one table entry, the verdict, the share -/
structure Upd where
  entry : Option Complaint := none
  disq : Option Bool := none
  x : Option Nat := none

def applyUpd (s : St O) (k : Nat) (u : Upd) : St O :=
  let s1 := match u.entry with | some c => s.setC k c | none => s
  let s2 := match u.disq with | some b => setDisq s1 b | none => s1
  match u.x with | some a => adoptX s2 a | none => s2

theorem applyUpd_disq (s : St O) (k : Nat) (u : Upd) :
    (applyUpd s k u).disqualified = (match u.disq with | some b => b | none => s.disqualified) := by
  unfold applyUpd
  cases u.entry <;> cases u.disq <;> cases u.x <;> rfl

theorem setC_comm_perm (l : List (Nat × Complaint)) (j k : Nat) (cj ck : Complaint) (h : j ≠ k) :
    ((j, cj) :: ((k, ck) :: l.filter (·.1 != k)).filter (·.1 != j)).Perm
    ((k, ck) :: ((j, cj) :: l.filter (·.1 != j)).filter (·.1 != k)) := by
  have hkj : ((k, ck) : Nat × Complaint).1 != j := by simpa [bne] using (Ne.symm h)
  have hjk : ((j, cj) : Nat × Complaint).1 != k := by simpa [bne] using h
  simp only [List.filter_cons, hkj, hjk, if_true, List.filter_filter]
  refine (List.Perm.swap _ _ _).trans ?_
  refine List.Perm.cons _ (List.Perm.cons _ ?_)
  have : (fun a : Nat × Complaint => (a.1 != k && a.1 != j)) = (fun a => (a.1 != j && a.1 != k)) := by
    funext a; exact Bool.and_comm _ _
  rw [this]

theorem find_setC_other (s : St O) (j k : Nat) (c : Complaint) (h : j ≠ k) : (s.setC k c).find j = s.find j := by
  unfold St.find
  simp only [setC_complaints, List.find?_cons]
  have : (k == j) = false := by simpa using (Ne.symm h)
  simp only [this]
  congr 1
  induction s.complaints with
  | nil => rfl
  | cons a t ih =>
    simp only [List.filter_cons]
    by_cases hak : a.1 = k
    · have h1 : (a.1 != k) = false := by simp [hak]
      have h2 : (a.1 == j) = false := by rw [hak]; simpa using (Ne.symm h)
      simp only [h1, Bool.false_eq_true, if_false, List.find?_cons, h2, ih]
    · have h1 : (a.1 != k) = true := by simpa [bne] using hak
      simp only [h1, if_true, List.find?_cons, ih]

theorem find_applyUpd_other (s : St O) (j k : Nat) (u : Upd) (h : j ≠ k) : (applyUpd s k u).find j = s.find j := by
  unfold applyUpd
  cases u.entry <;> cases u.disq <;> cases u.x <;> simp [find_setC_other _ _ _ _ h]

theorem applyUpd_vA (s : St O) (k : Nat) (u : Upd) :
    (applyUpd s k u).vA = s.vA ∧ (applyUpd s k u).vAReceived = s.vAReceived ∧ (applyUpd s k u).me = s.me ∧
    (applyUpd s k u).dealer = s.dealer ∧ (applyUpd s k u).xReceived = s.xReceived := by
  unfold applyUpd
  cases u.entry <;> cases u.disq <;> cases u.x <;> simp

theorem applyUpd_complaints (s : St O) (k : Nat) (u : Upd) :
    (applyUpd s k u).complaints = (match u.entry with | some c => (s.setC k c).complaints | none => s.complaints) := by
  unfold applyUpd
  cases u.entry <;> cases u.disq <;> cases u.x <;> rfl

theorem applyUpd_x (s : St O) (k : Nat) (u : Upd) :
    (applyUpd s k u).x = (match u.x with | some a => a | none => s.x) := by
  unfold applyUpd
  cases u.entry <;> cases u.disq <;> cases u.x <;> rfl

theorem applyUpd_rest (s : St O) (k : Nat) (u : Upd) :
    (applyUpd s k u).size = s.size ∧ (applyUpd s k u).threshold = s.threshold ∧ (applyUpd s k u).running = s.running ∧
    (applyUpd s k u).a = s.a ∧ (applyUpd s k u).validKey = s.validKey ∧
    (applyUpd s k u).sharesTimeout = s.sharesTimeout ∧ (applyUpd s k u).complaintsTimeout = s.complaintsTimeout := by
  unfold applyUpd
  cases u.entry <;> cases u.disq <;> cases u.x <;> simp

/-- **updates of different entries commute** (up to the order of the table), as long as they agree on the verdict
    and at most one of them touches the share -/
theorem applyUpd_comm (s : St O) (j k : Nat) (u1 u2 : Upd) (h : j ≠ k ∨ u1.entry = none ∨ u2.entry = none)
    (hx : u1.x = none ∨ u2.x = none)
    (hd : ∀ b1 b2, u1.disq = some b1 → u2.disq = some b2 → b1 = b2) :
    Equiv (applyUpd (applyUpd s k u1) j u2) (applyUpd (applyUpd s j u2) k u1) := by
  have r1 := applyUpd_rest s k u1
  have r2 := applyUpd_rest s j u2
  have r12 := applyUpd_rest (applyUpd s k u1) j u2
  have r21 := applyUpd_rest (applyUpd s j u2) k u1
  have v1 := applyUpd_vA s k u1
  have v2 := applyUpd_vA s j u2
  have v12 := applyUpd_vA (applyUpd s k u1) j u2
  have v21 := applyUpd_vA (applyUpd s j u2) k u1
  refine ⟨?_, ?_, ?_, ?_, ?_, ?_, ?_, ?_, ?_, ?_, ?_, ?_, ?_, ?_, ?_⟩
  · rw [r12.1, r1.1, r21.1, r2.1]
  · rw [r12.2.1, r1.2.1, r21.2.1, r2.2.1]
  · rw [v12.2.2.1, v1.2.2.1, v21.2.2.1, v2.2.2.1]
  · rw [v12.2.2.2.1, v1.2.2.2.1, v21.2.2.2.1, v2.2.2.2.1]
  · rw [r12.2.2.1, r1.2.2.1, r21.2.2.1, r2.2.2.1]
  · rw [r12.2.2.2.1, r1.2.2.2.1, r21.2.2.2.1, r2.2.2.2.1]
  · rw [v12.1, v1.1, v21.1, v2.1]
  · rw [v12.2.1, v1.2.1, v21.2.1, v2.2.1]
  · -- x
    rw [applyUpd_x, applyUpd_x, applyUpd_x, applyUpd_x]
    rcases hx with hx | hx <;> rw [hx] <;> cases u2.x <;> cases u1.x <;> simp_all
  · rw [v12.2.2.2.2, v1.2.2.2.2, v21.2.2.2.2, v2.2.2.2.2]
  · rw [r12.2.2.2.2.1, r1.2.2.2.2.1, r21.2.2.2.2.1, r2.2.2.2.2.1]
  · -- the table
    rw [applyUpd_complaints (applyUpd s k u1), applyUpd_complaints (applyUpd s j u2)]
    cases h1 : u1.entry with
    | none =>
      cases h2 : u2.entry with
      | none => simp only [applyUpd_complaints, h1, h2]; exact List.Perm.refl _
      | some c2 => simp only [setC_complaints, applyUpd_complaints, h1, h2]; exact List.Perm.refl _
    | some c1 =>
      cases h2 : u2.entry with
      | none => simp only [setC_complaints, applyUpd_complaints, h1, h2]; exact List.Perm.refl _
      | some c2 =>
        simp only [setC_complaints, applyUpd_complaints, h1, h2]
        rcases h with h | h | h
        · exact setC_comm_perm s.complaints j k c2 c1 h
        · rw [h1] at h; cases h
        · rw [h2] at h; cases h
  · -- the verdict
    rw [applyUpd_disq, applyUpd_disq, applyUpd_disq, applyUpd_disq]
    cases h1 : u1.disq with
    | none => cases u2.disq <;> rfl
    | some b1 =>
      cases h2 : u2.disq with
      | none => rfl
      | some b2 => exact (hd b1 b2 h1 h2).symm
  · rw [r12.2.2.2.2.2.1, r1.2.2.2.2.2.1, r21.2.2.2.2.2.1, r2.2.2.2.2.2.1]
  · rw [r12.2.2.2.2.2.2, r1.2.2.2.2.2.2, r21.2.2.2.2.2.2, r2.2.2.2.2.2.2]

/-- two steps that touch different entries, each skipped when the instance is already disqualified -/
theorem upd_pair (s : St O) (hdq : s.disqualified = false) (j k : Nat) (u1 u2 : Upd)
    (h : j ≠ k ∨ u1.entry = none ∨ u2.entry = none)
    (hx : u1.x = none ∨ u2.x = none) :
    RelP (if (applyUpd s k u1).disqualified then applyUpd s k u1 else applyUpd (applyUpd s k u1) j u2)
         (if (applyUpd s j u2).disqualified then applyUpd s j u2 else applyUpd (applyUpd s j u2) k u1) := by
  have e1 := applyUpd_disq s k u1
  have e2 := applyUpd_disq s j u2
  have e12 := applyUpd_disq (applyUpd s k u1) j u2
  have e21 := applyUpd_disq (applyUpd s j u2) k u1
  cases h1 : u1.disq with
  | some b1 =>
    cases b1 with
    | true =>
      left
      rw [h1] at e1 e21
      simp only [] at e1 e21
      rw [e1]
      simp only [if_true]
      refine ⟨e1, ?_⟩
      split
      · assumption
      · exact e21
    | false =>
      rw [h1] at e1 e21
      simp only [] at e1 e21
      rw [e1]
      simp only [Bool.false_eq_true, if_false]
      cases h2 : u2.disq with
      | some b2 =>
        cases b2 with
        | true =>
          left
          rw [h2] at e2 e12
          simp only [] at e2 e12
          rw [e2]
          simp only [if_true]
          exact ⟨e12, e2⟩
        | false =>
          right
          rw [h2] at e2
          simp only [] at e2
          rw [e2]
          simp only [Bool.false_eq_true, if_false]
          exact applyUpd_comm s j k u1 u2 h hx (by intro b1 b2 a b; rw [h1] at a; rw [h2] at b; cases a; cases b; rfl)
      | none =>
        right
        rw [h2] at e2
        simp only [] at e2
        rw [e2, hdq]
        simp only [Bool.false_eq_true, if_false]
        exact applyUpd_comm s j k u1 u2 h hx (by intro b1 b2 _ b; rw [h2] at b; cases b)
  | none =>
    rw [h1] at e1
    simp only [] at e1
    rw [e1, hdq]
    simp only [Bool.false_eq_true, if_false]
    cases h2 : u2.disq with
    | some b2 =>
      cases b2 with
      | true =>
        left
        rw [h2] at e2 e12
        simp only [] at e2 e12
        rw [e2]
        simp only [if_true]
        exact ⟨e12, e2⟩
      | false =>
        right
        rw [h2] at e2
        simp only [] at e2
        rw [e2]
        simp only [Bool.false_eq_true, if_false]
        exact applyUpd_comm s j k u1 u2 h hx (by intro b1 b2 a _; rw [h1] at a; cases a)
    | none =>
      right
      rw [h2] at e2
      simp only [] at e2
      rw [e2, hdq]
      simp only [Bool.false_eq_true, if_false]
      exact applyUpd_comm s j k u1 u2 h hx (by intro b1 b2 a _; rw [h1] at a; cases a)

/-! ### the handlers as single-entry updates -/

/-- what a well-formed complaint of `o` does, from the entry of `o`, `vAReceived` and the check of an answer -/
def rcU (fc : Option Complaint) (vAR : Bool) (chk : Complaint → Bool) : Upd :=
  match fc with
  | none => { entry := some fresh }
  | some c =>
    if c.received then {}
    else if vAR ∧ c.answerReceived then { entry := some (recv c), disq := some (chk (recv c)) }
    else { entry := some (recv c) }

theorem rcOk_upd (s : St O) (o : Nat) :
    rcOk s o = applyUpd s o (rcU (s.find o) s.vAReceived (s.checkComplaint o)) := by
  unfold rcOk rcU applyUpd
  cases s.find o with
  | none => rfl
  | some c =>
    simp only []
    by_cases h1 : c.received = true
    · simp only [h1, if_true]
    · simp only [h1, Bool.false_eq_true, if_false]
      by_cases h2 : s.vAReceived = true ∧ c.answerReceived = true
      · simp only [h2, and_self, if_true]
      · simp only [h2, if_false]

/-- what the dealer's answer for complainer `k` does -/
def raU (fc : Option Complaint) (vAR : Bool) (chk : Complaint → Bool) (sdq isMe : Bool) (sc : Option Nat) : Upd :=
  match fc with
  | none =>
    match sc with
    | none => { entry := some { received := false, answerReceived := true }, disq := some true }
    | some ans => { entry := some (early ans) }
  | some c =>
    if c.answerReceived then {}
    else if c.received then
      match sc with
      | none => { entry := some { c with answerReceived := true }, disq := some true }
      | some ans =>
        let c2 : Complaint := { c with answerReceived := true, answer := ans }
        { entry := some c2, disq := if vAR then some (chk c2) else none,
          x := if !(if vAR then chk c2 else sdq) ∧ isMe then some ans else none }
    else { entry := some { c with answerReceived := true } }

theorem raOk_upd (s : St O) (k : Nat) (sc : Option Nat) :
    raOk s k sc = applyUpd s k (raU (s.find k) s.vAReceived (s.checkComplaint k) s.disqualified (decide (k = s.me)) sc) := by
  unfold raOk raU applyUpd
  cases s.find k with
  | none => cases sc <;> rfl
  | some c =>
    obtain ⟨r, ar, a0⟩ := c
    cases ar
    · cases r
      · simp only [Bool.false_eq_true, if_false]
      · simp only [Bool.false_eq_true, if_false, if_true]
        cases sc with
        | none => rfl
        | some ans =>
          simp only []
          by_cases h3 : s.vAReceived = true
          · simp only [h3, if_true, setDisq_disqualified]
            by_cases h4 : (!(s.checkComplaint k { received := true, answerReceived := true, answer := ans })) = true ∧ k = s.me
            · have h4' : (!(s.checkComplaint k { received := true, answerReceived := true, answer := ans })) = true ∧
                  decide (k = s.me) = true := ⟨h4.1, by simpa using h4.2⟩
              rw [if_pos h4, if_pos h4']
            · have h4' : ¬ ((!(s.checkComplaint k { received := true, answerReceived := true, answer := ans })) = true ∧
                  decide (k = s.me) = true) := fun hh => h4 ⟨hh.1, by simpa using hh.2⟩
              rw [if_neg h4, if_neg h4']
          · simp only [h3, Bool.false_eq_true, if_false, setC_disqualified]
            by_cases h4 : (!s.disqualified) = true ∧ k = s.me
            · have h4' : (!s.disqualified) = true ∧ decide (k = s.me) = true := ⟨h4.1, by simpa using h4.2⟩
              rw [if_pos h4, if_pos h4']
            · have h4' : ¬ ((!s.disqualified) = true ∧ decide (k = s.me) = true) := fun hh => h4 ⟨hh.1, by simpa using hh.2⟩
              rw [if_neg h4, if_neg h4']
    · simp only [if_true]


/-! ### a complaint and the dealer's answer to it, in either order (the F10 class) -/

/-- every table entry is a complaint, an answer, or both -/
def EntriesWF (s : St O) : Prop := ∀ k c, s.find k = some c → c.received = true ∨ c.answerReceived = true

theorem complaint_answer_same (s : St O) (k : Nat) (sc : Option Nat) (hk : k ≠ s.me) (hdq : s.disqualified = false)
    (hwf : EntriesWF s) :
    RelP (if (rcOk s k).disqualified then rcOk s k else raOk (rcOk s k) k sc)
         (if (raOk s k sc).disqualified then raOk s k sc else rcOk (raOk s k sc) k) := by
  have hkme : ∀ t : St O, t.me = s.me → ¬ (k = t.me) := fun t ht h => hk (h.trans ht)
  cases hf : s.find k with
  | none =>
    cases sc with
    | none =>
      left
      simp [rcOk, raOk, hf, hdq, fresh]
    | some ans =>
      by_cases hv : s.vAReceived = true
      · by_cases hc : s.checkComplaint k { received := true, answerReceived := true, answer := ans } = true
        · left
          simp [rcOk, raOk, hf, hdq, fresh, early, recv, hv, hc, setC_setC, hk]
        · right
          have hc' : s.checkComplaint k { received := true, answerReceived := true, answer := ans } = false := by simpa using hc
          simp [rcOk, raOk, hf, hdq, fresh, early, recv, hv, hc', setC_setC, hk]
          exact Equiv.refl' _
      · right
        have hv' : s.vAReceived = false := by simpa using hv
        simp [rcOk, raOk, hf, hdq, fresh, early, recv, hv', setC_setC, hk]
        exact Equiv.refl' _
  | some c =>
    obtain ⟨r, ar, a0⟩ := c
    have hw := hwf k _ hf
    cases r <;> cases ar
    · simp at hw
    · -- an early answer is registered: the complaint completes the entry, a second answer is ignored
      have hB : raOk s k sc = s := by simp [raOk, hf]
      rw [hB]
      simp only [hdq, Bool.false_eq_true, if_false]
      by_cases hd : (rcOk s k).disqualified = true
      · right; simp only [hd, if_true]; exact Equiv.refl' _
      · right
        simp only [hd, Bool.false_eq_true, if_false]
        have : raOk (rcOk s k) k sc = rcOk s k := by
          by_cases hv : s.vAReceived = true <;> simp [raOk, rcOk, hf, hv, recv]
        rw [this]
        exact Equiv.refl' _
    · -- the complaint is registered: a second complaint is ignored, the answer completes the entry
      have hA : rcOk s k = s := by simp [rcOk, hf]
      rw [hA]
      simp only [hdq, Bool.false_eq_true, if_false]
      by_cases hd : (raOk s k sc).disqualified = true
      · right; simp only [hd, if_true]; exact Equiv.refl' _
      · right
        simp only [hd, Bool.false_eq_true, if_false]
        have : rcOk (raOk s k sc) k = raOk s k sc := by
          cases sc with
          | none => simp [raOk, rcOk, hf]
          | some ans => by_cases hv : s.vAReceived = true <;> simp [raOk, rcOk, hf, hv, hk]
        rw [this]
        exact Equiv.refl' _
    · have hA : rcOk s k = s := by simp [rcOk, hf]
      have hB : raOk s k sc = s := by simp [raOk, hf]
      rw [hA, hB]
      simp only [hdq, Bool.false_eq_true, if_false, hA, hB]
      right; exact Equiv.refl' _


/-! ### the node's own complaint as a single-entry update -/

def bcU (fc : Option Complaint) (vOK : Bool) (chk : Complaint → Bool) : Upd :=
  match fc with
  | none => { entry := some fresh }
  | some c =>
    if c.received then {}
    else if c.answerReceived then
      if vOK then
        if chk (recv c) then { entry := some (recv c), disq := some true }
        else { entry := some (recv c), disq := some false, x := some c.answer }
      else { entry := some (recv c), x := some c.answer }
    else { entry := some (recv c) }

theorem bc_upd (s : St O) : (FvssQ.buildComplaint s).1 =
    applyUpd s s.me (bcU (s.find s.me) (s.vAReceived && s.vA.isSome) (s.checkComplaint s.me)) := by
  rw [bc_eq]
  unfold bcU applyUpd
  cases s.find s.me with
  | none => rfl
  | some c =>
    obtain ⟨r, ar, a0⟩ := c
    cases r <;> cases ar <;> cases hv : s.vAReceived <;> cases hi : s.vA.isSome <;>
      simp [recv, hv, hi] <;>
      (by_cases hc : s.checkComplaint s.me { received := true, answerReceived := true, answer := a0 } = true <;> simp [hc])


/-! ### the verification vector and another participant's complaint, in either order -/

/-- what the vector does after the table was found clean: the node's own complaint if its share does not match -/
def wU (s : St O) (v : O.Vec) : Upd :=
  if s.xReceived ∧ (!(O.checkLog v s.me s.x)) = true then
    bcU (s.find s.me) true (fun c => !(O.checkLog v s.me c.answer))
  else {}

theorem applyUpd_empty (s : St O) (k : Nat) : applyUpd s k {} = s := rfl

theorem rvOk_upd (s : St O) (v : O.Vec) :
    rvOk s v = if anyBad (setVec s v) then setDisq (setVec s v) true else applyUpd (setVec s v) s.me (wU s v) := by
  unfold rvOk wU
  by_cases hb : anyBad (setVec s v) = true
  · rw [if_pos hb, if_pos hb]
  · rw [if_neg hb, if_neg hb]
    by_cases hx : s.xReceived = true
    · rw [if_pos hx]
      by_cases hl : (!(O.checkLog v s.me s.x)) = true
      · have : (!(setVec s v).verifyShare) = true := hl
        rw [if_pos this, if_pos ⟨hx, hl⟩, bc_upd]
        rfl
      · have : ¬ (!(setVec s v).verifyShare) = true := hl
        rw [if_neg this, if_neg (fun h => hl h.2)]
        rfl
    · rw [if_neg hx, if_neg (fun h => hx h.1)]
      rfl

theorem setVec_applyUpd (s : St O) (v : O.Vec) (k : Nat) (u : Upd) :
    setVec (applyUpd s k u) v = applyUpd (setVec s v) k u := by
  unfold applyUpd
  cases u.entry <;> cases u.disq <;> cases u.x <;> rfl

theorem setDisq_false_id (t : St O) (h : t.disqualified = false) : setDisq t false = t := by
  apply St.ext' <;> simp [h]

theorem anyBad_applyUpd_entry (t : St O) (k : Nat) (c : Complaint) :
    anyBad (applyUpd t k { entry := some c }) = (entryBad t k c || othersBad t k) := by
  show anyBad (t.setC k c) = _
  exact anyBad_setC t k c

/-- the two orders once the table is clean: the node's own step (entry `me`) and the complaint (entry `k`) -/
theorem vc_core (T : St O) (hT : T.disqualified = false) (me k : Nat) (hne : k ≠ me) (w uk uk0 : Upd)
    (he : uk.entry = uk0.entry) (hx : uk.x = none) (hx0 : uk0.x = none) (hd0 : uk0.disq = none)
    (hd : uk.disq = none ∨ uk.disq = some false) :
    RelP (if (applyUpd T me w).disqualified then applyUpd T me w else applyUpd (applyUpd T me w) k uk)
         (applyUpd (applyUpd T k uk0) me w) := by
  have hsame : applyUpd T k uk = applyUpd T k uk0 := by
    obtain ⟨e, d, x⟩ := uk
    obtain ⟨e0, d0, x0⟩ := uk0
    simp only at he hx hx0 hd0 hd
    subst he hx hx0 hd0
    rcases hd with hd | hd
    · subst hd; rfl
    · subst hd
      unfold applyUpd
      cases e with
      | none => exact setDisq_false_id T hT
      | some c => exact setDisq_false_id _ hT
  have := upd_pair T hT k me w uk (Or.inl hne) (Or.inr hx)
  rw [hsame] at this
  have hdq0 : (applyUpd T k uk0).disqualified = false := by
    rw [applyUpd_disq, hd0]; exact hT
  rw [hdq0] at this
  simpa using this

theorem vec_complaint (s : St O) (v : O.Vec) (k : Nat) (hk : k ≠ s.me) (hn : KeysNodup s) (hwf : EntriesWF s)
    (hdq : s.disqualified = false) (hv : s.vAReceived = false) :
    RelP (if (rvOk s v).disqualified then rvOk s v else rcOk (rvOk s v) k)
         (if (rcOk s k).disqualified then rcOk s k else rvOk (rcOk s k) v) := by
  -- the state right after the vector is stored
  have hT : (setVec s v).disqualified = false := hdq
  have hnT : KeysNodup (setVec s v) := hn
  have hkm : s.me ≠ k := fun h => hk h.symm
  -- the complaint before the vector only registers
  have hC0 : ∀ t : St O, t.vAReceived = false → rcOk t k =
      applyUpd t k (match t.find k with
        | none => { entry := some fresh }
        | some c => if c.received then {} else { entry := some (recv c) }) := by
    intro t ht
    rw [rcOk_upd]
    unfold rcU
    cases t.find k with
    | none => rfl
    | some c => simp only [ht, Bool.false_eq_true, false_and, if_false]
  -- the complaint after the vector also checks a registered answer
  have hC1 : ∀ t : St O, t.vAReceived = true → t.vA = some v → rcOk t k =
      applyUpd t k (match t.find k with
        | none => { entry := some fresh }
        | some c => if c.received then {} else if c.answerReceived then
            { entry := some (recv c), disq := some (!(O.checkLog v k c.answer)) } else { entry := some (recv c) }) := by
    intro t ht hvA
    rw [rcOk_upd]
    unfold rcU
    cases t.find k with
    | none => rfl
    | some c =>
      simp only [ht, true_and]
      have : t.checkComplaint k (recv c) = !(O.checkLog v k c.answer) := by
        unfold St.checkComplaint; rw [hvA]; rfl
      rw [this]
  rw [hC0 s hv, rvOk_upd s v]
  have hw : ∀ u : Upd, u.x = none → wU (applyUpd s k u) v = wU s v := by
    intro u hxx
    unfold wU
    have a := applyUpd_vA s k u
    rw [a.2.2.1, a.2.2.2.2, find_applyUpd_other s s.me k u hkm, applyUpd_x, hxx]
  -- the vector after the complaint `u0` registered
  have hCV : ∀ u0 : Upd, u0.x = none → u0.disq = none →
      (if (applyUpd s k u0).disqualified then applyUpd s k u0 else rvOk (applyUpd s k u0) v) =
      if anyBad (applyUpd (setVec s v) k u0) then setDisq (applyUpd (setVec s v) k u0) true
      else applyUpd (applyUpd (setVec s v) k u0) s.me (wU s v) := by
    intro u0 hx0 hd0
    have : (applyUpd s k u0).disqualified = false := by rw [applyUpd_disq, hd0]; exact hdq
    rw [this]
    simp only [Bool.false_eq_true, if_false]
    rw [rvOk_upd, setVec_applyUpd, hw u0 hx0, (applyUpd_vA s k u0).2.2.1]
  -- the complaint after the vector and the node's own step `w`
  have hVC : ∀ w : Upd, rcOk (applyUpd (setVec s v) s.me w) k =
      applyUpd (applyUpd (setVec s v) s.me w) k (match s.find k with
        | none => { entry := some fresh }
        | some c => if c.received then {} else if c.answerReceived then
            { entry := some (recv c), disq := some (!(O.checkLog v k c.answer)) } else { entry := some (recv c) }) := by
    intro w
    have a := applyUpd_vA (setVec s v) s.me w
    rw [hC1 _ (by rw [a.2.1]; rfl) (by rw [a.1]; rfl), find_applyUpd_other _ k s.me w hk]
    rfl
  cases hf : s.find k with
  | none =>
    simp only []
    rw [hCV _ rfl rfl, anyBad_applyUpd_entry]
    have hOB : anyBad (setVec s v) = othersBad (setVec s v) k := anyBad_find_none (setVec s v) k hf
    have heb : entryBad (setVec s v) k fresh = false := by simp [entryBad, fresh]
    rw [heb, Bool.false_or, ← hOB]
    by_cases hb : anyBad (setVec s v) = true
    · left; simp [hb]
    · simp only [hb, Bool.false_eq_true, if_false]
      rw [hVC, hf]
      exact vc_core (setVec s v) hT s.me k hk (wU s v) _ _ rfl rfl rfl rfl (Or.inl rfl)
  | some c =>
    have hOB : anyBad (setVec s v) = (entryBad (setVec s v) k c || othersBad (setVec s v) k) :=
      anyBad_find_some (setVec s v) k c hnT hf
    simp only []
    by_cases hr : c.received = true
    · -- the complaint was already registered: ignored in both orders
      simp only [hr, if_true]
      rw [hCV _ rfl rfl, applyUpd_empty]
      by_cases hb : anyBad (setVec s v) = true
      · left; simp [hb]
      · simp only [hb, Bool.false_eq_true, if_false]
        rw [hVC, hf]
        simp only [hr, if_true]
        exact vc_core (setVec s v) hT s.me k hk (wU s v) _ _ rfl rfl rfl rfl (Or.inl rfl)
    · have hr' : c.received = false := by simpa using hr
      have ha : c.answerReceived = true := by
        rcases hwf k c hf with h | h
        · exact absurd h hr
        · exact h
      simp only [hr', Bool.false_eq_true, if_false]
      rw [hCV _ rfl rfl, anyBad_applyUpd_entry]
      have heb0 : entryBad (setVec s v) k c = false := by simp [entryBad, hr']
      have heb : entryBad (setVec s v) k (recv c) = !(O.checkLog v k c.answer) := by simp [entryBad, recv, ha]
      rw [heb0, Bool.false_or] at hOB
      rw [heb, hOB]
      by_cases hob : othersBad (setVec s v) k = true
      · left; simp [hob]
      · simp only [hob, Bool.false_eq_true, if_false, Bool.or_false]
        rw [hVC, hf]
        simp only [hr', ha, Bool.false_eq_true, if_false, if_true]
        by_cases hw' : O.checkLog v k c.answer = true
        · -- the registered answer matches the vector
          simp only [hw', Bool.not_true, Bool.false_eq_true, if_false]
          exact vc_core (setVec s v) hT s.me k hk (wU s v) _ _ rfl rfl rfl rfl (Or.inr rfl)
        · -- it does not: disqualified in both orders
          have hw'' : O.checkLog v k c.answer = false := by simpa using hw'
          left
          simp only [hw'', Bool.not_false, if_true, setDisq_disqualified, and_true]
          split
          · assumption
          · rw [applyUpd_disq]


/-! ### the node's share and the dealer's answer to the node's own complaint, in either order (the F10 class) -/

/-- a stored vector is a valid one, unless the dealer is already disqualified -/
def VecOK (s : St O) : Prop := s.vAReceived = true → s.disqualified = false → s.vA.isSome = true

theorem share_answer_me_bad (s : St O) (sc : Option Nat) (hdq : s.disqualified = false) (hwf : EntriesWF s)
    (hvok : VecOK s) :
    RelP (if (FvssQ.buildComplaint (markX s)).1.disqualified then (FvssQ.buildComplaint (markX s)).1
          else raOk (FvssQ.buildComplaint (markX s)).1 s.me sc)
         (if (raOk s s.me sc).disqualified then raOk s s.me sc
          else (FvssQ.buildComplaint (markX (raOk s s.me sc))).1) := by
  have hvA : s.vAReceived = true → s.vA.isSome = true := fun h => hvok h hdq
  cases hf : s.find s.me with
  | none =>
    cases sc with
    | none => left; simp [bc_eq, raOk, hf, hdq, fresh]
    | some ans =>
      by_cases hv : s.vAReceived = true
      · have hi := hvA hv
        by_cases hc : s.checkComplaint s.me { received := true, answerReceived := true, answer := ans } = true
        · left
          simp [bc_eq, raOk, hf, hdq, fresh, early, recv, hv, hi, hc, setC_setC]
        · right
          have hc' : s.checkComplaint s.me { received := true, answerReceived := true, answer := ans } = false := by
            simpa using hc
          simp [bc_eq, raOk, hf, hdq, fresh, early, recv, hv, hi, hc', setC_setC]
          apply Equiv.of_eq
          apply St.ext' <;> simp [setC_setC]
      · right
        have hv' : s.vAReceived = false := by simpa using hv
        simp [bc_eq, raOk, hf, hdq, fresh, early, recv, hv', setC_setC]
        apply Equiv.of_eq
        apply St.ext' <;> simp [setC_setC]
  | some c =>
    obtain ⟨r, ar, a0⟩ := c
    have hw := hwf s.me _ hf
    cases r <;> cases ar
    · simp at hw
    · -- an early answer is registered: the malformed share triggers the complaint, a second answer is ignored
      have hB : raOk s s.me sc = s := by simp [raOk, hf]
      rw [hB]
      simp only [hdq, Bool.false_eq_true, if_false]
      right
      by_cases hd : (FvssQ.buildComplaint (markX s)).1.disqualified = true
      · simp only [hd, if_true]; exact Equiv.refl' _
      · simp only [hd, Bool.false_eq_true, if_false]
        apply Equiv.of_eq
        by_cases hv : s.vAReceived = true
        · have hi := hvA hv
          by_cases hc : s.checkComplaint s.me { received := true, answerReceived := true, answer := a0 } = true <;>
            simp [bc_eq, raOk, hf, recv, hv, hi, hc]
        · simp [bc_eq, raOk, hf, recv, hv]
    · -- the complaint is out already: the malformed share only sets `xReceived`
      have hA : (FvssQ.buildComplaint (markX s)).1 = markX s := bc_received _ _ (by simpa using hf) rfl
      rw [hA]
      simp only [markX_disqualified, hdq, Bool.false_eq_true, if_false]
      by_cases hd : (raOk s s.me sc).disqualified = true
      · left
        refine ⟨?_, by simp [hd]⟩
        cases sc with
        | none => simp [raOk, hf]
        | some ans =>
          by_cases hv : s.vAReceived = true
          · by_cases hc : s.checkComplaint s.me { received := true, answerReceived := true, answer := ans } = true
            · simp [raOk, hf, hv, hc]
            · simp [raOk, hf, hv, hc, hdq] at hd
          · simp [raOk, hf, hv, hdq] at hd
      · right
        simp only [hd, Bool.false_eq_true, if_false]
        have hB : (FvssQ.buildComplaint (markX (raOk s s.me sc))).1 = markX (raOk s s.me sc) := by
          cases sc with
          | none => simp [raOk, hf] at hd
          | some ans =>
            apply bc_received _ { received := true, answerReceived := true, answer := ans }
            · by_cases hv : s.vAReceived = true
              · by_cases hc : s.checkComplaint s.me { received := true, answerReceived := true, answer := ans } = true <;>
                  simp [raOk, hf, hv, hc]
              · simp [raOk, hf, hv, hdq]
            · rfl
        rw [hB]
        apply Equiv.of_eq
        cases sc with
        | none => simp [raOk, hf] at hd
        | some ans =>
          by_cases hv : s.vAReceived = true
          · by_cases hc : s.checkComplaint s.me { received := true, answerReceived := true, answer := ans } = true
            · simp [raOk, hf, hv, hc] at hd
            · simp [raOk, hf, hv, hc]
              apply St.ext' <;> simp
          · simp [raOk, hf, hv, hdq]
            apply St.ext' <;> simp
    · have hA : (FvssQ.buildComplaint (markX s)).1 = markX s := bc_received _ _ (by simpa using hf) rfl
      have hB : raOk s s.me sc = s := by simp [raOk, hf]
      rw [hA, hB]
      simp only [markX_disqualified, hdq, Bool.false_eq_true, if_false, hA]
      right
      apply Equiv.of_eq
      simp [raOk, hf]

theorem share_answer_me_good (s : St O) (x0 : Nat) (sc : Option Nat) (hdq : s.disqualified = false)
    (hwf : EntriesWF s) (hvok : VecOK s) (hown : ∀ c, s.find s.me = some c → c.received = false) :
    RelP (if (rsOk s x0).disqualified then rsOk s x0 else raOk (rsOk s x0) s.me sc)
         (if (raOk s s.me sc).disqualified then raOk s s.me sc else rsOk (raOk s s.me sc) x0) := by
  have hvA : s.vAReceived = true → s.vA.isSome = true := fun h => hvok h hdq
  cases hf : s.find s.me with
  | none =>
    cases sc with
    | none =>
      left
      by_cases hv : s.vAReceived = true
      · have hi := hvA hv
        by_cases hl : (setX s x0).verifyShare = true <;>
          simp [rsOk, bc_eq, raOk, hf, hdq, fresh, hv, hi, hl]
      · simp [rsOk, raOk, hf, hdq, hv]
    | some ans =>
      by_cases hv : s.vAReceived = true
      · have hi := hvA hv
        by_cases hl : (setX s x0).verifyShare = true
        · right
          have hl2 : (setX (s.setC s.me (early ans)) x0).verifyShare = true := hl
          simp [rsOk, raOk, hf, hdq, hv, hl, hl2]
          apply Equiv.of_eq
          apply St.ext' <;> simp
        · have hl' : (setX s x0).verifyShare = false := by simpa using hl
          have hl2 : (setX (s.setC s.me { received := false, answerReceived := true, answer := ans }) x0).verifyShare = false := hl'
          by_cases hc : s.checkComplaint s.me { received := true, answerReceived := true, answer := ans } = true
          · left
            simp [rsOk, bc_eq, raOk, hf, hdq, fresh, early, recv, hv, hi, hl', hl2, hc, setC_setC]
          · right
            have hc' : s.checkComplaint s.me { received := true, answerReceived := true, answer := ans } = false := by
              simpa using hc
            simp [rsOk, bc_eq, raOk, hf, hdq, fresh, early, recv, hv, hi, hl', hl2, hc', setC_setC]
            apply Equiv.of_eq
            apply St.ext' <;> simp [setC_setC]
      · right
        have hv' : s.vAReceived = false := by simpa using hv
        simp [rsOk, raOk, hf, hdq, hv']
        apply Equiv.of_eq
        apply St.ext' <;> simp
  | some c =>
    obtain ⟨r, ar, a0⟩ := c
    have hw := hwf s.me _ hf
    have hr := hown _ hf
    simp only at hr
    subst hr
    cases ar
    · simp at hw
    · -- an early answer is registered: a second answer is ignored, before or after the share
      have hB : raOk s s.me sc = s := by simp [raOk, hf]
      rw [hB]
      simp only [hdq, Bool.false_eq_true, if_false]
      right
      by_cases hd : (rsOk s x0).disqualified = true
      · simp only [hd, if_true]; exact Equiv.refl' _
      · simp only [hd, Bool.false_eq_true, if_false]
        apply Equiv.of_eq
        by_cases hv : s.vAReceived = true
        · have hi := hvA hv
          by_cases hl : (setX s x0).verifyShare = true
          · simp [rsOk, raOk, hf, hv, hl]
          · by_cases hc : s.checkComplaint s.me { received := true, answerReceived := true, answer := a0 } = true <;>
              simp [rsOk, bc_eq, raOk, hf, recv, hv, hi, hl, hc]
        · simp [rsOk, raOk, hf, hv]

end Proofs.DkgCommute
