import Proofs.EcdsaModel

/-! Exactness of the executable ECDSA verification: under the public key `d • G`, the model accepts `sig` on `h`
exactly when `sig` is what the signing function returns for some nonce - the converse of `sign_verify`. -/

namespace Proofs.EcdsaExact
open Model Model.Curve Proofs.CurveGroup Proofs.CurveInst Proofs.EcdsaModel

variable {S : Ecdsa.CurveSpec} {a b : ℕ} [Fact (Nat.Prime S.p)] [hn : Fact (Nat.Prime S.n)]

theorem split64 (sig : Bytes) (h : sig.length = 64) :
    natBE 32 (beNat (sig.take 32)) ++ natBE 32 (beNat (sig.drop 32)) = sig := by
  have h1 : (sig.take 32).length = 32 := by rw [List.length_take]; omega
  have h2 : (sig.drop 32).length = 32 := by rw [List.length_drop]; omega
  have e1 := Model.natBE_beNat (sig.take 32)
  have e2 := Model.natBE_beNat (sig.drop 32)
  rw [h1] at e1
  rw [h2] at e2
  rw [e1, e2, List.take_append_drop]

/-- **verify ⇒ signed with some nonce**: an accepted signature under `d • G` is the output of the signing function
    for the nonce `k = (e + r d) / s mod n` -/
theorem verify_sign (G : Good S a b) (d : ℕ) (hd : d < S.n) (h sig : Bytes) (Q : ℕ × ℕ)
    (hQ : Ecdsa.publicKeyOf S d = some Q) (hv : Ecdsa.verifyHash S Q h sig = true) :
    ∃ k, 0 < k ∧ k < S.n ∧ Ecdsa.signWith S d k h = some sig := by
  have hn0 : 0 < S.n := by have := G.n2; omega
  have hn800 : S.n < 2 ^ 800 := lt_trans G.n256 (Nat.pow_lt_pow_right (by decide) (by decide))
  unfold Ecdsa.verifyHash at hv
  by_cases hlen : sig.length = 64
  swap
  · rw [if_pos hlen] at hv; cases hv
  rw [if_neg (by simp [hlen])] at hv
  simp only [] at hv
  obtain ⟨r, hr⟩ : ∃ r, r = beNat (sig.take 32) := ⟨_, rfl⟩
  obtain ⟨s, hs⟩ : ∃ s, s = beNat (sig.drop 32) := ⟨_, rfl⟩
  obtain ⟨e, he⟩ : ∃ e, e = beNat (h.take 32) := ⟨_, rfl⟩
  rw [← hr, ← hs, ← he] at hv
  by_cases hz : r = 0 ∨ s = 0 ∨ r ≥ S.n ∨ s ≥ S.n
  · rw [if_pos hz] at hv; cases hv
  rw [if_neg hz] at hv
  have hr0 : r ≠ 0 := fun h' => hz (Or.inl h')
  have hs0 : s ≠ 0 := fun h' => hz (Or.inr (Or.inl h'))
  have hrn : r < S.n := by
    rcases Nat.lt_or_ge r S.n with h' | h'
    · exact h'
    · exact absurd (Or.inr (Or.inr (Or.inl h'))) hz
  have hsn : s < S.n := by
    rcases Nat.lt_or_ge s S.n with h' | h'
    · exact h'
    · exact absurd (Or.inr (Or.inr (Or.inr h'))) hz
  obtain ⟨w, hw⟩ : ∃ w, w = powMod s (S.n - 2) S.n := ⟨_, rfl⟩
  rw [← hw] at hv
  have cw : ((w : ℕ) : ZMod S.n) = (s : ZMod S.n)⁻¹ := by rw [hw]; exact Proofs.PowMod.powMod_inv S.n G.n2 hn800 s
  have hwn : w < S.n := by
    rw [hw, Proofs.PowMod.powMod_eq _ _ _ (by omega) (by omega)]; exact Nat.mod_lt _ hn0
  have cs0 : (s : ZMod S.n) ≠ 0 := by
    intro h'
    have := (ZMod.natCast_eq_zero_iff s S.n).1 h'
    exact hs0 (Nat.eq_zero_of_dvd_of_lt this hsn)
  -- the nonce
  obtain ⟨k, hk⟩ : ∃ k, k = (e + r * d) % S.n * w % S.n := ⟨_, rfl⟩
  have hkn : k < S.n := by rw [hk]; exact Nat.mod_lt _ hn0
  have ckk : (k : ZMod S.n) = ((e : ZMod S.n) + r * d) * (s : ZMod S.n)⁻¹ := by
    rw [hk, ZMod.natCast_mod, Nat.cast_mul, ZMod.natCast_mod, cw]; push_cast; ring
  -- the points
  have hbound : e % S.n * w < 2 ^ 800 := by
    have h1 : e % S.n * w < 2 ^ 256 * 2 ^ 256 :=
      Nat.mul_lt_mul'' (lt_trans (Nat.mod_lt _ hn0) G.n256) (lt_trans hwn G.n256)
    have h2 : (2 : ℕ) ^ 256 * 2 ^ 256 ≤ 2 ^ 800 := by
      rw [← pow_add]; exact Nat.pow_le_pow_right (by decide) (by decide)
    omega
  have u1 := nsmul_mod G (e % S.n * w) hbound
  have pk := mul_eq S.p a b G.hΔ G.h2 G.hb d (lt_trans hd hn800) S.g G.hg
  rw [← G.hC] at pk
  have hQ' : Curve.mul S.C d S.g = some Q := hQ
  have vQ : Valid S.p a b (some Q) := by rw [← hQ']; exact pk.1
  have u2 := mul_eq S.p a b G.hΔ G.h2 G.hb (r * w % S.n) (lt_trans (Nat.mod_lt _ hn0) hn800) (some Q) vQ
  rw [← G.hC] at u2
  have sm := addAff_eq S.p a b G.hΔ G.h2 G.hb _ _ u1.1 u2.1
  rw [← G.hC] at sm
  have kR := mul_eq S.p a b G.hΔ G.h2 G.hb k (lt_trans hkn hn800) S.g G.hg
  rw [← G.hC] at kR
  have e0 : S.n • toPoint S.p a b S.g = 0 := by
    have mn := mul_eq S.p a b G.hΔ G.h2 G.hb S.n hn800 S.g G.hg
    rw [← G.hC] at mn
    rw [← mn.2, G.hn]; rfl
  have key : (((e % S.n * w % S.n + r * w % S.n * d : ℕ)) : ZMod S.n) = k := by
    have e1 : ((e % S.n * w % S.n : ℕ) : ZMod S.n) = (e : ZMod S.n) * w := by
      rw [ZMod.natCast_mod, Nat.cast_mul, ZMod.natCast_mod]
    have e2 : ((r * w % S.n : ℕ) : ZMod S.n) = (r : ZMod S.n) * w := by
      rw [ZMod.natCast_mod, Nat.cast_mul]
    rw [Nat.cast_add, Nat.cast_mul, e1, e2, cw, ckk]
    ring
  have hsum : Curve.addAff S.C (Curve.mul S.C (e % S.n * w % S.n) S.g) (Curve.mul S.C (r * w % S.n) (some Q)) =
      Curve.mul S.C k S.g := by
    apply toPoint_inj S.p a b G.hΔ _ _ sm.1 kR.1
    rw [sm.2, u1.2, u2.2, kR.2, ← hQ', pk.2, smul_smul, ← add_smul]
    have hmod : (e % S.n * w + r * w % S.n * d) % S.n = k % S.n := by
      have := congrArg ZMod.val key
      have h1 : (e % S.n * w + r * w % S.n * d) % S.n = (e % S.n * w % S.n + r * w % S.n * d) % S.n := by
        conv_rhs => rw [Nat.add_mod, Nat.mod_mod, ← Nat.add_mod]
      rw [ZMod.val_natCast, ZMod.val_natCast] at this
      rw [h1]; exact this
    conv_lhs => rw [← Nat.mod_add_div' (e % S.n * w + r * w % S.n * d) S.n, add_smul, mul_smul, e0, nsmul_zero, add_zero, hmod]
    conv_rhs => rw [← Nat.mod_add_div' k S.n, add_smul, mul_smul, e0, nsmul_zero, add_zero]
  rw [hsum] at hv
  cases hR : Curve.mul S.C k S.g with
  | none => rw [hR] at hv; cases hv
  | some xy =>
    obtain ⟨x, y⟩ := xy
    rw [hR] at hv
    simp only [decide_eq_true_eq] at hv
    -- k ≠ 0
    have hk0 : 0 < k := by
      rcases Nat.eq_zero_or_pos k with h' | h'
      · rw [h'] at hR
        have m0 := mul_eq S.p a b G.hΔ G.h2 G.hb 0 (by positivity) S.g G.hg
        rw [← G.hC] at m0
        have vn : Valid S.p a b none := True.intro
        have : Curve.mul S.C 0 S.g = none := by
          apply toPoint_inj S.p a b G.hΔ _ _ m0.1 vn
          rw [m0.2]; exact zero_nsmul _
        rw [this] at hR; cases hR
      · exact h'
    have ck0 : (k : ZMod S.n) ≠ 0 := by
      intro h'
      have := (ZMod.natCast_eq_zero_iff k S.n).1 h'
      have := Nat.eq_zero_of_dvd_of_lt this hkn
      omega
    refine ⟨k, hk0, hkn, ?_⟩
    unfold Ecdsa.signWith
    rw [hR]
    simp only []
    rw [hv, ← he]
    have ck : ((powMod k (S.n - 2) S.n : ℕ) : ZMod S.n) = (k : ZMod S.n)⁻¹ := Proofs.PowMod.powMod_inv S.n G.n2 hn800 k
    have hne : (e : ZMod S.n) + r * d ≠ 0 := by
      intro h'; apply ck0; rw [ckk, h', zero_mul]
    have hs' : powMod k (S.n - 2) S.n * ((e + r * d) % S.n) % S.n = s := by
      have hc : (((powMod k (S.n - 2) S.n * ((e + r * d) % S.n) % S.n : ℕ)) : ZMod S.n) = (s : ZMod S.n) := by
        rw [ZMod.natCast_mod, Nat.cast_mul, ck, ZMod.natCast_mod, ckk]
        push_cast
        field_simp
      have := congrArg ZMod.val hc
      rw [ZMod.val_natCast, ZMod.val_natCast, Nat.mod_mod, Nat.mod_eq_of_lt hsn] at this
      exact this
    rw [hs', if_neg (by omega), hr, hs, split64 sig hlen]

/-- **exactness**: under the public key `d • G`, the accepted signatures on `h` are exactly the outputs of the signing
    function over all nonces -/
theorem verify_iff_signed (G : Good S a b) (d : ℕ) (hd : d < S.n) (h sig : Bytes) (Q : ℕ × ℕ)
    (hQ : Ecdsa.publicKeyOf S d = some Q) :
    Ecdsa.verifyHash S Q h sig = true ↔ ∃ k, 0 < k ∧ k < S.n ∧ Ecdsa.signWith S d k h = some sig :=
  ⟨verify_sign G d hd h sig Q hQ, fun ⟨k, _, hk, hs⟩ => sign_verify G d k hd hk h sig Q hQ hs⟩

end Proofs.EcdsaExact
#print axioms Proofs.EcdsaExact.verify_iff_signed
