import Mathlib.Data.Nat.ModEq
import Mathlib.Data.ZMod.Basic
import Mathlib.FieldTheory.Finite.Basic
import Mathlib.Tactic.Ring
import Model.Field

/-! `powMod` is modular exponentiation (for exponents below 2^800), and with exponent `p - 2` it is the
field inverse. -/

namespace Proofs.PowMod
open Model

theorem powModAux_modEq (m : Nat) (fuel a e acc : Nat) (he : e < 2 ^ fuel) :
    powModAux m fuel a e acc ≡ acc * a ^ e [MOD m] := by
  induction fuel generalizing a e acc with
  | zero =>
    have : e = 0 := by simpa using he
    subst this
    simp [powModAux, Nat.ModEq]
  | succ fuel ih =>
    unfold powModAux
    by_cases h0 : e = 0
    · subst h0; simp [Nat.ModEq]
    · rw [if_neg h0]
      have he2 : e / 2 < 2 ^ fuel := by
        rw [pow_succ] at he; omega
      refine (ih _ _ _ he2).trans ?_
      have hsq : (a * a % m) ^ (e / 2) ≡ a ^ (2 * (e / 2)) [MOD m] := by
        have : a * a % m ≡ a * a [MOD m] := Nat.mod_modEq _ _
        have h2 := this.pow (e / 2)
        have h3 : (a * a) ^ (e / 2) = a ^ (2 * (e / 2)) := by rw [← pow_two, ← pow_mul]
        rwa [h3] at h2
      by_cases h1 : e % 2 = 1
      · rw [if_pos h1]
        have hacc : acc * a % m ≡ acc * a [MOD m] := Nat.mod_modEq _ _
        have := hacc.mul hsq
        refine this.trans ?_
        have hE : e = 2 * (e / 2) + 1 := by omega
        conv_rhs => rw [hE, pow_succ]
        rw [Nat.ModEq]; congr 1; ring
      · rw [if_neg h1]
        have := (Nat.ModEq.refl acc).mul hsq
        refine this.trans ?_
        have hE : e = 2 * (e / 2) := by omega
        conv_rhs => rw [hE]

theorem powModAux_lt (m : Nat) (hm : 0 < m) (fuel a e acc : Nat) (hacc : acc < m) :
    powModAux m fuel a e acc < m := by
  induction fuel generalizing a e acc with
  | zero => simpa [powModAux]
  | succ fuel ih =>
    unfold powModAux
    split
    · exact hacc
    · apply ih
      split
      · exact Nat.mod_lt _ hm
      · exact hacc

/-- **`powMod` is modular exponentiation** -/
theorem powMod_eq (a e m : Nat) (hm : 1 < m) (he : e < 2 ^ 800) : powMod a e m = a ^ e % m := by
  unfold powMod
  have h1 := powModAux_modEq m 800 (a % m) e (1 % m) he
  have h2 := powModAux_lt m (by omega) 800 (a % m) e (1 % m) (Nat.mod_lt _ (by omega))
  have h3 : 1 % m * (a % m) ^ e ≡ a ^ e [MOD m] := by
    have := ((Nat.mod_modEq 1 m).mul ((Nat.mod_modEq a m).pow e))
    simpa using this
  have := h1.trans h3
  rw [Nat.ModEq, Nat.mod_eq_of_lt h2] at this
  exact this

theorem powMod_cast (a e m : Nat) (hm : 1 < m) (he : e < 2 ^ 800) :
    ((powMod a e m : Nat) : ZMod m) = (a : ZMod m) ^ e := by
  rw [powMod_eq a e m hm he, ZMod.natCast_mod, Nat.cast_pow]

/-- Fermat inverse: in `ZMod p`, `a ^ (p - 2) = a⁻¹` (both sides are 0 at `a = 0`, `p > 2`) -/
theorem pow_sub_two_eq_inv (p : Nat) [hp : Fact p.Prime] (h2 : 2 < p) (a : ZMod p) : a ^ (p - 2) = a⁻¹ := by
  by_cases ha : a = 0
  · subst ha
    rw [inv_zero, zero_pow (by omega)]
  · have h1 : a ^ (p - 1) = 1 := ZMod.pow_card_sub_one_eq_one ha
    have : a ^ (p - 2) * a = 1 := by
      rw [← pow_succ]
      have : p - 2 + 1 = p - 1 := by omega
      rw [this, h1]
    exact eq_inv_of_mul_eq_one_left this

/-- `powMod a (p-2) p` is the inverse of `a` in `F_p` -/
theorem powMod_inv (p : Nat) [hp : Fact p.Prime] (h2 : 2 < p) (hb : p < 2 ^ 800) (a : Nat) :
    ((powMod a (p - 2) p : Nat) : ZMod p) = (a : ZMod p)⁻¹ := by
  rw [powMod_cast a (p - 2) p (by omega) (by omega), pow_sub_two_eq_inv p h2]

end Proofs.PowMod
