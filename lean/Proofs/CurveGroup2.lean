import Mathlib.AlgebraicGeometry.EllipticCurve.Affine.Point
import Mathlib.Algebra.QuadraticAlgebra.Basic
import Proofs.CurveGroup
import Proofs.PowMod
import Model.Field
import Proofs.JacAlg

/-! The curve arithmetic of the executable model over `F_p² = F_p[u]/(u² + 1)` (`Model.Curve` over `Fp2.ops p`, the
arithmetic of `E2`) is the group law of the curve over Mathlib's `QuadraticAlgebra (ZMod p) (-1) 0`, a field when `-1`
is not a square in `ZMod p`. Same proof as `Proofs/CurveGroup.lean`, with pairs of canonical naturals for field
elements. -/

namespace Proofs.CurveGroup2
open Model Model.Curve WeierstrassCurve.Affine

variable (p : ℕ) [hp : Fact p.Prime] [h34 : Fact (∀ r : ZMod p, r ^ 2 ≠ (-1 : ZMod p) + 0 * r)]

/-- `F_p²` as Mathlib has it -/
abbrev K := QuadraticAlgebra (ZMod p) (-1) 0

/-- the field element a pair of naturals stands for -/
def φ (x : ℕ × ℕ) : K p := ⟨(x.1 : ZMod p), (x.2 : ZMod p)⟩

instance : Coe (ℕ × ℕ) (K p) := ⟨φ p⟩

/-- canonical pairs -/
def canon (x : ℕ × ℕ) : Prop := x.1 < p ∧ x.2 < p

/-- the model's curve parameters over `F_p²` -/
def C (a b : ℕ × ℕ) : Params (ℕ × ℕ) := { f := Fp2.ops p, a := a, b := b }

/-- the same curve in Mathlib -/
def W (a b : ℕ × ℕ) : WeierstrassCurve.Affine (K p) := ⟨0, 0, 0, (a : K p), (b : K p)⟩

section field

theorem c_add (x y : ℕ × ℕ) : ((Fp2.add p x y : ℕ × ℕ) : K p) = (x : K p) + y := by
  show φ p _ = φ p x + φ p y
  unfold φ Fp2.add
  ext
  · simp [Proofs.CurveGroup.c_add]
  · simp [Proofs.CurveGroup.c_add]

theorem c_sub (x y : ℕ × ℕ) : ((Fp2.sub p x y : ℕ × ℕ) : K p) = (x : K p) - y := by
  show φ p _ = φ p x - φ p y
  unfold φ Fp2.sub
  ext
  · simp [Proofs.CurveGroup.c_sub]
  · simp [Proofs.CurveGroup.c_sub]

theorem c_mul (x y : ℕ × ℕ) : ((Fp2.mul p x y : ℕ × ℕ) : K p) = (x : K p) * y := by
  show φ p _ = φ p x * φ p y
  unfold φ Fp2.mul
  ext
  · simp [Proofs.CurveGroup.c_sub, Proofs.CurveGroup.c_mul]; ring
  · simp [Proofs.CurveGroup.c_add, Proofs.CurveGroup.c_mul]

theorem c_zero : (((0, 0) : ℕ × ℕ) : K p) = 0 := by
  show φ p _ = 0
  unfold φ; ext <;> simp

theorem c_one : (((1 % p, 0) : ℕ × ℕ) : K p) = 1 := by
  show φ p _ = 1
  unfold φ; ext <;> simp [QuadraticAlgebra.re_one, QuadraticAlgebra.im_one]

theorem c_inv (h2 : 2 < p) (hb : p < 2 ^ 800) (x : ℕ × ℕ) : ((Fp2.inv p x : ℕ × ℕ) : K p) = (x : K p)⁻¹ := by
  show φ p _ = (φ p x)⁻¹
  unfold φ Fp2.inv
  ext
  · simp [QuadraticAlgebra.inv_def, QuadraticAlgebra.norm_def, Proofs.CurveGroup.c_mul, Proofs.CurveGroup.c_add,
      Proofs.CurveGroup.c_neg, Proofs.CurveGroup.c_inv p h2 hb]
    ring
  · simp [QuadraticAlgebra.inv_def, QuadraticAlgebra.norm_def, Proofs.CurveGroup.c_mul, Proofs.CurveGroup.c_add,
      Proofs.CurveGroup.c_neg, Proofs.CurveGroup.c_inv p h2 hb]
    ring

theorem lt_add (x y : ℕ × ℕ) : canon p (Fp2.add p x y) :=
  ⟨Proofs.CurveGroup.lt_add p _ _, Proofs.CurveGroup.lt_add p _ _⟩
theorem lt_sub (x y : ℕ × ℕ) : canon p (Fp2.sub p x y) :=
  ⟨Proofs.CurveGroup.lt_sub p _ _, Proofs.CurveGroup.lt_sub p _ _⟩
theorem lt_mul (x y : ℕ × ℕ) : canon p (Fp2.mul p x y) :=
  ⟨Proofs.CurveGroup.lt_sub p _ _, Proofs.CurveGroup.lt_add p _ _⟩
theorem lt_zero : canon p (0, 0) := ⟨hp.out.pos, hp.out.pos⟩
theorem lt_one : canon p (1 % p, 0) := ⟨Nat.mod_lt _ hp.out.pos, hp.out.pos⟩

theorem cast_inj {x y : ℕ × ℕ} (hx : canon p x) (hy : canon p y) : (x : K p) = y ↔ x = y := by
  constructor
  · intro h
    have h' : φ p x = φ p y := h
    unfold φ at h'
    have h1 := congrArg QuadraticAlgebra.re h'
    have h2 := congrArg QuadraticAlgebra.im h'
    simp only at h1 h2
    exact Prod.ext ((Proofs.CurveGroup.cast_inj p hx.1 hy.1).1 h1) ((Proofs.CurveGroup.cast_inj p hx.2 hy.2).1 h2)
  · intro h; rw [h]

end field

section curve

variable (a b : ℕ × ℕ)

/-- a point of the model that is in canonical form and on the curve -/
def Valid : Aff (ℕ × ℕ) → Prop
  | none => True
  | some (x, y) => canon p x ∧ canon p y ∧ onCurve (C p a b) (some (x, y)) = true

theorem W_a (a b : ℕ × ℕ) : (W p a b).a₁ = 0 ∧ (W p a b).a₂ = 0 ∧ (W p a b).a₃ = 0 ∧ (W p a b).a₄ = (a : K p) ∧
    (W p a b).a₆ = (b : K p) := ⟨rfl, rfl, rfl, rfl, rfl⟩

theorem negY_eq (x y : K p) : (W p a b).negY x y = -y := by
  unfold WeierstrassCurve.Affine.negY
  rw [(W_a p a b).1, (W_a p a b).2.2.1]; ring

/-- the model's curve test is Mathlib's Weierstrass equation -/
theorem onCurve_iff {x y : ℕ × ℕ} (hx : canon p x) (hy : canon p y) :
    onCurve (C p a b) (some (x, y)) = true ↔ (W p a b).Equation (x : K p) (y : K p) := by
  rw [equation_iff, (W_a p a b).1, (W_a p a b).2.1, (W_a p a b).2.2.1, (W_a p a b).2.2.2.1, (W_a p a b).2.2.2.2]
  show (Fp2.mul p y y == Fp2.add p (Fp2.add p (Fp2.mul p (Fp2.mul p x x) x) (Fp2.mul p a x)) b) = true ↔ _
  rw [beq_iff_eq, ← cast_inj p (lt_mul p y y) (lt_add p _ _)]
  rw [c_mul, c_add, c_add, c_mul, c_mul, c_mul]
  constructor
  · intro h; linear_combination h
  · intro h; linear_combination h

open Classical in
/-- the point of Mathlib's curve a model point stands for (infinity for anything that is not a nonsingular point) -/
noncomputable def toPoint : Aff (ℕ × ℕ) → (W p a b).Point
  | none => 0
  | some (x, y) => if h : (W p a b).Nonsingular (x : K p) (y : K p) then .some _ _ h else 0

theorem toPoint_some {x y : ℕ × ℕ} (h : (W p a b).Nonsingular (x : K p) (y : K p)) :
    toPoint p a b (some (x, y)) = .some _ _ h := by
  unfold toPoint; exact dif_pos h

theorem some_congr {x y x' y' : K p} (h : (W p a b).Nonsingular x y) (hx : x = x') (hy : y = y')
    (h' : (W p a b).Nonsingular x' y') : (Point.some x y h : (W p a b).Point) = Point.some x' y' h' := by
  subst hx; subst hy; rfl

variable (hΔ : (W p a b).Δ ≠ 0) (h2 : 2 < p) (hb : p < 2 ^ 800)
include hΔ h2 hb

theorem valid_nonsingular {x y : ℕ × ℕ} (h : Valid p a b (some (x, y))) :
    (W p a b).Nonsingular (x : K p) (y : K p) :=
  ((W p a b).equation_iff_nonsingular_of_Δ_ne_zero hΔ).1 ((onCurve_iff p a b h.1 h.2.1).1 h.2.2)

/-- **the model's affine addition is the group law**: on canonical points of the curve, `addAff` gives a canonical
    point of the curve, and it is the sum in Mathlib's group of points -/
theorem addAff_eq (P Q : Aff (ℕ × ℕ)) (hP : Valid p a b P) (hQ : Valid p a b Q) :
    Valid p a b (addAff (C p a b) P Q) ∧
      toPoint p a b (addAff (C p a b) P Q) = toPoint p a b P + toPoint p a b Q := by
  match P, Q, hP, hQ with
  | none, Q, _, hQ =>
    refine ⟨by cases Q <;> exact hQ, ?_⟩
    show toPoint p a b Q = 0 + toPoint p a b Q
    rw [zero_add]
  | some (x1, y1), none, hP, _ =>
    refine ⟨hP, ?_⟩
    show toPoint p a b (some (x1, y1)) = toPoint p a b (some (x1, y1)) + 0
    rw [add_zero]
  | some (x1, y1), some (x2, y2), hP, hQ =>
    have n1 := valid_nonsingular p a b hΔ h2 hb hP
    have n2 := valid_nonsingular p a b hΔ h2 hb hQ
    rw [toPoint_some p a b n1, toPoint_some p a b n2]
    obtain ⟨hx1, hy1, _⟩ := hP
    obtain ⟨hx2, hy2, _⟩ := hQ
    unfold addAff
    simp only []
    show Valid p a b (if (x1 == x2) = true then _ else _) ∧ toPoint p a b (if (x1 == x2) = true then _ else _) = _
    by_cases hx : x1 = x2
    · have hxb : (x1 == x2) = true := by simpa using hx
      rw [if_pos hxb]
      have hxc : (x1 : K p) = x2 := by rw [hx]
      show Valid p a b (if (Fp2.add p y1 y2 == (0, 0)) = true then _ else _) ∧
        toPoint p a b (if (Fp2.add p y1 y2 == (0, 0)) = true then _ else _) = _
      by_cases hy : Fp2.add p y1 y2 = (0, 0)
      · have hyb : (Fp2.add p y1 y2 == (0, 0)) = true := by simpa using hy
        rw [if_pos hyb]
        refine ⟨trivial, ?_⟩
        have hyc : (y1 : K p) = (W p a b).negY x2 y2 := by
          rw [negY_eq]
          have := congrArg (φ p) hy
          rw [c_add, c_zero p] at this
          linear_combination this
        rw [Point.add_of_Y_eq hxc hyc]
        rfl
      · have hyb : ¬ (Fp2.add p y1 y2 == (0, 0)) = true := by simpa using hy
        rw [if_neg hyb]
        have hyc : (y1 : K p) ≠ (W p a b).negY x2 y2 := by
          rw [negY_eq]
          intro h
          apply hy
          rw [← cast_inj p (lt_add p y1 y2) (lt_zero p), c_add, c_zero p, h]; ring
        rw [Point.add_of_Y_ne hyc]
        -- the coordinates
        have hsl : (W p a b).slope (x1 : K p) x2 y1 y2 =
            ((Fp2.mul p (Fp2.add p (Fp2.mul p (Fp2.add p (1 % p, 0) (Fp2.add p (1 % p, 0) (1 % p, 0))) (Fp2.mul p x1 x1)) a)
              (Fp2.inv p (Fp2.add p y1 y1)) : ℕ × ℕ) : K p) := by
          rw [slope_of_Y_ne hxc hyc, negY_eq, (W_a p a b).1, (W_a p a b).2.1, (W_a p a b).2.2.2.1]
          rw [c_mul, c_inv p h2 hb, c_add, c_add, c_mul, c_mul, c_add, c_add]
          rw [c_one p, div_eq_mul_inv]
          congr 1
          · ring
          · congr 1; ring
        set l := Fp2.mul p (Fp2.add p (Fp2.mul p (Fp2.add p (1 % p, 0) (Fp2.add p (1 % p, 0) (1 % p, 0))) (Fp2.mul p x1 x1)) a)
              (Fp2.inv p (Fp2.add p y1 y1)) with hl
        have cx3 : ((Fp2.sub p (Fp2.sub p (Fp2.mul p l l) x1) x1 : ℕ × ℕ) : K p) =
            (W p a b).addX x1 x2 ((W p a b).slope (x1 : K p) x2 y1 y2) := by
          rw [hsl]
          unfold WeierstrassCurve.Affine.addX
          rw [(W_a p a b).1, (W_a p a b).2.1, c_sub, c_sub, c_mul, ← hxc]; ring
        have cy3 : ((Fp2.sub p (Fp2.mul p l (Fp2.sub p x1 (Fp2.sub p (Fp2.sub p (Fp2.mul p l l) x1) x1))) y1 : ℕ × ℕ) : K p) =
            (W p a b).addY x1 x2 y1 ((W p a b).slope (x1 : K p) x2 y1 y2) := by
          unfold WeierstrassCurve.Affine.addY WeierstrassCurve.Affine.negAddY
          rw [negY_eq, ← cx3, hsl, c_sub, c_mul, c_sub]; ring
        have nadd := nonsingular_add n1 n2 (fun hxy => hyc hxy.2)
        have n3 : (W p a b).Nonsingular
            ((Fp2.sub p (Fp2.sub p (Fp2.mul p l l) x1) x1 : ℕ × ℕ) : K p)
            ((Fp2.sub p (Fp2.mul p l (Fp2.sub p x1 (Fp2.sub p (Fp2.sub p (Fp2.mul p l l) x1) x1))) y1 : ℕ × ℕ) : K p) := by
          rw [cx3, cy3]; exact nadd
        refine ⟨⟨lt_sub p _ _, lt_sub p _ _, (onCurve_iff p a b (lt_sub p _ _) (lt_sub p _ _)).2 n3.1⟩, ?_⟩
        show toPoint p a b (some (Fp2.sub p (Fp2.sub p (Fp2.mul p l l) x1) x1,
          Fp2.sub p (Fp2.mul p l (Fp2.sub p x1 (Fp2.sub p (Fp2.sub p (Fp2.mul p l l) x1) x1))) y1)) = _
        rw [toPoint_some p a b n3]
        exact some_congr p a b n3 cx3 cy3 nadd
    · have hxb : ¬ (x1 == x2) = true := by simpa using hx
      rw [if_neg hxb]
      have hxc : (x1 : K p) ≠ x2 := fun h => hx ((cast_inj p hx1 hx2).1 h)
      rw [Point.add_of_X_ne hxc]
      have hsl : (W p a b).slope (x1 : K p) x2 y1 y2 =
          ((Fp2.mul p (Fp2.sub p y2 y1) (Fp2.inv p (Fp2.sub p x2 x1)) : ℕ × ℕ) : K p) := by
        rw [slope_of_X_ne hxc, c_mul, c_inv p h2 hb, c_sub, c_sub, div_eq_mul_inv]
        have hne : (x1 : K p) - x2 ≠ 0 := sub_ne_zero.2 hxc
        have hne' : (x2 : K p) - x1 ≠ 0 := sub_ne_zero.2 (Ne.symm hxc)
        field_simp
        ring
      set l := Fp2.mul p (Fp2.sub p y2 y1) (Fp2.inv p (Fp2.sub p x2 x1)) with hl
      have cx3 : ((Fp2.sub p (Fp2.sub p (Fp2.mul p l l) x1) x2 : ℕ × ℕ) : K p) =
          (W p a b).addX x1 x2 ((W p a b).slope (x1 : K p) x2 y1 y2) := by
        rw [hsl]
        unfold WeierstrassCurve.Affine.addX
        rw [(W_a p a b).1, (W_a p a b).2.1, c_sub, c_sub, c_mul]; ring
      have cy3 : ((Fp2.sub p (Fp2.mul p l (Fp2.sub p x1 (Fp2.sub p (Fp2.sub p (Fp2.mul p l l) x1) x2))) y1 : ℕ × ℕ) : K p) =
          (W p a b).addY x1 x2 y1 ((W p a b).slope (x1 : K p) x2 y1 y2) := by
        unfold WeierstrassCurve.Affine.addY WeierstrassCurve.Affine.negAddY
        rw [negY_eq, ← cx3, hsl, c_sub, c_mul, c_sub]; ring
      have nadd := nonsingular_add n1 n2 (fun hxy => hxc hxy.1)
      have n3 : (W p a b).Nonsingular
          ((Fp2.sub p (Fp2.sub p (Fp2.mul p l l) x1) x2 : ℕ × ℕ) : K p)
          ((Fp2.sub p (Fp2.mul p l (Fp2.sub p x1 (Fp2.sub p (Fp2.sub p (Fp2.mul p l l) x1) x2))) y1 : ℕ × ℕ) : K p) := by
        rw [cx3, cy3]; exact nadd
      refine ⟨⟨lt_sub p _ _, lt_sub p _ _, (onCurve_iff p a b (lt_sub p _ _) (lt_sub p _ _)).2 n3.1⟩, ?_⟩
      show toPoint p a b (some (Fp2.sub p (Fp2.sub p (Fp2.mul p l l) x1) x2,
        Fp2.sub p (Fp2.mul p l (Fp2.sub p x1 (Fp2.sub p (Fp2.sub p (Fp2.mul p l l) x1) x2))) y1)) = _
      rw [toPoint_some p a b n3]
      exact some_congr p a b n3 cx3 cy3 nadd

end curve

section jacobian

variable (a b : ℕ × ℕ)

theorem cast_ne_zero {x : ℕ × ℕ} (hx : canon p x) (h0 : x ≠ (0, 0)) : (x : K p) ≠ 0 := by
  intro h
  apply h0
  have := (cast_inj p hx (lt_zero p)).1 (by rw [h, c_zero p])
  exact this

/-- a Jacobian triple with canonical coordinates standing for a canonical point of the curve -/
def JValid (J : Jac (ℕ × ℕ)) : Prop := canon p J.x ∧ canon p J.y ∧ canon p J.z ∧ Valid p a b (fromJac (C p a b) J)

theorem fromJac_zero (J : Jac (ℕ × ℕ)) (hz : J.z = (0, 0)) : fromJac (C p a b) J = none := by
  unfold fromJac
  show (if (J.z == (0, 0)) = true then _ else _) = _
  rw [if_pos (by simpa using hz)]

theorem fromJac_some (J : Jac (ℕ × ℕ)) (hz : J.z ≠ (0, 0)) : fromJac (C p a b) J =
    some (Fp2.mul p J.x (Fp2.mul p (Fp2.inv p J.z) (Fp2.inv p J.z)),
      Fp2.mul p J.y (Fp2.mul p (Fp2.mul p (Fp2.inv p J.z) (Fp2.inv p J.z)) (Fp2.inv p J.z))) := by
  unfold fromJac
  show (if (J.z == (0, 0)) = true then _ else _) = _
  rw [if_neg (by simpa using hz)]
  rfl

variable (h2 : 2 < p) (hb : p < 2 ^ 800)
include h2 hb

theorem c_affx (x z : ℕ × ℕ) : ((Fp2.mul p x (Fp2.mul p (Fp2.inv p z) (Fp2.inv p z)) : ℕ × ℕ) : K p) = (x : K p) / (z : K p) ^ 2 := by
  rw [c_mul, c_mul, c_inv p h2 hb, div_eq_mul_inv]; ring

theorem c_affy (y z : ℕ × ℕ) :
    ((Fp2.mul p y (Fp2.mul p (Fp2.mul p (Fp2.inv p z) (Fp2.inv p z)) (Fp2.inv p z)) : ℕ × ℕ) : K p) = (y : K p) / (z : K p) ^ 3 := by
  rw [c_mul, c_mul, c_mul, c_inv p h2 hb, div_eq_mul_inv]; ring

theorem two_ne_zero' : (2 : K p) ≠ 0 := by
  intro h
  have := congrArg QuadraticAlgebra.re h
  rw [QuadraticAlgebra.re_ofNat, QuadraticAlgebra.re_zero] at this
  exact Proofs.CurveGroup.two_ne_zero' p h2 hb this

omit h2 hb in
theorem pair_eq_of_cast {x y x' y' : ℕ × ℕ} (hx : canon p x) (hy : canon p y) (hx' : canon p x') (hy' : canon p y')
    (h1 : (x : K p) = x') (h2' : (y : K p) = y') : (some (x, y) : Aff (ℕ × ℕ)) = some (x', y') := by
  rw [(cast_inj p hx hx').1 h1, (cast_inj p hy hy').1 h2']

/-- **Jacobian doubling is affine doubling** -/
theorem dblJac_eq (J : Jac (ℕ × ℕ)) (hJ : JValid p a b J) :
    canon p (dblJac (C p a b) J).x ∧ canon p (dblJac (C p a b) J).y ∧ canon p (dblJac (C p a b) J).z ∧
    fromJac (C p a b) (dblJac (C p a b) J) = addAff (C p a b) (fromJac (C p a b) J) (fromJac (C p a b) J) := by
  obtain ⟨hx, hy, hz, hv⟩ := hJ
  have hp0 : canon p (0, 0) := lt_zero p
  have h1p : canon p (1 % p, 0) := lt_one p
  by_cases hz0 : J.z = (0, 0)
  · have hd : dblJac (C p a b) J = ⟨(1 % p, 0), (1 % p, 0), (0, 0)⟩ := by
      unfold dblJac
      show (if ((J.z == (0, 0)) || (J.y == (0, 0))) = true then _ else _) = _
      rw [if_pos (by simp [hz0])]; rfl
    rw [hd, fromJac_zero p a b J hz0, fromJac_zero p a b ⟨(1 % p, 0), (1 % p, 0), (0, 0)⟩ rfl]
    exact ⟨h1p, h1p, hp0, rfl⟩
  · by_cases hy0 : J.y = (0, 0)
    · have hd : dblJac (C p a b) J = ⟨(1 % p, 0), (1 % p, 0), (0, 0)⟩ := by
        unfold dblJac
        show (if ((J.z == (0, 0)) || (J.y == (0, 0))) = true then _ else _) = _
        rw [if_pos (by simp [hy0])]; rfl
      rw [hd, fromJac_zero p a b ⟨(1 % p, 0), (1 % p, 0), (0, 0)⟩ rfl, fromJac_some p a b J hz0]
      refine ⟨h1p, h1p, hp0, ?_⟩
      unfold addAff
      simp only []
      show none = (if (_ == _) = true then (if (Fp2.add p _ _ == (0, 0)) = true then none else _) else _)
      rw [if_pos (by simp)]
      have : Fp2.add p (Fp2.mul p J.y (Fp2.mul p (Fp2.mul p (Fp2.inv p J.z) (Fp2.inv p J.z)) (Fp2.inv p J.z)))
          (Fp2.mul p J.y (Fp2.mul p (Fp2.mul p (Fp2.inv p J.z) (Fp2.inv p J.z)) (Fp2.inv p J.z))) = (0, 0) := by
        rw [hy0]; simp [Fp2.add, Fp2.mul, Fp.add, Fp.mul, Fp.sub]
      rw [if_pos (by simp [this])]
    · -- the doubling formulas
      have cz : (J.z : K p) ≠ 0 := cast_ne_zero p hz hz0
      have cy : (J.y : K p) ≠ 0 := cast_ne_zero p hy hy0
      have c2 := two_ne_zero' p h2 hb
      have hcond : ¬ (((J.z == (0, 0)) || (J.y == (0, 0))) = true) := by simp [hz0, hy0]
      -- names for the model's intermediate values
      set xx := Fp2.mul p J.x J.x with hxx
      set yy := Fp2.mul p J.y J.y with hyy
      set yyyy := Fp2.mul p yy yy with hyyyy
      set zz := Fp2.mul p J.z J.z with hzz
      set t := Fp2.add p J.x yy with ht
      set s0 := Fp2.sub p (Fp2.sub p (Fp2.mul p t t) xx) yyyy with hs0
      set sS := Fp2.add p s0 s0 with hsS
      set m := Fp2.add p (Fp2.add p (Fp2.add p xx xx) xx) (Fp2.mul p a (Fp2.mul p zz zz)) with hm
      set x3 := Fp2.sub p (Fp2.mul p m m) (Fp2.add p sS sS) with hx3
      set y8 := Fp2.add p (Fp2.add p (Fp2.add p yyyy yyyy) (Fp2.add p yyyy yyyy))
        (Fp2.add p (Fp2.add p yyyy yyyy) (Fp2.add p yyyy yyyy)) with hy8
      set y3 := Fp2.sub p (Fp2.mul p m (Fp2.sub p sS x3)) y8 with hy3
      set yz := Fp2.add p J.y J.z with hyz
      set z3 := Fp2.sub p (Fp2.sub p (Fp2.mul p yz yz) yy) zz with hz3
      have hd : dblJac (C p a b) J = ⟨x3, y3, z3⟩ := by
        unfold dblJac
        show (if ((J.z == (0, 0)) || (J.y == (0, 0))) = true then _ else _) = _
        rw [if_neg hcond]
        rfl
      clear_value z3 y3 x3 yz y8 m sS s0 t zz yyyy yy xx
      have cS : (sS : K p) = 4 * J.x * (J.y : K p) ^ 2 := by
        rw [hsS, c_add, hs0, c_sub, c_sub, c_mul, ht, c_add, hyyyy, c_mul, hyy, c_mul, hxx, c_mul]; ring
      have cM : (m : K p) = 3 * (J.x : K p) ^ 2 + a * (J.z : K p) ^ 4 := by
        rw [hm, c_add, c_add, c_add, c_mul, c_mul, hzz, c_mul, hxx, c_mul]; ring
      have cX3 : (x3 : K p) = (3 * (J.x : K p) ^ 2 + a * (J.z : K p) ^ 4) ^ 2 - 2 * (4 * J.x * (J.y : K p) ^ 2) := by
        rw [hx3, c_sub, c_mul, c_add, cS, cM]; ring
      have cY3 : (y3 : K p) = (3 * (J.x : K p) ^ 2 + a * (J.z : K p) ^ 4) * (4 * J.x * (J.y : K p) ^ 2 - x3) -
          8 * (J.y : K p) ^ 4 := by
        rw [hy3, c_sub, c_mul, c_sub, cS, cM, hy8]
        simp only [c_add]
        rw [hyyyy, c_mul, hyy, c_mul]; ring
      have cZ3 : (z3 : K p) = 2 * J.y * J.z := by
        rw [hz3, c_sub, c_sub, c_mul, hyz, c_add, hyy, c_mul, hzz, c_mul]; ring
      have cz3 : (z3 : K p) ≠ 0 := by rw [cZ3]; exact mul_ne_zero (mul_ne_zero c2 cy) cz
      have hz3lt : canon p z3 := by rw [hz3]; exact lt_sub p _ _
      have hz3ne : z3 ≠ (0, 0) := by
        intro h; apply cz3; rw [h, c_zero p]
      rw [hd]
      refine ⟨by rw [hx3]; exact lt_sub p _ _, by rw [hy3]; exact lt_sub p _ _, hz3lt, ?_⟩
      rw [fromJac_some p a b ⟨x3, y3, z3⟩ hz3ne, fromJac_some p a b J hz0]
      -- the affine side
      set xa := Fp2.mul p J.x (Fp2.mul p (Fp2.inv p J.z) (Fp2.inv p J.z)) with hxa
      set ya := Fp2.mul p J.y (Fp2.mul p (Fp2.mul p (Fp2.inv p J.z) (Fp2.inv p J.z)) (Fp2.inv p J.z)) with hya
      have cxa : (xa : K p) = (J.x : K p) / (J.z : K p) ^ 2 := c_affx p h2 hb _ _
      have cya : (ya : K p) = (J.y : K p) / (J.z : K p) ^ 3 := c_affy p h2 hb _ _
      clear_value xa ya
      have cya0 : (ya : K p) ≠ 0 := by rw [cya]; exact div_ne_zero cy (pow_ne_zero _ cz)
      have hsum : Fp2.add p ya ya ≠ (0, 0) := by
        intro h
        have := congrArg (φ p) h
        rw [c_add, c_zero p] at this
        have h2y : (2 : K p) * ya = 0 := by linear_combination this
        rcases mul_eq_zero.1 h2y with h' | h'
        · exact c2 h'
        · exact cya0 h'
      unfold addAff
      simp only []
      show _ = (if (xa == xa) = true then (if (Fp2.add p ya ya == (0, 0)) = true then none else _) else _)
      rw [if_pos (by simp), if_neg (by simpa using hsum)]
      obtain ⟨l, hl⟩ : ∃ l, l = (Fp2.mul p (Fp2.add p (Fp2.mul p (Fp2.add p (1 % p, 0) (Fp2.add p (1 % p, 0) (1 % p, 0))) (Fp2.mul p xa xa)) a) (Fp2.inv p (Fp2.add p ya ya))) := ⟨_, rfl⟩
      show some (Fp2.mul p x3 (Fp2.mul p (Fp2.inv p z3) (Fp2.inv p z3)),
          Fp2.mul p y3 (Fp2.mul p (Fp2.mul p (Fp2.inv p z3) (Fp2.inv p z3)) (Fp2.inv p z3))) =
        some (Fp2.sub p (Fp2.sub p (Fp2.mul p (Fp2.mul p (Fp2.add p (Fp2.mul p (Fp2.add p (1 % p, 0) (Fp2.add p (1 % p, 0) (1 % p, 0))) (Fp2.mul p xa xa)) a) (Fp2.inv p (Fp2.add p ya ya))) (Fp2.mul p (Fp2.add p (Fp2.mul p (Fp2.add p (1 % p, 0) (Fp2.add p (1 % p, 0) (1 % p, 0))) (Fp2.mul p xa xa)) a) (Fp2.inv p (Fp2.add p ya ya)))) xa) xa,
          Fp2.sub p (Fp2.mul p (Fp2.mul p (Fp2.add p (Fp2.mul p (Fp2.add p (1 % p, 0) (Fp2.add p (1 % p, 0) (1 % p, 0))) (Fp2.mul p xa xa)) a) (Fp2.inv p (Fp2.add p ya ya))) (Fp2.sub p xa (Fp2.sub p (Fp2.sub p (Fp2.mul p (Fp2.mul p (Fp2.add p (Fp2.mul p (Fp2.add p (1 % p, 0) (Fp2.add p (1 % p, 0) (1 % p, 0))) (Fp2.mul p xa xa)) a) (Fp2.inv p (Fp2.add p ya ya))) (Fp2.mul p (Fp2.add p (Fp2.mul p (Fp2.add p (1 % p, 0) (Fp2.add p (1 % p, 0) (1 % p, 0))) (Fp2.mul p xa xa)) a) (Fp2.inv p (Fp2.add p ya ya)))) xa) xa))) ya)
      rw [← hl]
      have cl : (l : K p) = (3 * ((J.x : K p) / (J.z : K p) ^ 2) ^ 2 + a) /
          ((J.y : K p) / (J.z : K p) ^ 3 + (J.y : K p) / (J.z : K p) ^ 3) := by
        rw [hl, c_mul, c_inv p h2 hb, c_add, c_add, c_mul, c_mul, c_add, c_add, c_one, cxa, cya, div_eq_mul_inv]
        ring
      have ex : ((Fp2.mul p x3 (Fp2.mul p (Fp2.inv p z3) (Fp2.inv p z3)) : ℕ × ℕ) : K p) =
          ((Fp2.sub p (Fp2.sub p (Fp2.mul p l l) xa) xa : ℕ × ℕ) : K p) := by
        rw [c_affx p h2 hb, cX3, cZ3, Proofs.JacAlg.dbl_x _ _ _ _ cz cy c2, c_sub, c_sub, c_mul, cl, cxa]
        ring
      apply pair_eq_of_cast p (lt_mul p _ _) (lt_mul p _ _) (lt_sub p _ _) (lt_sub p _ _) ex
      rw [c_affy p h2 hb, cY3, cZ3]
      have ex' : (x3 : K p) = ((Fp2.mul p x3 (Fp2.mul p (Fp2.inv p z3) (Fp2.inv p z3)) : ℕ × ℕ) : K p) * (2 * J.y * J.z) ^ 2 := by
        rw [c_affx p h2 hb, cZ3]; field_simp
      rw [Proofs.JacAlg.dbl_y _ _ _ _ _ cz cy c2, c_sub, c_mul, c_sub, cl, cxa, cya, ← ex, c_affx p h2 hb, cZ3]

omit h2 hb in
theorem valid_eq {x y : ℕ × ℕ} (h : Valid p a b (some (x, y))) :
    (y : K p) ^ 2 = (x : K p) ^ 3 + a * x + b := by
  have := (onCurve_iff p a b h.1 h.2.1).1 h.2.2
  rw [equation_iff, (W_a p a b).1, (W_a p a b).2.1, (W_a p a b).2.2.1, (W_a p a b).2.2.2.1, (W_a p a b).2.2.2.2] at this
  linear_combination this

/-- **Jacobian addition is affine addition** -/
theorem addJac_eq (P Q : Jac (ℕ × ℕ)) (hP : JValid p a b P) (hQ : JValid p a b Q) :
    canon p (addJac (C p a b) P Q).x ∧ canon p (addJac (C p a b) P Q).y ∧ canon p (addJac (C p a b) P Q).z ∧
    fromJac (C p a b) (addJac (C p a b) P Q) = addAff (C p a b) (fromJac (C p a b) P) (fromJac (C p a b) Q) := by
  have hp0 : canon p (0, 0) := lt_zero p
  have h1p : canon p (1 % p, 0) := lt_one p
  by_cases hz1 : P.z = (0, 0)
  · have hd : addJac (C p a b) P Q = Q := by
      unfold addJac
      show (if (P.z == (0, 0)) = true then Q else _) = _
      rw [if_pos (by simpa using hz1)]
    rw [hd, fromJac_zero p a b P hz1]
    refine ⟨hQ.1, hQ.2.1, hQ.2.2.1, ?_⟩
    cases fromJac (C p a b) Q <;> rfl
  · by_cases hz2 : Q.z = (0, 0)
    · have hd : addJac (C p a b) P Q = P := by
        unfold addJac
        show (if (P.z == (0, 0)) = true then Q else if (Q.z == (0, 0)) = true then P else _) = _
        rw [if_neg (by simpa using hz1), if_pos (by simpa using hz2)]
      rw [hd, fromJac_zero p a b Q hz2, fromJac_some p a b P hz1]
      exact ⟨hP.1, hP.2.1, hP.2.2.1, rfl⟩
    · obtain ⟨hx1, hy1, hz1lt, hv1⟩ := hP
      obtain ⟨hx2, hy2, hz2lt, hv2⟩ := hQ
      have cz1 : (P.z : K p) ≠ 0 := cast_ne_zero p hz1lt hz1
      have cz2 : (Q.z : K p) ≠ 0 := cast_ne_zero p hz2lt hz2
      rw [fromJac_some p a b P hz1] at hv1 ⊢
      rw [fromJac_some p a b Q hz2] at hv2 ⊢
      set xa1 := Fp2.mul p P.x (Fp2.mul p (Fp2.inv p P.z) (Fp2.inv p P.z)) with hxa1
      set ya1 := Fp2.mul p P.y (Fp2.mul p (Fp2.mul p (Fp2.inv p P.z) (Fp2.inv p P.z)) (Fp2.inv p P.z)) with hya1
      set xa2 := Fp2.mul p Q.x (Fp2.mul p (Fp2.inv p Q.z) (Fp2.inv p Q.z)) with hxa2
      set ya2 := Fp2.mul p Q.y (Fp2.mul p (Fp2.mul p (Fp2.inv p Q.z) (Fp2.inv p Q.z)) (Fp2.inv p Q.z)) with hya2
      have cxa1 : (xa1 : K p) = (P.x : K p) / (P.z : K p) ^ 2 := c_affx p h2 hb _ _
      have cya1 : (ya1 : K p) = (P.y : K p) / (P.z : K p) ^ 3 := c_affy p h2 hb _ _
      have cxa2 : (xa2 : K p) = (Q.x : K p) / (Q.z : K p) ^ 2 := c_affx p h2 hb _ _
      have cya2 : (ya2 : K p) = (Q.y : K p) / (Q.z : K p) ^ 3 := c_affy p h2 hb _ _
      have lxa1 : canon p xa1 := lt_mul p _ _
      have lya1 : canon p ya1 := lt_mul p _ _
      have lxa2 : canon p xa2 := lt_mul p _ _
      have lya2 : canon p ya2 := lt_mul p _ _
      -- the model's intermediate values
      set z1z1 := Fp2.mul p P.z P.z with hz1z1
      set z2z2 := Fp2.mul p Q.z Q.z with hz2z2
      set u1 := Fp2.mul p P.x z2z2 with hu1
      set u2 := Fp2.mul p Q.x z1z1 with hu2
      set s1 := Fp2.mul p P.y (Fp2.mul p Q.z z2z2) with hs1
      set s2 := Fp2.mul p Q.y (Fp2.mul p P.z z1z1) with hs2
      have cu1 : (u1 : K p) = P.x * (Q.z : K p) ^ 2 := by rw [hu1, c_mul, hz2z2, c_mul]; ring
      have cu2 : (u2 : K p) = Q.x * (P.z : K p) ^ 2 := by rw [hu2, c_mul, hz1z1, c_mul]; ring
      have cs1 : (s1 : K p) = P.y * (Q.z : K p) ^ 3 := by rw [hs1, c_mul, c_mul, hz2z2, c_mul]; ring
      have cs2 : (s2 : K p) = Q.y * (P.z : K p) ^ 3 := by rw [hs2, c_mul, c_mul, hz1z1, c_mul]; ring
      have lu1 : canon p u1 := lt_mul p _ _
      have lu2 : canon p u2 := lt_mul p _ _
      have ls1 : canon p s1 := lt_mul p _ _
      have ls2 : canon p s2 := lt_mul p _ _
      -- the branch conditions of the two formulas agree
      have hux : u1 = u2 ↔ xa1 = xa2 := by
        rw [← cast_inj p lu1 lu2, ← cast_inj p lxa1 lxa2, cu1, cu2, cxa1, cxa2,
          div_eq_div_iff (pow_ne_zero _ cz1) (pow_ne_zero _ cz2)]
      have hsy : s1 = s2 ↔ ya1 = ya2 := by
        rw [← cast_inj p ls1 ls2, ← cast_inj p lya1 lya2, cs1, cs2, cya1, cya2,
          div_eq_div_iff (pow_ne_zero _ cz1) (pow_ne_zero _ cz2)]
      by_cases hu : u1 = u2
      · have hxx : xa1 = xa2 := hux.1 hu
        by_cases hs : s1 = s2
        · -- the same point: doubling
          have hyy : ya1 = ya2 := hsy.1 hs
          have hd : addJac (C p a b) P Q = dblJac (C p a b) P := by
            unfold addJac
            show (if (P.z == (0, 0)) = true then Q else if (Q.z == (0, 0)) = true then P else
              if (u1 == u2) = true then (if (s1 == s2) = true then dblJac (C p a b) P else _) else _) = _
            rw [if_neg (by simpa using hz1), if_neg (by simpa using hz2), if_pos (by simpa using hu),
              if_pos (by simpa using hs)]
          have hdb := dblJac_eq p a b h2 hb P ⟨hx1, hy1, hz1lt, by rw [fromJac_some p a b P hz1]; exact hv1⟩
          rw [hd]
          refine ⟨hdb.1, hdb.2.1, hdb.2.2.1, ?_⟩
          rw [hdb.2.2.2, fromJac_some p a b P hz1, ← hxx, ← hyy]
        · -- opposite points
          have hyy : ya1 ≠ ya2 := fun h => hs (hsy.2 h)
          have hd : addJac (C p a b) P Q = ⟨(1 % p, 0), (1 % p, 0), (0, 0)⟩ := by
            unfold addJac
            show (if (P.z == (0, 0)) = true then Q else if (Q.z == (0, 0)) = true then P else
              if (u1 == u2) = true then (if (s1 == s2) = true then dblJac (C p a b) P else _) else _) = _
            rw [if_neg (by simpa using hz1), if_neg (by simpa using hz2), if_pos (by simpa using hu),
              if_neg (by simpa using hs)]
            rfl
          rw [hd, fromJac_zero p a b ⟨(1 % p, 0), (1 % p, 0), (0, 0)⟩ rfl]
          refine ⟨h1p, h1p, hp0, ?_⟩
          have e1 := valid_eq p a b hv1
          have e2 := valid_eq p a b hv2
          have hsum : Fp2.add p ya1 ya2 = (0, 0) := by
            rw [← cast_inj p (lt_add p _ _) hp0, c_add, c_zero p]
            have hne : (ya1 : K p) - ya2 ≠ 0 := by
              intro h
              exact hyy ((cast_inj p lya1 lya2).1 (sub_eq_zero.1 h))
            have hprod : ((ya1 : K p) - ya2) * ((ya1 : K p) + ya2) = 0 := by
              have hxc : (xa1 : K p) = xa2 := by rw [hxx]
              rw [hxc] at e1
              linear_combination e1 - e2
            rcases mul_eq_zero.1 hprod with h | h
            · exact absurd h hne
            · exact h
          unfold addAff
          simp only []
          show none = (if (xa1 == xa2) = true then (if (Fp2.add p ya1 ya2 == (0, 0)) = true then none else _) else _)
          rw [if_pos (by simpa using hxx), if_pos (by simp [hsum])]
      · -- the generic case
        have hxx : xa1 ≠ xa2 := fun h => hu (hux.2 h)
        set h := Fp2.sub p u2 u1 with hh
        set r := Fp2.sub p s2 s1 with hr
        set hh2 := Fp2.mul p h h with hhh2
        set hhh := Fp2.mul p h hh2 with hhhh
        set v := Fp2.mul p u1 hh2 with hv
        set x3 := Fp2.sub p (Fp2.sub p (Fp2.mul p r r) hhh) (Fp2.add p v v) with hx3
        set y3 := Fp2.sub p (Fp2.mul p r (Fp2.sub p v x3)) (Fp2.mul p s1 hhh) with hy3
        set z3 := Fp2.mul p (Fp2.mul p P.z Q.z) h with hz3
        have hd : addJac (C p a b) P Q = ⟨x3, y3, z3⟩ := by
          unfold addJac
          show (if (P.z == (0, 0)) = true then Q else if (Q.z == (0, 0)) = true then P else
            if (u1 == u2) = true then _ else _) = _
          rw [if_neg (by simpa using hz1), if_neg (by simpa using hz2), if_neg (by simpa using hu)]
          rfl
        clear_value z3 y3 x3 v hhh hh2 r h s2 s1 u2 u1 z2z2 z1z1 ya2 xa2 ya1 xa1
        have cH : (h : K p) = Q.x * (P.z : K p) ^ 2 - P.x * (Q.z : K p) ^ 2 := by rw [hh, c_sub, cu1, cu2]
        have cH0 : (Q.x : K p) * (P.z : K p) ^ 2 - P.x * (Q.z : K p) ^ 2 ≠ 0 := by
          rw [← cu1, ← cu2]
          intro h'
          exact hu ((cast_inj p lu1 lu2).1 (sub_eq_zero.1 h').symm)
        have cR : (r : K p) = Q.y * (P.z : K p) ^ 3 - P.y * (Q.z : K p) ^ 3 := by rw [hr, c_sub, cs1, cs2]
        have cX3 : (x3 : K p) = (Q.y * (P.z : K p) ^ 3 - P.y * (Q.z : K p) ^ 3) ^ 2 -
            (Q.x * (P.z : K p) ^ 2 - P.x * (Q.z : K p) ^ 2) ^ 3 -
            2 * (P.x * (Q.z : K p) ^ 2) * (Q.x * (P.z : K p) ^ 2 - P.x * (Q.z : K p) ^ 2) ^ 2 := by
          rw [hx3, c_sub, c_sub, c_mul, c_add, hv, c_mul, hhhh, c_mul, hhh2, c_mul, cR, cH, cu1]; ring
        have cY3 : (y3 : K p) = (Q.y * (P.z : K p) ^ 3 - P.y * (Q.z : K p) ^ 3) *
            (P.x * (Q.z : K p) ^ 2 * (Q.x * (P.z : K p) ^ 2 - P.x * (Q.z : K p) ^ 2) ^ 2 - x3) -
            P.y * (Q.z : K p) ^ 3 * (Q.x * (P.z : K p) ^ 2 - P.x * (Q.z : K p) ^ 2) ^ 3 := by
          rw [hy3, c_sub, c_mul, c_sub, c_mul, hv, c_mul, hhhh, c_mul, hhh2, c_mul, cR, cH, cu1, cs1]; ring
        have cZ3 : (z3 : K p) = P.z * Q.z * (Q.x * (P.z : K p) ^ 2 - P.x * (Q.z : K p) ^ 2) := by
          rw [hz3, c_mul, c_mul, cH]
        have cz3 : (z3 : K p) ≠ 0 := by rw [cZ3]; exact mul_ne_zero (mul_ne_zero cz1 cz2) cH0
        have hz3lt : canon p z3 := by rw [hz3]; exact lt_mul p _ _
        have hz3ne : z3 ≠ (0, 0) := by
          intro h'; apply cz3; rw [h', c_zero p]
        rw [hd]
        refine ⟨by rw [hx3]; exact lt_sub p _ _, by rw [hy3]; exact lt_sub p _ _, hz3lt, ?_⟩
        rw [fromJac_some p a b ⟨x3, y3, z3⟩ hz3ne]
        unfold addAff
        simp only []
        obtain ⟨l, hl⟩ : ∃ l, l = Fp2.mul p (Fp2.sub p ya2 ya1) (Fp2.inv p (Fp2.sub p xa2 xa1)) := ⟨_, rfl⟩
        show some (Fp2.mul p x3 (Fp2.mul p (Fp2.inv p z3) (Fp2.inv p z3)),
            Fp2.mul p y3 (Fp2.mul p (Fp2.mul p (Fp2.inv p z3) (Fp2.inv p z3)) (Fp2.inv p z3))) =
          (if (xa1 == xa2) = true then _ else
            some (Fp2.sub p (Fp2.sub p (Fp2.mul p (Fp2.mul p (Fp2.sub p ya2 ya1) (Fp2.inv p (Fp2.sub p xa2 xa1)))
                (Fp2.mul p (Fp2.sub p ya2 ya1) (Fp2.inv p (Fp2.sub p xa2 xa1)))) xa1) xa2,
              Fp2.sub p (Fp2.mul p (Fp2.mul p (Fp2.sub p ya2 ya1) (Fp2.inv p (Fp2.sub p xa2 xa1)))
                (Fp2.sub p xa1 (Fp2.sub p (Fp2.sub p (Fp2.mul p (Fp2.mul p (Fp2.sub p ya2 ya1) (Fp2.inv p (Fp2.sub p xa2 xa1)))
                  (Fp2.mul p (Fp2.sub p ya2 ya1) (Fp2.inv p (Fp2.sub p xa2 xa1)))) xa1) xa2))) ya1))
        rw [if_neg (by simpa using hxx), ← hl]
        have cl : (l : K p) = ((Q.y : K p) / (Q.z : K p) ^ 3 - (P.y : K p) / (P.z : K p) ^ 3) /
            ((Q.x : K p) / (Q.z : K p) ^ 2 - (P.x : K p) / (P.z : K p) ^ 2) := by
          rw [hl, c_mul, c_inv p h2 hb, c_sub, c_sub, cxa1, cxa2, cya1, cya2]
          ring
        have ex : ((Fp2.mul p x3 (Fp2.mul p (Fp2.inv p z3) (Fp2.inv p z3)) : ℕ × ℕ) : K p) =
            ((Fp2.sub p (Fp2.sub p (Fp2.mul p l l) xa1) xa2 : ℕ × ℕ) : K p) := by
          rw [c_affx p h2 hb, cX3, cZ3,
            Proofs.JacAlg.add_x (P.x : K p) P.y P.z Q.x Q.y Q.z _ cz1 cz2 rfl cH0, c_sub, c_sub, c_mul, cl, cxa1, cxa2]
          ring
        apply pair_eq_of_cast p (lt_mul p _ _) (lt_mul p _ _) (lt_sub p _ _) (lt_sub p _ _) ex
        have ex' : ((Fp2.sub p (Fp2.sub p (Fp2.mul p l l) xa1) xa2 : ℕ × ℕ) : K p) = (x3 : K p) /
            ((P.z : K p) * Q.z * (Q.x * (P.z : K p) ^ 2 - P.x * (Q.z : K p) ^ 2)) ^ 2 := by
          rw [← ex, c_affx p h2 hb, cZ3]
        rw [c_affy p h2 hb, cY3, cZ3,
          Proofs.JacAlg.add_y (P.x : K p) P.y P.z Q.x Q.y Q.z _ (x3 : K p) cz1 cz2 rfl cH0, c_sub, c_mul, c_sub,
          ex', cl, cxa1, cya1]

end jacobian

section group

variable (a b : ℕ × ℕ) (hΔ : (W p a b).Δ ≠ 0) (h2 : 2 < p) (hb : p < 2 ^ 800)
include hΔ h2 hb

theorem jvalid_add (P Q : Jac (ℕ × ℕ)) (hP : JValid p a b P) (hQ : JValid p a b Q) :
    JValid p a b (addJac (C p a b) P Q) ∧
      toPoint p a b (fromJac (C p a b) (addJac (C p a b) P Q)) =
        toPoint p a b (fromJac (C p a b) P) + toPoint p a b (fromJac (C p a b) Q) := by
  have e := addJac_eq p a b h2 hb P Q hP hQ
  have g := addAff_eq p a b hΔ h2 hb _ _ hP.2.2.2 hQ.2.2.2
  refine ⟨⟨e.1, e.2.1, e.2.2.1, by rw [e.2.2.2]; exact g.1⟩, by rw [e.2.2.2]; exact g.2⟩

theorem jvalid_dbl (P : Jac (ℕ × ℕ)) (hP : JValid p a b P) :
    JValid p a b (dblJac (C p a b) P) ∧
      toPoint p a b (fromJac (C p a b) (dblJac (C p a b) P)) = 2 • toPoint p a b (fromJac (C p a b) P) := by
  have e := dblJac_eq p a b h2 hb P hP
  have g := addAff_eq p a b hΔ h2 hb _ _ hP.2.2.2 hP.2.2.2
  refine ⟨⟨e.1, e.2.1, e.2.2.1, by rw [e.2.2.2]; exact g.1⟩, by rw [e.2.2.2, g.2, two_nsmul]⟩

/-- double-and-add computes `acc + k • base` -/
theorem mulJacAux_eq : ∀ (fuel k : ℕ) (base acc : Jac (ℕ × ℕ)), k < 2 ^ fuel → JValid p a b base → JValid p a b acc →
    JValid p a b (mulJacAux (C p a b) fuel k base acc) ∧
      toPoint p a b (fromJac (C p a b) (mulJacAux (C p a b) fuel k base acc)) =
        toPoint p a b (fromJac (C p a b) acc) + k • toPoint p a b (fromJac (C p a b) base) := by
  intro fuel
  induction fuel with
  | zero =>
    intro k base acc hk _ hacc
    have : k = 0 := by omega
    subst this
    exact ⟨hacc, by simp [mulJacAux]⟩
  | succ fuel ih =>
    intro k base acc hk hbase hacc
    unfold mulJacAux
    by_cases hk0 : k = 0
    · rw [if_pos hk0]
      subst hk0
      exact ⟨hacc, by simp⟩
    · rw [if_neg hk0]
      have hd := jvalid_dbl p a b hΔ h2 hb base hbase
      have hk2 : k / 2 < 2 ^ fuel := by
        rw [Nat.div_lt_iff_lt_mul (by decide)]; rw [pow_succ] at hk; exact hk
      by_cases hodd : k % 2 = 1
      · rw [if_pos hodd]
        have ha := jvalid_add p a b hΔ h2 hb acc base hacc hbase
        have r := ih (k / 2) _ _ hk2 hd.1 ha.1
        refine ⟨r.1, ?_⟩
        rw [r.2, ha.2, hd.2, smul_smul, add_assoc]
        congr 1
        have : k = 1 + k / 2 * 2 := by omega
        conv_rhs => rw [this, add_smul, one_smul]
      · rw [if_neg hodd]
        have r := ih (k / 2) _ _ hk2 hd.1 hacc
        refine ⟨r.1, ?_⟩
        rw [r.2, hd.2, smul_smul]
        congr 2
        omega

omit hΔ in
theorem toJac_valid (P : Aff (ℕ × ℕ)) (hP : Valid p a b P) :
    JValid p a b (toJac (C p a b) P) ∧ fromJac (C p a b) (toJac (C p a b) P) = P := by
  have hp0 : canon p (0, 0) := lt_zero p
  have h1p : canon p (1 % p, 0) := lt_one p
  match P, hP with
  | none, _ =>
    have : fromJac (C p a b) (toJac (C p a b) none) = none := fromJac_zero p a b _ rfl
    exact ⟨⟨h1p, h1p, hp0, by rw [this]; trivial⟩, this⟩
  | some (x, y), hP =>
    have h1 : ((1 % p, 0) : ℕ × ℕ) ≠ (0, 0) := by
      intro h
      have := congrArg Prod.fst h
      simp only at this
      rw [Nat.mod_eq_of_lt (by omega)] at this
      exact absurd this (by decide)
    have e : fromJac (C p a b) (toJac (C p a b) (some (x, y))) = some (x, y) := by
      show fromJac (C p a b) ⟨x, y, (1 % p, 0)⟩ = _
      rw [fromJac_some p a b ⟨x, y, (1 % p, 0)⟩ h1]
      apply pair_eq_of_cast p (lt_mul p _ _) (lt_mul p _ _) hP.1 hP.2.1
      · rw [c_affx p h2 hb, c_one]; simp
      · rw [c_affy p h2 hb, c_one]; simp
    exact ⟨⟨hP.1, hP.2.1, h1p, by rw [e]; exact hP⟩, e⟩

/-- **the model's scalar multiplication is `k • P` in the group of the curve** (for `k < 2^800`) -/
theorem mul_eq (k : ℕ) (hk : k < 2 ^ 800) (P : Aff (ℕ × ℕ)) (hP : Valid p a b P) :
    Valid p a b (mul (C p a b) k P) ∧ toPoint p a b (mul (C p a b) k P) = k • toPoint p a b P := by
  have t1 := toJac_valid p a b h2 hb P hP
  have t0 := toJac_valid p a b h2 hb none trivial
  have r := mulJacAux_eq p a b hΔ h2 hb 800 k _ _ hk t1.1 t0.1
  unfold mul
  refine ⟨r.1.2.2.2, ?_⟩
  rw [r.2, t1.2, t0.2]
  show (0 : (W p a b).Point) + _ = _
  rw [zero_add]

/-- **the model's sum of a list of points is their sum in the group of the curve** -/
theorem sum_eq (ps : List (Aff (ℕ × ℕ))) (hps : ∀ P ∈ ps, Valid p a b P) :
    Valid p a b (sum (C p a b) ps) ∧ toPoint p a b (sum (C p a b) ps) = (ps.map (toPoint p a b)).sum := by
  have t0 := toJac_valid p a b h2 hb none trivial
  have key : ∀ (l : List (Aff (ℕ × ℕ))) (acc : Jac (ℕ × ℕ)), (∀ P ∈ l, Valid p a b P) → JValid p a b acc →
      JValid p a b (l.foldl (fun acc P => addJac (C p a b) acc (toJac (C p a b) P)) acc) ∧
        toPoint p a b (fromJac (C p a b) (l.foldl (fun acc P => addJac (C p a b) acc (toJac (C p a b) P)) acc)) =
          toPoint p a b (fromJac (C p a b) acc) + (l.map (toPoint p a b)).sum := by
    intro l
    induction l with
    | nil => intro acc _ hacc; exact ⟨hacc, by simp⟩
    | cons Q t ih =>
      intro acc hl hacc
      have tq := toJac_valid p a b h2 hb Q (hl Q List.mem_cons_self)
      have ha := jvalid_add p a b hΔ h2 hb acc _ hacc tq.1
      have r := ih _ (fun P hP => hl P (List.mem_cons_of_mem _ hP)) ha.1
      refine ⟨r.1, ?_⟩
      rw [List.foldl_cons, r.2, ha.2, tq.2, List.map_cons, List.sum_cons, add_assoc]
  have r := key ps _ hps t0.1
  unfold sum
  refine ⟨r.1.2.2.2, ?_⟩
  rw [r.2, t0.2]
  show (0 : (W p a b).Point) + _ = _
  rw [zero_add]

omit h2 hb in
/-- canonical points of the curve are determined by the group element they stand for -/
theorem toPoint_inj (P Q : Aff (ℕ × ℕ)) (hP : Valid p a b P) (hQ : Valid p a b Q)
    (h : toPoint p a b P = toPoint p a b Q) : P = Q := by
  have ns : ∀ {x y : ℕ × ℕ}, Valid p a b (some (x, y)) → (W p a b).Nonsingular (x : K p) (y : K p) := fun hv =>
    ((W p a b).equation_iff_nonsingular_of_Δ_ne_zero hΔ).1 ((onCurve_iff p a b hv.1 hv.2.1).1 hv.2.2)
  match P, Q, hP, hQ with
  | none, none, _, _ => rfl
  | none, some (x, y), _, hQ =>
    rw [toPoint_some p a b (ns hQ)] at h
    exact absurd h (by intro h'; cases h')
  | some (x, y), none, hP, _ =>
    rw [toPoint_some p a b (ns hP)] at h
    exact absurd h (by intro h'; cases h')
  | some (x1, y1), some (x2, y2), hP, hQ =>
    rw [toPoint_some p a b (ns hP), toPoint_some p a b (ns hQ)] at h
    injection h with hx hy
    rw [(cast_inj p hP.1 hQ.1).1 hx, (cast_inj p hP.2.1 hQ.2.1).1 hy]

/-- the sum of the model does not depend on the order of the points -/
theorem sum_perm (ps qs : List (Aff (ℕ × ℕ))) (hps : ∀ P ∈ ps, Valid p a b P) (h : ps.Perm qs) :
    sum (C p a b) ps = sum (C p a b) qs := by
  have hqs : ∀ P ∈ qs, Valid p a b P := fun P hP => hps P (h.mem_iff.2 hP)
  have s1 := sum_eq p a b hΔ h2 hb ps hps
  have s2 := sum_eq p a b hΔ h2 hb qs hqs
  apply toPoint_inj p a b hΔ _ _ s1.1 s2.1
  rw [s1.2, s2.2]
  exact (h.map _).sum_eq

end group

end Proofs.CurveGroup2

