import Proofs.CurveGroup
import Proofs.Primes
import Proofs.E1Codec
import Model.Bls
import Model.Ecdsa

/-! Instances of `Proofs.CurveGroup` for the three curves of the model over a prime field: BLS12-381 `E1`
(`y² = x³ + 4`), P-256 and secp256k1. -/

namespace Proofs.CurveInst
open Model Model.Curve Proofs.CurveGroup

/-- the discriminant of `y² = x³ + a x + b` -/
theorem W_Δ (p : ℕ) [Fact p.Prime] (a b : ℕ) : (W p a b).Δ = -(((16 * (4 * a ^ 3 + 27 * b ^ 2) : ℕ)) : ZMod p) := by
  unfold WeierstrassCurve.Δ WeierstrassCurve.b₂ WeierstrassCurve.b₄ WeierstrassCurve.b₆ WeierstrassCurve.b₈
  simp only [W]
  push_cast
  ring

theorem Δ_ne_zero (p : ℕ) [Fact p.Prime] (a b : ℕ) (h : (16 * (4 * a ^ 3 + 27 * b ^ 2)) % p ≠ 0) : (W p a b).Δ ≠ 0 := by
  rw [W_Δ, neg_ne_zero]
  intro h0
  rw [ZMod.natCast_eq_zero_iff] at h0
  exact h (Nat.mod_eq_zero_of_dvd h0)

/-! ### BLS12-381, `E1` -/

instance fact_bls_p : Fact (Nat.Prime Bls.p) := ⟨Proofs.Primes.prime_bls_p⟩

theorem bls_E1 : Bls.E1 = C Bls.p 0 4 := rfl

theorem bls_Δ : (W Bls.p 0 4).Δ ≠ 0 := Δ_ne_zero Bls.p 0 4 (by decide +kernel)
theorem bls_two : 2 < Bls.p := by decide +kernel
theorem bls_bits : Bls.p < 2 ^ 800 := by decide +kernel

/-- the points the decoder of the model accepts are canonical points of the curve -/
theorem valid_of_codec (P : Bls.P1) (h : Proofs.E1Codec.Valid P) : Valid Bls.p 0 4 P := by
  match P, h with
  | none, _ => trivial
  | some (x, y), h =>
    obtain ⟨hx, hy, he⟩ := h x y rfl
    refine ⟨hx, hy, ?_⟩
    show (Fp.mul Bls.p y y == Fp.add Bls.p (Fp.add Bls.p (Fp.mul Bls.p (Fp.mul Bls.p x x) x) (Fp.mul Bls.p 0 x)) 4) = true
    rw [beq_iff_eq]
    unfold Fp.mul Fp.add
    rw [he]
    simp [Nat.add_mod, Nat.mul_mod]

/-! ### P-256 and secp256k1 -/

instance fact_p256 : Fact (Nat.Prime Ecdsa.p256P) := ⟨by
  have : Ecdsa.p256P = 115792089210356248762697446949407573530086143415290314195533631308867097853951 := by decide +kernel
  rw [this]; exact Proofs.Primes.prime_p256_p⟩

instance fact_k256 : Fact (Nat.Prime Ecdsa.k256P) := ⟨by
  have : Ecdsa.k256P = 115792089237316195423570985008687907853269984665640564039457584007908834671663 := by decide +kernel
  rw [this]; exact Proofs.Primes.prime_k256_p⟩

def p256a : ℕ := Ecdsa.p256P - 3
def p256b : ℕ := 0x5ac635d8aa3a93e7b3ebbd55769886bc651d06b0cc53b0f63bce3c3e27d2604b

theorem p256_C : Ecdsa.p256.C = C Ecdsa.p256P p256a p256b := rfl
theorem k256_C : Ecdsa.k256.C = C Ecdsa.k256P 0 7 := rfl

theorem p256_Δ : (W Ecdsa.p256P p256a p256b).Δ ≠ 0 := Δ_ne_zero _ _ _ (by decide +kernel)
theorem k256_Δ : (W Ecdsa.k256P 0 7).Δ ≠ 0 := Δ_ne_zero _ _ _ (by decide +kernel)
theorem p256_two : 2 < Ecdsa.p256P := by decide +kernel
theorem k256_two : 2 < Ecdsa.k256P := by decide +kernel
theorem p256_bits : Ecdsa.p256P < 2 ^ 800 := by decide +kernel
theorem k256_bits : Ecdsa.k256P < 2 ^ 800 := by decide +kernel

theorem p256_g_valid : Valid Ecdsa.p256P p256a p256b Ecdsa.p256.g := by
  refine ⟨by decide +kernel, by decide +kernel, by decide +kernel⟩
theorem k256_g_valid : Valid Ecdsa.k256P 0 7 Ecdsa.k256.g := by
  refine ⟨by decide +kernel, by decide +kernel, by decide +kernel⟩
theorem bls_g1_valid : Valid Bls.p 0 4 Bls.g1 := by
  refine ⟨by decide +kernel, by decide +kernel, by decide +kernel⟩


end Proofs.CurveInst
