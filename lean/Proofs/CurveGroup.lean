import Mathlib.AlgebraicGeometry.EllipticCurve.Affine.Point
import Proofs.PowMod
import Model.Field
import Proofs.JacAlg

/-! The affine addition of the executable curve model (`Model.Curve.addAff` over `Fp.ops p`) is the group law of the
elliptic curve `y² = x³ + a x + b` over `ZMod p` as defined in Mathlib (`WeierstrassCurve.Affine.Point`). -/

namespace Proofs.CurveGroup
open Model Model.Curve WeierstrassCurve.Affine

variable (p : ℕ) [hp : Fact p.Prime]

/-- the model's curve parameters over `F_p` -/
def C (a b : ℕ) : Params ℕ := { f := Fp.ops p, a := a, b := b }

/-- the same curve in Mathlib -/
def W (a b : ℕ) : WeierstrassCurve.Affine (ZMod p) := ⟨0, 0, 0, (a : ZMod p), (b : ZMod p)⟩

section field

theorem c_add (x y : ℕ) : ((Fp.add p x y : ℕ) : ZMod p) = (x : ZMod p) + y := by
  unfold Fp.add; rw [ZMod.natCast_mod]; push_cast; rfl

theorem c_mul (x y : ℕ) : ((Fp.mul p x y : ℕ) : ZMod p) = (x : ZMod p) * y := by
  unfold Fp.mul; rw [ZMod.natCast_mod]; push_cast; rfl

theorem c_sub (x y : ℕ) : ((Fp.sub p x y : ℕ) : ZMod p) = (x : ZMod p) - y := by
  unfold Fp.sub
  have hp0 : 0 < p := hp.out.pos
  have hle : y % p ≤ p := (Nat.mod_lt y hp0).le
  rw [ZMod.natCast_mod, Nat.cast_add, Nat.cast_sub hle, ZMod.natCast_mod, ZMod.natCast_self]
  ring

theorem c_neg (x : ℕ) : ((Fp.neg p x : ℕ) : ZMod p) = -(x : ZMod p) := by
  unfold Fp.neg
  have hp0 : 0 < p := hp.out.pos
  have hle : x % p ≤ p := (Nat.mod_lt x hp0).le
  rw [ZMod.natCast_mod, Nat.cast_sub hle, ZMod.natCast_mod, ZMod.natCast_self]
  ring

theorem c_inv (h2 : 2 < p) (hb : p < 2 ^ 800) (x : ℕ) : ((Fp.inv p x : ℕ) : ZMod p) = (x : ZMod p)⁻¹ :=
  Proofs.PowMod.powMod_inv p h2 hb x

theorem lt_add (x y : ℕ) : Fp.add p x y < p := Nat.mod_lt _ hp.out.pos
theorem lt_sub (x y : ℕ) : Fp.sub p x y < p := Nat.mod_lt _ hp.out.pos
theorem lt_mul (x y : ℕ) : Fp.mul p x y < p := Nat.mod_lt _ hp.out.pos

theorem cast_inj {x y : ℕ} (hx : x < p) (hy : y < p) : (x : ZMod p) = y ↔ x = y := by
  constructor
  · intro h
    have := congrArg ZMod.val h
    rwa [ZMod.val_natCast_of_lt hx, ZMod.val_natCast_of_lt hy] at this
  · intro h; rw [h]

end field

section curve

variable (a b : ℕ)

/-- a point of the model that is in canonical form and on the curve -/
def Valid : Aff ℕ → Prop
  | none => True
  | some (x, y) => x < p ∧ y < p ∧ onCurve (C p a b) (some (x, y)) = true

theorem W_a (a b : ℕ) : (W p a b).a₁ = 0 ∧ (W p a b).a₂ = 0 ∧ (W p a b).a₃ = 0 ∧ (W p a b).a₄ = (a : ZMod p) ∧
    (W p a b).a₆ = (b : ZMod p) := ⟨rfl, rfl, rfl, rfl, rfl⟩

theorem negY_eq (x y : ZMod p) : (W p a b).negY x y = -y := by
  unfold WeierstrassCurve.Affine.negY
  rw [(W_a p a b).1, (W_a p a b).2.2.1]; ring

/-- the model's curve test is Mathlib's Weierstrass equation -/
theorem onCurve_iff {x y : ℕ} (hx : x < p) (hy : y < p) :
    onCurve (C p a b) (some (x, y)) = true ↔ (W p a b).Equation (x : ZMod p) (y : ZMod p) := by
  rw [equation_iff, (W_a p a b).1, (W_a p a b).2.1, (W_a p a b).2.2.1, (W_a p a b).2.2.2.1, (W_a p a b).2.2.2.2]
  show (Fp.mul p y y == Fp.add p (Fp.add p (Fp.mul p (Fp.mul p x x) x) (Fp.mul p a x)) b) = true ↔ _
  rw [beq_iff_eq, ← cast_inj p (lt_mul p y y) (lt_add p _ _)]
  rw [c_mul, c_add, c_add, c_mul, c_mul, c_mul]
  constructor
  · intro h; linear_combination h
  · intro h; linear_combination h

open Classical in
/-- the point of Mathlib's curve a model point stands for (infinity for anything that is not a nonsingular point) -/
noncomputable def toPoint : Aff ℕ → (W p a b).Point
  | none => 0
  | some (x, y) => if h : (W p a b).Nonsingular (x : ZMod p) (y : ZMod p) then .some _ _ h else 0

theorem toPoint_some {x y : ℕ} (h : (W p a b).Nonsingular (x : ZMod p) (y : ZMod p)) :
    toPoint p a b (some (x, y)) = .some _ _ h := by
  unfold toPoint; exact dif_pos h

theorem some_congr {x y x' y' : ZMod p} (h : (W p a b).Nonsingular x y) (hx : x = x') (hy : y = y')
    (h' : (W p a b).Nonsingular x' y') : (Point.some x y h : (W p a b).Point) = Point.some x' y' h' := by
  subst hx; subst hy; rfl

variable (hΔ : (W p a b).Δ ≠ 0) (h2 : 2 < p) (hb : p < 2 ^ 800)
include hΔ h2 hb

theorem valid_nonsingular {x y : ℕ} (h : Valid p a b (some (x, y))) :
    (W p a b).Nonsingular (x : ZMod p) (y : ZMod p) :=
  ((W p a b).equation_iff_nonsingular_of_Δ_ne_zero hΔ).1 ((onCurve_iff p a b h.1 h.2.1).1 h.2.2)

/-- **the model's affine addition is the group law**: on canonical points of the curve, `addAff` gives a canonical
    point of the curve, and it is the sum in Mathlib's group of points -/
theorem addAff_eq (P Q : Aff ℕ) (hP : Valid p a b P) (hQ : Valid p a b Q) :
    Valid p a b (addAff (C p a b) P Q) ∧
      toPoint p a b (addAff (C p a b) P Q) = toPoint p a b P + toPoint p a b Q := by
  match P, Q, hP, hQ with
  | none, Q, _, hQ =>
    refine ⟨by cases Q <;> exact hQ, ?_⟩
    show toPoint p a b Q = 0 + toPoint p a b Q
    rw [zero_add]
  | some (x1, y1), none, hP, _ =>
    refine ⟨hP, ?_⟩
    show toPoint p a b (some (x1, y1)) = toPoint p a b (some (x1, y1)) + 0
    rw [add_zero]
  | some (x1, y1), some (x2, y2), hP, hQ =>
    have n1 := valid_nonsingular p a b hΔ h2 hb hP
    have n2 := valid_nonsingular p a b hΔ h2 hb hQ
    rw [toPoint_some p a b n1, toPoint_some p a b n2]
    obtain ⟨hx1, hy1, _⟩ := hP
    obtain ⟨hx2, hy2, _⟩ := hQ
    unfold addAff
    simp only []
    show Valid p a b (if (x1 == x2) = true then _ else _) ∧ toPoint p a b (if (x1 == x2) = true then _ else _) = _
    by_cases hx : x1 = x2
    · have hxb : (x1 == x2) = true := by simpa using hx
      rw [if_pos hxb]
      have hxc : (x1 : ZMod p) = x2 := by rw [hx]
      show Valid p a b (if (Fp.add p y1 y2 == 0) = true then _ else _) ∧
        toPoint p a b (if (Fp.add p y1 y2 == 0) = true then _ else _) = _
      by_cases hy : Fp.add p y1 y2 = 0
      · have hyb : (Fp.add p y1 y2 == 0) = true := by simpa using hy
        rw [if_pos hyb]
        refine ⟨trivial, ?_⟩
        have hyc : (y1 : ZMod p) = (W p a b).negY x2 y2 := by
          rw [negY_eq]
          have := congrArg (Nat.cast : ℕ → ZMod p) hy
          rw [c_add, Nat.cast_zero] at this
          linear_combination this
        rw [Point.add_of_Y_eq hxc hyc]
        rfl
      · have hyb : ¬ (Fp.add p y1 y2 == 0) = true := by simpa using hy
        rw [if_neg hyb]
        have hyc : (y1 : ZMod p) ≠ (W p a b).negY x2 y2 := by
          rw [negY_eq]
          intro h
          apply hy
          rw [← cast_inj p (lt_add p y1 y2) hp.out.pos, c_add, Nat.cast_zero, h]; ring
        rw [Point.add_of_Y_ne hyc]
        -- the coordinates
        have hsl : (W p a b).slope (x1 : ZMod p) x2 y1 y2 =
            ((Fp.mul p (Fp.add p (Fp.mul p (Fp.add p (1 % p) (Fp.add p (1 % p) (1 % p))) (Fp.mul p x1 x1)) a)
              (Fp.inv p (Fp.add p y1 y1)) : ℕ) : ZMod p) := by
          rw [slope_of_Y_ne hxc hyc, negY_eq, (W_a p a b).1, (W_a p a b).2.1, (W_a p a b).2.2.2.1]
          rw [c_mul, c_inv p h2 hb, c_add, c_add, c_mul, c_mul, c_add, c_add]
          have h1 : (((1 % p : ℕ)) : ZMod p) = 1 := by rw [ZMod.natCast_mod]; simp
          rw [h1, div_eq_mul_inv]
          congr 1
          · ring
          · congr 1; ring
        set l := Fp.mul p (Fp.add p (Fp.mul p (Fp.add p (1 % p) (Fp.add p (1 % p) (1 % p))) (Fp.mul p x1 x1)) a)
              (Fp.inv p (Fp.add p y1 y1)) with hl
        have cx3 : ((Fp.sub p (Fp.sub p (Fp.mul p l l) x1) x1 : ℕ) : ZMod p) =
            (W p a b).addX x1 x2 ((W p a b).slope (x1 : ZMod p) x2 y1 y2) := by
          rw [hsl]
          unfold WeierstrassCurve.Affine.addX
          rw [(W_a p a b).1, (W_a p a b).2.1, c_sub, c_sub, c_mul, ← hxc]; ring
        have cy3 : ((Fp.sub p (Fp.mul p l (Fp.sub p x1 (Fp.sub p (Fp.sub p (Fp.mul p l l) x1) x1))) y1 : ℕ) : ZMod p) =
            (W p a b).addY x1 x2 y1 ((W p a b).slope (x1 : ZMod p) x2 y1 y2) := by
          unfold WeierstrassCurve.Affine.addY WeierstrassCurve.Affine.negAddY
          rw [negY_eq, ← cx3, hsl, c_sub, c_mul, c_sub]; ring
        have nadd := nonsingular_add n1 n2 (fun hxy => hyc hxy.2)
        have n3 : (W p a b).Nonsingular
            ((Fp.sub p (Fp.sub p (Fp.mul p l l) x1) x1 : ℕ) : ZMod p)
            ((Fp.sub p (Fp.mul p l (Fp.sub p x1 (Fp.sub p (Fp.sub p (Fp.mul p l l) x1) x1))) y1 : ℕ) : ZMod p) := by
          rw [cx3, cy3]; exact nadd
        refine ⟨⟨lt_sub p _ _, lt_sub p _ _, (onCurve_iff p a b (lt_sub p _ _) (lt_sub p _ _)).2 n3.1⟩, ?_⟩
        show toPoint p a b (some (Fp.sub p (Fp.sub p (Fp.mul p l l) x1) x1,
          Fp.sub p (Fp.mul p l (Fp.sub p x1 (Fp.sub p (Fp.sub p (Fp.mul p l l) x1) x1))) y1)) = _
        rw [toPoint_some p a b n3]
        exact some_congr p a b n3 cx3 cy3 nadd
    · have hxb : ¬ (x1 == x2) = true := by simpa using hx
      rw [if_neg hxb]
      have hxc : (x1 : ZMod p) ≠ x2 := fun h => hx ((cast_inj p hx1 hx2).1 h)
      rw [Point.add_of_X_ne hxc]
      have hsl : (W p a b).slope (x1 : ZMod p) x2 y1 y2 =
          ((Fp.mul p (Fp.sub p y2 y1) (Fp.inv p (Fp.sub p x2 x1)) : ℕ) : ZMod p) := by
        rw [slope_of_X_ne hxc, c_mul, c_inv p h2 hb, c_sub, c_sub, div_eq_mul_inv]
        have hne : (x1 : ZMod p) - x2 ≠ 0 := sub_ne_zero.2 hxc
        have hne' : (x2 : ZMod p) - x1 ≠ 0 := sub_ne_zero.2 (Ne.symm hxc)
        field_simp
        ring
      set l := Fp.mul p (Fp.sub p y2 y1) (Fp.inv p (Fp.sub p x2 x1)) with hl
      have cx3 : ((Fp.sub p (Fp.sub p (Fp.mul p l l) x1) x2 : ℕ) : ZMod p) =
          (W p a b).addX x1 x2 ((W p a b).slope (x1 : ZMod p) x2 y1 y2) := by
        rw [hsl]
        unfold WeierstrassCurve.Affine.addX
        rw [(W_a p a b).1, (W_a p a b).2.1, c_sub, c_sub, c_mul]; ring
      have cy3 : ((Fp.sub p (Fp.mul p l (Fp.sub p x1 (Fp.sub p (Fp.sub p (Fp.mul p l l) x1) x2))) y1 : ℕ) : ZMod p) =
          (W p a b).addY x1 x2 y1 ((W p a b).slope (x1 : ZMod p) x2 y1 y2) := by
        unfold WeierstrassCurve.Affine.addY WeierstrassCurve.Affine.negAddY
        rw [negY_eq, ← cx3, hsl, c_sub, c_mul, c_sub]; ring
      have nadd := nonsingular_add n1 n2 (fun hxy => hxc hxy.1)
      have n3 : (W p a b).Nonsingular
          ((Fp.sub p (Fp.sub p (Fp.mul p l l) x1) x2 : ℕ) : ZMod p)
          ((Fp.sub p (Fp.mul p l (Fp.sub p x1 (Fp.sub p (Fp.sub p (Fp.mul p l l) x1) x2))) y1 : ℕ) : ZMod p) := by
        rw [cx3, cy3]; exact nadd
      refine ⟨⟨lt_sub p _ _, lt_sub p _ _, (onCurve_iff p a b (lt_sub p _ _) (lt_sub p _ _)).2 n3.1⟩, ?_⟩
      show toPoint p a b (some (Fp.sub p (Fp.sub p (Fp.mul p l l) x1) x2,
        Fp.sub p (Fp.mul p l (Fp.sub p x1 (Fp.sub p (Fp.sub p (Fp.mul p l l) x1) x2))) y1)) = _
      rw [toPoint_some p a b n3]
      exact some_congr p a b n3 cx3 cy3 nadd

end curve

section jacobian

variable (a b : ℕ)

theorem c_one : (((1 % p : ℕ)) : ZMod p) = 1 := by rw [ZMod.natCast_mod]; simp

theorem cast_ne_zero {x : ℕ} (hx : x < p) (h0 : x ≠ 0) : (x : ZMod p) ≠ 0 := by
  intro h
  apply h0
  have := (cast_inj p hx hp.out.pos).1 (by rw [h]; simp)
  exact this

/-- a Jacobian triple with canonical coordinates standing for a canonical point of the curve -/
def JValid (J : Jac ℕ) : Prop := J.x < p ∧ J.y < p ∧ J.z < p ∧ Valid p a b (fromJac (C p a b) J)

theorem fromJac_zero (J : Jac ℕ) (hz : J.z = 0) : fromJac (C p a b) J = none := by
  unfold fromJac
  show (if (J.z == 0) = true then _ else _) = _
  rw [if_pos (by simpa using hz)]

theorem fromJac_some (J : Jac ℕ) (hz : J.z ≠ 0) : fromJac (C p a b) J =
    some (Fp.mul p J.x (Fp.mul p (Fp.inv p J.z) (Fp.inv p J.z)),
      Fp.mul p J.y (Fp.mul p (Fp.mul p (Fp.inv p J.z) (Fp.inv p J.z)) (Fp.inv p J.z))) := by
  unfold fromJac
  show (if (J.z == 0) = true then _ else _) = _
  rw [if_neg (by simpa using hz)]
  rfl

variable (h2 : 2 < p) (hb : p < 2 ^ 800)
include h2 hb

theorem c_affx (x z : ℕ) : ((Fp.mul p x (Fp.mul p (Fp.inv p z) (Fp.inv p z)) : ℕ) : ZMod p) = (x : ZMod p) / (z : ZMod p) ^ 2 := by
  rw [c_mul, c_mul, c_inv p h2 hb, div_eq_mul_inv]; ring

theorem c_affy (y z : ℕ) :
    ((Fp.mul p y (Fp.mul p (Fp.mul p (Fp.inv p z) (Fp.inv p z)) (Fp.inv p z)) : ℕ) : ZMod p) = (y : ZMod p) / (z : ZMod p) ^ 3 := by
  rw [c_mul, c_mul, c_mul, c_inv p h2 hb, div_eq_mul_inv]; ring

theorem two_ne_zero' : (2 : ZMod p) ≠ 0 := by
  have := cast_ne_zero p (x := 2) h2 (by decide)
  simpa using this

omit h2 hb in
theorem pair_eq_of_cast {x y x' y' : ℕ} (hx : x < p) (hy : y < p) (hx' : x' < p) (hy' : y' < p)
    (h1 : (x : ZMod p) = x') (h2' : (y : ZMod p) = y') : (some (x, y) : Aff ℕ) = some (x', y') := by
  rw [(cast_inj p hx hx').1 h1, (cast_inj p hy hy').1 h2']

/-- **Jacobian doubling is affine doubling** -/
theorem dblJac_eq (J : Jac ℕ) (hJ : JValid p a b J) :
    (dblJac (C p a b) J).x < p ∧ (dblJac (C p a b) J).y < p ∧ (dblJac (C p a b) J).z < p ∧
    fromJac (C p a b) (dblJac (C p a b) J) = addAff (C p a b) (fromJac (C p a b) J) (fromJac (C p a b) J) := by
  obtain ⟨hx, hy, hz, hv⟩ := hJ
  have hp0 : 0 < p := hp.out.pos
  have h1p : 1 % p < p := Nat.mod_lt _ hp0
  by_cases hz0 : J.z = 0
  · have hd : dblJac (C p a b) J = ⟨1 % p, 1 % p, 0⟩ := by
      unfold dblJac
      show (if ((J.z == 0) || (J.y == 0)) = true then _ else _) = _
      rw [if_pos (by simp [hz0])]; rfl
    rw [hd, fromJac_zero p a b J hz0, fromJac_zero p a b ⟨1 % p, 1 % p, 0⟩ rfl]
    exact ⟨h1p, h1p, hp0, rfl⟩
  · by_cases hy0 : J.y = 0
    · have hd : dblJac (C p a b) J = ⟨1 % p, 1 % p, 0⟩ := by
        unfold dblJac
        show (if ((J.z == 0) || (J.y == 0)) = true then _ else _) = _
        rw [if_pos (by simp [hy0])]; rfl
      rw [hd, fromJac_zero p a b ⟨1 % p, 1 % p, 0⟩ rfl, fromJac_some p a b J hz0]
      refine ⟨h1p, h1p, hp0, ?_⟩
      unfold addAff
      simp only []
      show none = (if (_ == _) = true then (if (Fp.add p _ _ == 0) = true then none else _) else _)
      rw [if_pos (by simp)]
      have : Fp.add p (Fp.mul p J.y (Fp.mul p (Fp.mul p (Fp.inv p J.z) (Fp.inv p J.z)) (Fp.inv p J.z)))
          (Fp.mul p J.y (Fp.mul p (Fp.mul p (Fp.inv p J.z) (Fp.inv p J.z)) (Fp.inv p J.z))) = 0 := by
        rw [hy0]; unfold Fp.add Fp.mul; simp
      rw [if_pos (by simp [this])]
    · -- the doubling formulas
      have cz : (J.z : ZMod p) ≠ 0 := cast_ne_zero p hz hz0
      have cy : (J.y : ZMod p) ≠ 0 := cast_ne_zero p hy hy0
      have c2 := two_ne_zero' p h2 hb
      have hcond : ¬ (((J.z == 0) || (J.y == 0)) = true) := by simp [hz0, hy0]
      -- names for the model's intermediate values
      set xx := Fp.mul p J.x J.x with hxx
      set yy := Fp.mul p J.y J.y with hyy
      set yyyy := Fp.mul p yy yy with hyyyy
      set zz := Fp.mul p J.z J.z with hzz
      set t := Fp.add p J.x yy with ht
      set s0 := Fp.sub p (Fp.sub p (Fp.mul p t t) xx) yyyy with hs0
      set sS := Fp.add p s0 s0 with hsS
      set m := Fp.add p (Fp.add p (Fp.add p xx xx) xx) (Fp.mul p a (Fp.mul p zz zz)) with hm
      set x3 := Fp.sub p (Fp.mul p m m) (Fp.add p sS sS) with hx3
      set y8 := Fp.add p (Fp.add p (Fp.add p yyyy yyyy) (Fp.add p yyyy yyyy))
        (Fp.add p (Fp.add p yyyy yyyy) (Fp.add p yyyy yyyy)) with hy8
      set y3 := Fp.sub p (Fp.mul p m (Fp.sub p sS x3)) y8 with hy3
      set yz := Fp.add p J.y J.z with hyz
      set z3 := Fp.sub p (Fp.sub p (Fp.mul p yz yz) yy) zz with hz3
      have hd : dblJac (C p a b) J = ⟨x3, y3, z3⟩ := by
        unfold dblJac
        show (if ((J.z == 0) || (J.y == 0)) = true then _ else _) = _
        rw [if_neg hcond]
        rfl
      clear_value z3 y3 x3 yz y8 m sS s0 t zz yyyy yy xx
      have cS : (sS : ZMod p) = 4 * J.x * (J.y : ZMod p) ^ 2 := by
        rw [hsS, c_add, hs0, c_sub, c_sub, c_mul, ht, c_add, hyyyy, c_mul, hyy, c_mul, hxx, c_mul]; ring
      have cM : (m : ZMod p) = 3 * (J.x : ZMod p) ^ 2 + a * (J.z : ZMod p) ^ 4 := by
        rw [hm, c_add, c_add, c_add, c_mul, c_mul, hzz, c_mul, hxx, c_mul]; ring
      have cX3 : (x3 : ZMod p) = (3 * (J.x : ZMod p) ^ 2 + a * (J.z : ZMod p) ^ 4) ^ 2 - 2 * (4 * J.x * (J.y : ZMod p) ^ 2) := by
        rw [hx3, c_sub, c_mul, c_add, cS, cM]; ring
      have cY3 : (y3 : ZMod p) = (3 * (J.x : ZMod p) ^ 2 + a * (J.z : ZMod p) ^ 4) * (4 * J.x * (J.y : ZMod p) ^ 2 - x3) -
          8 * (J.y : ZMod p) ^ 4 := by
        rw [hy3, c_sub, c_mul, c_sub, cS, cM, hy8]
        simp only [c_add]
        rw [hyyyy, c_mul, hyy, c_mul]; ring
      have cZ3 : (z3 : ZMod p) = 2 * J.y * J.z := by
        rw [hz3, c_sub, c_sub, c_mul, hyz, c_add, hyy, c_mul, hzz, c_mul]; ring
      have cz3 : (z3 : ZMod p) ≠ 0 := by rw [cZ3]; exact mul_ne_zero (mul_ne_zero c2 cy) cz
      have hz3lt : z3 < p := by rw [hz3]; exact lt_sub p _ _
      have hz3ne : z3 ≠ 0 := by
        intro h; apply cz3; rw [h]; simp
      rw [hd]
      refine ⟨by rw [hx3]; exact lt_sub p _ _, by rw [hy3]; exact lt_sub p _ _, hz3lt, ?_⟩
      rw [fromJac_some p a b ⟨x3, y3, z3⟩ hz3ne, fromJac_some p a b J hz0]
      -- the affine side
      set xa := Fp.mul p J.x (Fp.mul p (Fp.inv p J.z) (Fp.inv p J.z)) with hxa
      set ya := Fp.mul p J.y (Fp.mul p (Fp.mul p (Fp.inv p J.z) (Fp.inv p J.z)) (Fp.inv p J.z)) with hya
      have cxa : (xa : ZMod p) = (J.x : ZMod p) / (J.z : ZMod p) ^ 2 := c_affx p h2 hb _ _
      have cya : (ya : ZMod p) = (J.y : ZMod p) / (J.z : ZMod p) ^ 3 := c_affy p h2 hb _ _
      clear_value xa ya
      have cya0 : (ya : ZMod p) ≠ 0 := by rw [cya]; exact div_ne_zero cy (pow_ne_zero _ cz)
      have hsum : Fp.add p ya ya ≠ 0 := by
        intro h
        have := congrArg (Nat.cast : ℕ → ZMod p) h
        rw [c_add, Nat.cast_zero] at this
        have h2y : (2 : ZMod p) * ya = 0 := by linear_combination this
        rcases mul_eq_zero.1 h2y with h' | h'
        · exact c2 h'
        · exact cya0 h'
      unfold addAff
      simp only []
      show _ = (if (xa == xa) = true then (if (Fp.add p ya ya == 0) = true then none else _) else _)
      rw [if_pos (by simp), if_neg (by simpa using hsum)]
      obtain ⟨l, hl⟩ : ∃ l, l = (Fp.mul p (Fp.add p (Fp.mul p (Fp.add p (1 % p) (Fp.add p (1 % p) (1 % p))) (Fp.mul p xa xa)) a) (Fp.inv p (Fp.add p ya ya))) := ⟨_, rfl⟩
      show some (Fp.mul p x3 (Fp.mul p (Fp.inv p z3) (Fp.inv p z3)),
          Fp.mul p y3 (Fp.mul p (Fp.mul p (Fp.inv p z3) (Fp.inv p z3)) (Fp.inv p z3))) =
        some (Fp.sub p (Fp.sub p (Fp.mul p (Fp.mul p (Fp.add p (Fp.mul p (Fp.add p (1 % p) (Fp.add p (1 % p) (1 % p))) (Fp.mul p xa xa)) a) (Fp.inv p (Fp.add p ya ya))) (Fp.mul p (Fp.add p (Fp.mul p (Fp.add p (1 % p) (Fp.add p (1 % p) (1 % p))) (Fp.mul p xa xa)) a) (Fp.inv p (Fp.add p ya ya)))) xa) xa,
          Fp.sub p (Fp.mul p (Fp.mul p (Fp.add p (Fp.mul p (Fp.add p (1 % p) (Fp.add p (1 % p) (1 % p))) (Fp.mul p xa xa)) a) (Fp.inv p (Fp.add p ya ya))) (Fp.sub p xa (Fp.sub p (Fp.sub p (Fp.mul p (Fp.mul p (Fp.add p (Fp.mul p (Fp.add p (1 % p) (Fp.add p (1 % p) (1 % p))) (Fp.mul p xa xa)) a) (Fp.inv p (Fp.add p ya ya))) (Fp.mul p (Fp.add p (Fp.mul p (Fp.add p (1 % p) (Fp.add p (1 % p) (1 % p))) (Fp.mul p xa xa)) a) (Fp.inv p (Fp.add p ya ya)))) xa) xa))) ya)
      rw [← hl]
      have cl : (l : ZMod p) = (3 * ((J.x : ZMod p) / (J.z : ZMod p) ^ 2) ^ 2 + a) /
          ((J.y : ZMod p) / (J.z : ZMod p) ^ 3 + (J.y : ZMod p) / (J.z : ZMod p) ^ 3) := by
        rw [hl, c_mul, c_inv p h2 hb, c_add, c_add, c_mul, c_mul, c_add, c_add, c_one, cxa, cya, div_eq_mul_inv]
        ring
      have ex : ((Fp.mul p x3 (Fp.mul p (Fp.inv p z3) (Fp.inv p z3)) : ℕ) : ZMod p) =
          ((Fp.sub p (Fp.sub p (Fp.mul p l l) xa) xa : ℕ) : ZMod p) := by
        rw [c_affx p h2 hb, cX3, cZ3, Proofs.JacAlg.dbl_x _ _ _ _ cz cy c2, c_sub, c_sub, c_mul, cl, cxa]
        ring
      apply pair_eq_of_cast p (lt_mul p _ _) (lt_mul p _ _) (lt_sub p _ _) (lt_sub p _ _) ex
      rw [c_affy p h2 hb, cY3, cZ3]
      have ex' : (x3 : ZMod p) = ((Fp.mul p x3 (Fp.mul p (Fp.inv p z3) (Fp.inv p z3)) : ℕ) : ZMod p) * (2 * J.y * J.z) ^ 2 := by
        rw [c_affx p h2 hb, cZ3]; field_simp
      rw [Proofs.JacAlg.dbl_y _ _ _ _ _ cz cy c2, c_sub, c_mul, c_sub, cl, cxa, cya, ← ex, c_affx p h2 hb, cZ3]

omit h2 hb in
theorem valid_eq {x y : ℕ} (h : Valid p a b (some (x, y))) :
    (y : ZMod p) ^ 2 = (x : ZMod p) ^ 3 + a * x + b := by
  have := (onCurve_iff p a b h.1 h.2.1).1 h.2.2
  rw [equation_iff, (W_a p a b).1, (W_a p a b).2.1, (W_a p a b).2.2.1, (W_a p a b).2.2.2.1, (W_a p a b).2.2.2.2] at this
  linear_combination this

/-- **Jacobian addition is affine addition** -/
theorem addJac_eq (P Q : Jac ℕ) (hP : JValid p a b P) (hQ : JValid p a b Q) :
    (addJac (C p a b) P Q).x < p ∧ (addJac (C p a b) P Q).y < p ∧ (addJac (C p a b) P Q).z < p ∧
    fromJac (C p a b) (addJac (C p a b) P Q) = addAff (C p a b) (fromJac (C p a b) P) (fromJac (C p a b) Q) := by
  have hp0 : 0 < p := hp.out.pos
  have h1p : 1 % p < p := Nat.mod_lt _ hp0
  by_cases hz1 : P.z = 0
  · have hd : addJac (C p a b) P Q = Q := by
      unfold addJac
      show (if (P.z == 0) = true then Q else _) = _
      rw [if_pos (by simpa using hz1)]
    rw [hd, fromJac_zero p a b P hz1]
    refine ⟨hQ.1, hQ.2.1, hQ.2.2.1, ?_⟩
    cases fromJac (C p a b) Q <;> rfl
  · by_cases hz2 : Q.z = 0
    · have hd : addJac (C p a b) P Q = P := by
        unfold addJac
        show (if (P.z == 0) = true then Q else if (Q.z == 0) = true then P else _) = _
        rw [if_neg (by simpa using hz1), if_pos (by simpa using hz2)]
      rw [hd, fromJac_zero p a b Q hz2, fromJac_some p a b P hz1]
      exact ⟨hP.1, hP.2.1, hP.2.2.1, rfl⟩
    · obtain ⟨hx1, hy1, hz1lt, hv1⟩ := hP
      obtain ⟨hx2, hy2, hz2lt, hv2⟩ := hQ
      have cz1 : (P.z : ZMod p) ≠ 0 := cast_ne_zero p hz1lt hz1
      have cz2 : (Q.z : ZMod p) ≠ 0 := cast_ne_zero p hz2lt hz2
      rw [fromJac_some p a b P hz1] at hv1 ⊢
      rw [fromJac_some p a b Q hz2] at hv2 ⊢
      set xa1 := Fp.mul p P.x (Fp.mul p (Fp.inv p P.z) (Fp.inv p P.z)) with hxa1
      set ya1 := Fp.mul p P.y (Fp.mul p (Fp.mul p (Fp.inv p P.z) (Fp.inv p P.z)) (Fp.inv p P.z)) with hya1
      set xa2 := Fp.mul p Q.x (Fp.mul p (Fp.inv p Q.z) (Fp.inv p Q.z)) with hxa2
      set ya2 := Fp.mul p Q.y (Fp.mul p (Fp.mul p (Fp.inv p Q.z) (Fp.inv p Q.z)) (Fp.inv p Q.z)) with hya2
      have cxa1 : (xa1 : ZMod p) = (P.x : ZMod p) / (P.z : ZMod p) ^ 2 := c_affx p h2 hb _ _
      have cya1 : (ya1 : ZMod p) = (P.y : ZMod p) / (P.z : ZMod p) ^ 3 := c_affy p h2 hb _ _
      have cxa2 : (xa2 : ZMod p) = (Q.x : ZMod p) / (Q.z : ZMod p) ^ 2 := c_affx p h2 hb _ _
      have cya2 : (ya2 : ZMod p) = (Q.y : ZMod p) / (Q.z : ZMod p) ^ 3 := c_affy p h2 hb _ _
      have lxa1 : xa1 < p := lt_mul p _ _
      have lya1 : ya1 < p := lt_mul p _ _
      have lxa2 : xa2 < p := lt_mul p _ _
      have lya2 : ya2 < p := lt_mul p _ _
      -- the model's intermediate values
      set z1z1 := Fp.mul p P.z P.z with hz1z1
      set z2z2 := Fp.mul p Q.z Q.z with hz2z2
      set u1 := Fp.mul p P.x z2z2 with hu1
      set u2 := Fp.mul p Q.x z1z1 with hu2
      set s1 := Fp.mul p P.y (Fp.mul p Q.z z2z2) with hs1
      set s2 := Fp.mul p Q.y (Fp.mul p P.z z1z1) with hs2
      have cu1 : (u1 : ZMod p) = P.x * (Q.z : ZMod p) ^ 2 := by rw [hu1, c_mul, hz2z2, c_mul]; ring
      have cu2 : (u2 : ZMod p) = Q.x * (P.z : ZMod p) ^ 2 := by rw [hu2, c_mul, hz1z1, c_mul]; ring
      have cs1 : (s1 : ZMod p) = P.y * (Q.z : ZMod p) ^ 3 := by rw [hs1, c_mul, c_mul, hz2z2, c_mul]; ring
      have cs2 : (s2 : ZMod p) = Q.y * (P.z : ZMod p) ^ 3 := by rw [hs2, c_mul, c_mul, hz1z1, c_mul]; ring
      have lu1 : u1 < p := lt_mul p _ _
      have lu2 : u2 < p := lt_mul p _ _
      have ls1 : s1 < p := lt_mul p _ _
      have ls2 : s2 < p := lt_mul p _ _
      -- the branch conditions of the two formulas agree
      have hux : u1 = u2 ↔ xa1 = xa2 := by
        rw [← cast_inj p lu1 lu2, ← cast_inj p lxa1 lxa2, cu1, cu2, cxa1, cxa2,
          div_eq_div_iff (pow_ne_zero _ cz1) (pow_ne_zero _ cz2)]
      have hsy : s1 = s2 ↔ ya1 = ya2 := by
        rw [← cast_inj p ls1 ls2, ← cast_inj p lya1 lya2, cs1, cs2, cya1, cya2,
          div_eq_div_iff (pow_ne_zero _ cz1) (pow_ne_zero _ cz2)]
      by_cases hu : u1 = u2
      · have hxx : xa1 = xa2 := hux.1 hu
        by_cases hs : s1 = s2
        · -- the same point: doubling
          have hyy : ya1 = ya2 := hsy.1 hs
          have hd : addJac (C p a b) P Q = dblJac (C p a b) P := by
            unfold addJac
            show (if (P.z == 0) = true then Q else if (Q.z == 0) = true then P else
              if (u1 == u2) = true then (if (s1 == s2) = true then dblJac (C p a b) P else _) else _) = _
            rw [if_neg (by simpa using hz1), if_neg (by simpa using hz2), if_pos (by simpa using hu),
              if_pos (by simpa using hs)]
          have hdb := dblJac_eq p a b h2 hb P ⟨hx1, hy1, hz1lt, by rw [fromJac_some p a b P hz1]; exact hv1⟩
          rw [hd]
          refine ⟨hdb.1, hdb.2.1, hdb.2.2.1, ?_⟩
          rw [hdb.2.2.2, fromJac_some p a b P hz1, ← hxx, ← hyy]
        · -- opposite points
          have hyy : ya1 ≠ ya2 := fun h => hs (hsy.2 h)
          have hd : addJac (C p a b) P Q = ⟨1 % p, 1 % p, 0⟩ := by
            unfold addJac
            show (if (P.z == 0) = true then Q else if (Q.z == 0) = true then P else
              if (u1 == u2) = true then (if (s1 == s2) = true then dblJac (C p a b) P else _) else _) = _
            rw [if_neg (by simpa using hz1), if_neg (by simpa using hz2), if_pos (by simpa using hu),
              if_neg (by simpa using hs)]
            rfl
          rw [hd, fromJac_zero p a b ⟨1 % p, 1 % p, 0⟩ rfl]
          refine ⟨h1p, h1p, hp0, ?_⟩
          have e1 := valid_eq p a b hv1
          have e2 := valid_eq p a b hv2
          have hsum : Fp.add p ya1 ya2 = 0 := by
            rw [← cast_inj p (lt_add p _ _) hp0, c_add, Nat.cast_zero]
            have hne : (ya1 : ZMod p) - ya2 ≠ 0 := by
              intro h
              exact hyy ((cast_inj p lya1 lya2).1 (sub_eq_zero.1 h))
            have hprod : ((ya1 : ZMod p) - ya2) * ((ya1 : ZMod p) + ya2) = 0 := by
              have hxc : (xa1 : ZMod p) = xa2 := by rw [hxx]
              rw [hxc] at e1
              linear_combination e1 - e2
            rcases mul_eq_zero.1 hprod with h | h
            · exact absurd h hne
            · exact h
          unfold addAff
          simp only []
          show none = (if (xa1 == xa2) = true then (if (Fp.add p ya1 ya2 == 0) = true then none else _) else _)
          rw [if_pos (by simpa using hxx), if_pos (by simp [hsum])]
      · -- the generic case
        have hxx : xa1 ≠ xa2 := fun h => hu (hux.2 h)
        set h := Fp.sub p u2 u1 with hh
        set r := Fp.sub p s2 s1 with hr
        set hh2 := Fp.mul p h h with hhh2
        set hhh := Fp.mul p h hh2 with hhhh
        set v := Fp.mul p u1 hh2 with hv
        set x3 := Fp.sub p (Fp.sub p (Fp.mul p r r) hhh) (Fp.add p v v) with hx3
        set y3 := Fp.sub p (Fp.mul p r (Fp.sub p v x3)) (Fp.mul p s1 hhh) with hy3
        set z3 := Fp.mul p (Fp.mul p P.z Q.z) h with hz3
        have hd : addJac (C p a b) P Q = ⟨x3, y3, z3⟩ := by
          unfold addJac
          show (if (P.z == 0) = true then Q else if (Q.z == 0) = true then P else
            if (u1 == u2) = true then _ else _) = _
          rw [if_neg (by simpa using hz1), if_neg (by simpa using hz2), if_neg (by simpa using hu)]
          rfl
        clear_value z3 y3 x3 v hhh hh2 r h s2 s1 u2 u1 z2z2 z1z1 ya2 xa2 ya1 xa1
        have cH : (h : ZMod p) = Q.x * (P.z : ZMod p) ^ 2 - P.x * (Q.z : ZMod p) ^ 2 := by rw [hh, c_sub, cu1, cu2]
        have cH0 : (Q.x : ZMod p) * (P.z : ZMod p) ^ 2 - P.x * (Q.z : ZMod p) ^ 2 ≠ 0 := by
          rw [← cu1, ← cu2]
          intro h'
          exact hu ((cast_inj p lu1 lu2).1 (sub_eq_zero.1 h').symm)
        have cR : (r : ZMod p) = Q.y * (P.z : ZMod p) ^ 3 - P.y * (Q.z : ZMod p) ^ 3 := by rw [hr, c_sub, cs1, cs2]
        have cX3 : (x3 : ZMod p) = (Q.y * (P.z : ZMod p) ^ 3 - P.y * (Q.z : ZMod p) ^ 3) ^ 2 -
            (Q.x * (P.z : ZMod p) ^ 2 - P.x * (Q.z : ZMod p) ^ 2) ^ 3 -
            2 * (P.x * (Q.z : ZMod p) ^ 2) * (Q.x * (P.z : ZMod p) ^ 2 - P.x * (Q.z : ZMod p) ^ 2) ^ 2 := by
          rw [hx3, c_sub, c_sub, c_mul, c_add, hv, c_mul, hhhh, c_mul, hhh2, c_mul, cR, cH, cu1]; ring
        have cY3 : (y3 : ZMod p) = (Q.y * (P.z : ZMod p) ^ 3 - P.y * (Q.z : ZMod p) ^ 3) *
            (P.x * (Q.z : ZMod p) ^ 2 * (Q.x * (P.z : ZMod p) ^ 2 - P.x * (Q.z : ZMod p) ^ 2) ^ 2 - x3) -
            P.y * (Q.z : ZMod p) ^ 3 * (Q.x * (P.z : ZMod p) ^ 2 - P.x * (Q.z : ZMod p) ^ 2) ^ 3 := by
          rw [hy3, c_sub, c_mul, c_sub, c_mul, hv, c_mul, hhhh, c_mul, hhh2, c_mul, cR, cH, cu1, cs1]; ring
        have cZ3 : (z3 : ZMod p) = P.z * Q.z * (Q.x * (P.z : ZMod p) ^ 2 - P.x * (Q.z : ZMod p) ^ 2) := by
          rw [hz3, c_mul, c_mul, cH]
        have cz3 : (z3 : ZMod p) ≠ 0 := by rw [cZ3]; exact mul_ne_zero (mul_ne_zero cz1 cz2) cH0
        have hz3lt : z3 < p := by rw [hz3]; exact lt_mul p _ _
        have hz3ne : z3 ≠ 0 := by
          intro h'; apply cz3; rw [h']; simp
        rw [hd]
        refine ⟨by rw [hx3]; exact lt_sub p _ _, by rw [hy3]; exact lt_sub p _ _, hz3lt, ?_⟩
        rw [fromJac_some p a b ⟨x3, y3, z3⟩ hz3ne]
        unfold addAff
        simp only []
        obtain ⟨l, hl⟩ : ∃ l, l = Fp.mul p (Fp.sub p ya2 ya1) (Fp.inv p (Fp.sub p xa2 xa1)) := ⟨_, rfl⟩
        show some (Fp.mul p x3 (Fp.mul p (Fp.inv p z3) (Fp.inv p z3)),
            Fp.mul p y3 (Fp.mul p (Fp.mul p (Fp.inv p z3) (Fp.inv p z3)) (Fp.inv p z3))) =
          (if (xa1 == xa2) = true then _ else
            some (Fp.sub p (Fp.sub p (Fp.mul p (Fp.mul p (Fp.sub p ya2 ya1) (Fp.inv p (Fp.sub p xa2 xa1)))
                (Fp.mul p (Fp.sub p ya2 ya1) (Fp.inv p (Fp.sub p xa2 xa1)))) xa1) xa2,
              Fp.sub p (Fp.mul p (Fp.mul p (Fp.sub p ya2 ya1) (Fp.inv p (Fp.sub p xa2 xa1)))
                (Fp.sub p xa1 (Fp.sub p (Fp.sub p (Fp.mul p (Fp.mul p (Fp.sub p ya2 ya1) (Fp.inv p (Fp.sub p xa2 xa1)))
                  (Fp.mul p (Fp.sub p ya2 ya1) (Fp.inv p (Fp.sub p xa2 xa1)))) xa1) xa2))) ya1))
        rw [if_neg (by simpa using hxx), ← hl]
        have cl : (l : ZMod p) = ((Q.y : ZMod p) / (Q.z : ZMod p) ^ 3 - (P.y : ZMod p) / (P.z : ZMod p) ^ 3) /
            ((Q.x : ZMod p) / (Q.z : ZMod p) ^ 2 - (P.x : ZMod p) / (P.z : ZMod p) ^ 2) := by
          rw [hl, c_mul, c_inv p h2 hb, c_sub, c_sub, cxa1, cxa2, cya1, cya2]
          ring
        have ex : ((Fp.mul p x3 (Fp.mul p (Fp.inv p z3) (Fp.inv p z3)) : ℕ) : ZMod p) =
            ((Fp.sub p (Fp.sub p (Fp.mul p l l) xa1) xa2 : ℕ) : ZMod p) := by
          rw [c_affx p h2 hb, cX3, cZ3,
            Proofs.JacAlg.add_x (P.x : ZMod p) P.y P.z Q.x Q.y Q.z _ cz1 cz2 rfl cH0, c_sub, c_sub, c_mul, cl, cxa1, cxa2]
          ring
        apply pair_eq_of_cast p (lt_mul p _ _) (lt_mul p _ _) (lt_sub p _ _) (lt_sub p _ _) ex
        have ex' : ((Fp.sub p (Fp.sub p (Fp.mul p l l) xa1) xa2 : ℕ) : ZMod p) = (x3 : ZMod p) /
            ((P.z : ZMod p) * Q.z * (Q.x * (P.z : ZMod p) ^ 2 - P.x * (Q.z : ZMod p) ^ 2)) ^ 2 := by
          rw [← ex, c_affx p h2 hb, cZ3]
        rw [c_affy p h2 hb, cY3, cZ3,
          Proofs.JacAlg.add_y (P.x : ZMod p) P.y P.z Q.x Q.y Q.z _ (x3 : ZMod p) cz1 cz2 rfl cH0, c_sub, c_mul, c_sub,
          ex', cl, cxa1, cya1]

end jacobian

section group

variable (a b : ℕ) (hΔ : (W p a b).Δ ≠ 0) (h2 : 2 < p) (hb : p < 2 ^ 800)
include hΔ h2 hb

theorem jvalid_add (P Q : Jac ℕ) (hP : JValid p a b P) (hQ : JValid p a b Q) :
    JValid p a b (addJac (C p a b) P Q) ∧
      toPoint p a b (fromJac (C p a b) (addJac (C p a b) P Q)) =
        toPoint p a b (fromJac (C p a b) P) + toPoint p a b (fromJac (C p a b) Q) := by
  have e := addJac_eq p a b h2 hb P Q hP hQ
  have g := addAff_eq p a b hΔ h2 hb _ _ hP.2.2.2 hQ.2.2.2
  refine ⟨⟨e.1, e.2.1, e.2.2.1, by rw [e.2.2.2]; exact g.1⟩, by rw [e.2.2.2]; exact g.2⟩

theorem jvalid_dbl (P : Jac ℕ) (hP : JValid p a b P) :
    JValid p a b (dblJac (C p a b) P) ∧
      toPoint p a b (fromJac (C p a b) (dblJac (C p a b) P)) = 2 • toPoint p a b (fromJac (C p a b) P) := by
  have e := dblJac_eq p a b h2 hb P hP
  have g := addAff_eq p a b hΔ h2 hb _ _ hP.2.2.2 hP.2.2.2
  refine ⟨⟨e.1, e.2.1, e.2.2.1, by rw [e.2.2.2]; exact g.1⟩, by rw [e.2.2.2, g.2, two_nsmul]⟩

/-- double-and-add computes `acc + k • base` -/
theorem mulJacAux_eq : ∀ (fuel k : ℕ) (base acc : Jac ℕ), k < 2 ^ fuel → JValid p a b base → JValid p a b acc →
    JValid p a b (mulJacAux (C p a b) fuel k base acc) ∧
      toPoint p a b (fromJac (C p a b) (mulJacAux (C p a b) fuel k base acc)) =
        toPoint p a b (fromJac (C p a b) acc) + k • toPoint p a b (fromJac (C p a b) base) := by
  intro fuel
  induction fuel with
  | zero =>
    intro k base acc hk _ hacc
    have : k = 0 := by omega
    subst this
    exact ⟨hacc, by simp [mulJacAux]⟩
  | succ fuel ih =>
    intro k base acc hk hbase hacc
    unfold mulJacAux
    by_cases hk0 : k = 0
    · rw [if_pos hk0]
      subst hk0
      exact ⟨hacc, by simp⟩
    · rw [if_neg hk0]
      have hd := jvalid_dbl p a b hΔ h2 hb base hbase
      have hk2 : k / 2 < 2 ^ fuel := by
        rw [Nat.div_lt_iff_lt_mul (by decide)]; rw [pow_succ] at hk; exact hk
      by_cases hodd : k % 2 = 1
      · rw [if_pos hodd]
        have ha := jvalid_add p a b hΔ h2 hb acc base hacc hbase
        have r := ih (k / 2) _ _ hk2 hd.1 ha.1
        refine ⟨r.1, ?_⟩
        rw [r.2, ha.2, hd.2, smul_smul, add_assoc]
        congr 1
        have : k = 1 + k / 2 * 2 := by omega
        conv_rhs => rw [this, add_smul, one_smul]
      · rw [if_neg hodd]
        have r := ih (k / 2) _ _ hk2 hd.1 hacc
        refine ⟨r.1, ?_⟩
        rw [r.2, hd.2, smul_smul]
        congr 2
        omega

omit hΔ in
theorem toJac_valid (P : Aff ℕ) (hP : Valid p a b P) :
    JValid p a b (toJac (C p a b) P) ∧ fromJac (C p a b) (toJac (C p a b) P) = P := by
  have hp0 : 0 < p := hp.out.pos
  have h1p : 1 % p < p := Nat.mod_lt _ hp0
  match P, hP with
  | none, _ =>
    have : fromJac (C p a b) (toJac (C p a b) none) = none := fromJac_zero p a b _ rfl
    exact ⟨⟨h1p, h1p, hp0, by rw [this]; trivial⟩, this⟩
  | some (x, y), hP =>
    have h1 : (1 % p : ℕ) ≠ 0 := by
      rw [Nat.mod_eq_of_lt (by omega)]; decide
    have e : fromJac (C p a b) (toJac (C p a b) (some (x, y))) = some (x, y) := by
      show fromJac (C p a b) ⟨x, y, 1 % p⟩ = _
      rw [fromJac_some p a b ⟨x, y, 1 % p⟩ h1]
      apply pair_eq_of_cast p (lt_mul p _ _) (lt_mul p _ _) hP.1 hP.2.1
      · rw [c_affx p h2 hb, c_one]; simp
      · rw [c_affy p h2 hb, c_one]; simp
    exact ⟨⟨hP.1, hP.2.1, h1p, by rw [e]; exact hP⟩, e⟩

/-- **the model's scalar multiplication is `k • P` in the group of the curve** (for `k < 2^800`) -/
theorem mul_eq (k : ℕ) (hk : k < 2 ^ 800) (P : Aff ℕ) (hP : Valid p a b P) :
    Valid p a b (mul (C p a b) k P) ∧ toPoint p a b (mul (C p a b) k P) = k • toPoint p a b P := by
  have t1 := toJac_valid p a b h2 hb P hP
  have t0 := toJac_valid p a b h2 hb none trivial
  have r := mulJacAux_eq p a b hΔ h2 hb 800 k _ _ hk t1.1 t0.1
  unfold mul
  refine ⟨r.1.2.2.2, ?_⟩
  rw [r.2, t1.2, t0.2]
  show (0 : (W p a b).Point) + _ = _
  rw [zero_add]

/-- **the model's sum of a list of points is their sum in the group of the curve** -/
theorem sum_eq (ps : List (Aff ℕ)) (hps : ∀ P ∈ ps, Valid p a b P) :
    Valid p a b (sum (C p a b) ps) ∧ toPoint p a b (sum (C p a b) ps) = (ps.map (toPoint p a b)).sum := by
  have t0 := toJac_valid p a b h2 hb none trivial
  have key : ∀ (l : List (Aff ℕ)) (acc : Jac ℕ), (∀ P ∈ l, Valid p a b P) → JValid p a b acc →
      JValid p a b (l.foldl (fun acc P => addJac (C p a b) acc (toJac (C p a b) P)) acc) ∧
        toPoint p a b (fromJac (C p a b) (l.foldl (fun acc P => addJac (C p a b) acc (toJac (C p a b) P)) acc)) =
          toPoint p a b (fromJac (C p a b) acc) + (l.map (toPoint p a b)).sum := by
    intro l
    induction l with
    | nil => intro acc _ hacc; exact ⟨hacc, by simp⟩
    | cons Q t ih =>
      intro acc hl hacc
      have tq := toJac_valid p a b h2 hb Q (hl Q List.mem_cons_self)
      have ha := jvalid_add p a b hΔ h2 hb acc _ hacc tq.1
      have r := ih _ (fun P hP => hl P (List.mem_cons_of_mem _ hP)) ha.1
      refine ⟨r.1, ?_⟩
      rw [List.foldl_cons, r.2, ha.2, tq.2, List.map_cons, List.sum_cons, add_assoc]
  have r := key ps _ hps t0.1
  unfold sum
  refine ⟨r.1.2.2.2, ?_⟩
  rw [r.2, t0.2]
  show (0 : (W p a b).Point) + _ = _
  rw [zero_add]

omit h2 hb in
/-- canonical points of the curve are determined by the group element they stand for -/
theorem toPoint_inj (P Q : Aff ℕ) (hP : Valid p a b P) (hQ : Valid p a b Q)
    (h : toPoint p a b P = toPoint p a b Q) : P = Q := by
  have ns : ∀ {x y : ℕ}, Valid p a b (some (x, y)) → (W p a b).Nonsingular (x : ZMod p) (y : ZMod p) := fun hv =>
    ((W p a b).equation_iff_nonsingular_of_Δ_ne_zero hΔ).1 ((onCurve_iff p a b hv.1 hv.2.1).1 hv.2.2)
  match P, Q, hP, hQ with
  | none, none, _, _ => rfl
  | none, some (x, y), _, hQ =>
    rw [toPoint_some p a b (ns hQ)] at h
    exact absurd h (by intro h'; cases h')
  | some (x, y), none, hP, _ =>
    rw [toPoint_some p a b (ns hP)] at h
    exact absurd h (by intro h'; cases h')
  | some (x1, y1), some (x2, y2), hP, hQ =>
    rw [toPoint_some p a b (ns hP), toPoint_some p a b (ns hQ)] at h
    injection h with hx hy
    rw [(cast_inj p hP.1 hQ.1).1 hx, (cast_inj p hP.2.1 hQ.2.1).1 hy]

/-- the sum of the model does not depend on the order of the points -/
theorem sum_perm (ps qs : List (Aff ℕ)) (hps : ∀ P ∈ ps, Valid p a b P) (h : ps.Perm qs) :
    sum (C p a b) ps = sum (C p a b) qs := by
  have hqs : ∀ P ∈ qs, Valid p a b P := fun P hP => hps P (h.mem_iff.2 hP)
  have s1 := sum_eq p a b hΔ h2 hb ps hps
  have s2 := sum_eq p a b hΔ h2 hb qs hqs
  apply toPoint_inj p a b hΔ _ _ s1.1 s2.1
  rw [s1.2, s2.2]
  exact (h.map _).sum_eq

end group

end Proofs.CurveGroup

