import Proofs.CurveGroup2
import Mathlib.NumberTheory.LegendreSymbol.Basic
import Proofs.CurveInst
import Model.Bls

/-! `Proofs.CurveGroup2` for BLS12-381 `E2` (`y² = x³ + 4(1 + u)` over `F_p²`). -/

namespace Proofs.CurveInst2
open Model Model.Curve Proofs.CurveGroup2

instance fact_bls_p : Fact (Nat.Prime Bls.p) := Proofs.CurveInst.fact_bls_p

/-- `-1` is not a square modulo `p` (`p ≡ 3 mod 4`): `F_p[u]/(u² + 1)` is a field -/
instance fact_bls_nonsquare : Fact (∀ r : ZMod Bls.p, r ^ 2 ≠ (-1 : ZMod Bls.p) + 0 * r) := ⟨by
  intro r h
  have h' : r ^ 2 = -1 := by rw [h]; ring
  exact ZMod.mod_four_ne_three_of_sq_eq_neg_one h' (by decide +kernel)⟩

theorem W_Δ (p : ℕ) [Fact p.Prime] [Fact (∀ r : ZMod p, r ^ 2 ≠ (-1 : ZMod p) + 0 * r)] (a b : ℕ × ℕ) :
    (W p a b).Δ = -(16 * (4 * (a : K p) ^ 3 + 27 * (b : K p) ^ 2)) := by
  unfold WeierstrassCurve.Δ WeierstrassCurve.b₂ WeierstrassCurve.b₄ WeierstrassCurve.b₆ WeierstrassCurve.b₈
  simp only [W]
  ring

theorem bls_E2 : Bls.E2 = C Bls.p (0, 0) (4, 4) := rfl

theorem bls2_two : 2 < Bls.p := by decide +kernel
theorem bls2_bits : Bls.p < 2 ^ 800 := by decide +kernel

theorem natCast_ne_zero (n : ℕ) (h0 : 0 < n) (hn : n < Bls.p) : ((n : ℕ) : K Bls.p) ≠ 0 := by
  intro h
  have := congrArg QuadraticAlgebra.re h
  rw [QuadraticAlgebra.re_natCast, QuadraticAlgebra.re_zero, ZMod.natCast_eq_zero_iff] at this
  exact absurd (Nat.le_of_dvd h0 this) (by omega)

theorem bls2_Δ : (W Bls.p (0, 0) (4, 4)).Δ ≠ 0 := by
  rw [W_Δ, c_zero]
  have hb : ((((4, 4) : ℕ × ℕ)) : K Bls.p) ≠ 0 := by
    intro h
    have h' : φ Bls.p (4, 4) = 0 := h
    have := congrArg QuadraticAlgebra.re h'
    unfold φ at this
    simp only [QuadraticAlgebra.re_zero] at this
    have h4 : ((4 : ℕ) : ZMod Bls.p) = 0 := this
    rw [ZMod.natCast_eq_zero_iff] at h4
    exact absurd (Nat.le_of_dvd (by decide) h4) (by decide +kernel)
  have h432 : (16 * 27 : K Bls.p) ≠ 0 := by
    have := natCast_ne_zero 432 (by decide) (by decide +kernel)
    intro h
    apply this
    rw [← h]; push_cast; norm_num
  intro h
  have : (16 * 27 : K Bls.p) * (((4, 4) : ℕ × ℕ) : K Bls.p) ^ 2 = 0 := by linear_combination -h
  rcases mul_eq_zero.1 this with h1 | h1
  · exact h432 h1
  · exact hb (pow_eq_zero_iff (by decide) |>.1 h1)

theorem bls_g2_valid : Valid Bls.p (0, 0) (4, 4) Bls.g2 := by
  refine ⟨⟨by decide +kernel, by decide +kernel⟩, ⟨by decide +kernel, by decide +kernel⟩, by decide +kernel⟩

end Proofs.CurveInst2
