import Proofs.AbsBls
import Proofs.CurveInst
import Proofs.CurveInst2
import Proofs.E1Codec
import Proofs.E2Codec
import Proofs.BlsFeldman
import Mathlib.Algebra.Module.ZMod

/-! The abstract pairing setting of the BLS theorems (`PairingGroups`, `Codec` of `Proofs/AbsBls.lean`) instantiated
with the groups the executable model computes in:

* `E1` is Mathlib's group of the curve `y² = x³ + 4` over `ZMod p` - the group `Model.Curve` computes in
  (`Proofs/CurveGroup.lean`);
* `G1`, `G2` are the `r`-torsion subgroups of that group and of the group of `y² = x³ + 4(1+u)` over `F_p²`, with their
  `ZMod r`-module structures; membership is what `Bls.inG1` decides (`Props.C05Model.inG1_iff_torsion`);
* the codec is `Bls.readE1` / `Bls.writeE1`, its three laws are the codec theorems of C05;
* the one thing left abstract is the pairing: any `ZMod r`-bilinear map on these two subgroups that is non-degenerate
  at the generator of `G2` (BLST's optimal ate pairing is one; that is the part the correspondence run covers).
-/

namespace Proofs.BlsConcrete
open Model Model.Curve WeierstrassCurve.Affine

section generic
open Proofs.CurveGroup
variable (p : ℕ) [Fact p.Prime] (a b : ℕ)

/-- canonical representative of a point of the curve -/
def ofPoint : (W p a b).Point → Aff ℕ
  | .zero => none
  | .some x y _ => some (x.val, y.val)

theorem toPoint_ofPoint (P : (W p a b).Point) : toPoint p a b (ofPoint p a b P) = P := by
  cases P with
  | zero => rfl
  | some x y h =>
    show toPoint p a b (some (x.val, y.val)) = _
    have h' : (W p a b).Nonsingular ((x.val : ℕ) : ZMod p) ((y.val : ℕ) : ZMod p) := by
      rw [ZMod.natCast_zmod_val, ZMod.natCast_zmod_val]; exact h
    rw [toPoint_some p a b h']
    exact some_congr p a b h' (ZMod.natCast_zmod_val x) (ZMod.natCast_zmod_val y) h

theorem valid_ofPoint (P : (W p a b).Point) : Valid p a b (ofPoint p a b P) := by
  cases P with
  | zero => exact True.intro
  | some x y h =>
    refine ⟨ZMod.val_lt x, ZMod.val_lt y, ?_⟩
    rw [onCurve_iff p a b (ZMod.val_lt x) (ZMod.val_lt y), ZMod.natCast_zmod_val, ZMod.natCast_zmod_val]
    exact h.1

theorem ofPoint_toPoint (hΔ : (W p a b).Δ ≠ 0) (Q : Aff ℕ) (hQ : Valid p a b Q) :
    ofPoint p a b (toPoint p a b Q) = Q :=
  toPoint_inj p a b hΔ _ _ (valid_ofPoint p a b _) hQ (toPoint_ofPoint p a b _)

end generic

/-- the `n`-torsion of a commutative group, as a `ZMod n`-module -/
def torsion (n : ℕ) (G : Type*) [AddCommGroup G] : AddSubgroup G := (nsmulAddMonoidHom n : G →+ G).ker

theorem mem_torsion {n : ℕ} {G : Type*} [AddCommGroup G] (x : G) : x ∈ torsion n G ↔ n • x = 0 := by
  unfold torsion; rw [AddMonoidHom.mem_ker]; rfl

noncomputable instance torsionModule (n : ℕ) (G : Type*) [AddCommGroup G] : Module (ZMod n) (torsion n G) :=
  AddCommGroup.zmodModule (fun x => by
    apply Subtype.ext
    rw [AddSubgroup.coe_nsmul]
    exact (mem_torsion x.1).1 x.2)

theorem torsion_smul {n : ℕ} [NeZero n] {G : Type*} [AddCommGroup G] (c : ZMod n) (x : torsion n G) :
    ((c • x : torsion n G) : G) = c.val • (x : G) := by
  conv_lhs => rw [← ZMod.natCast_zmod_val c, Nat.cast_smul_eq_nsmul]
  rw [AddSubgroup.coe_nsmul]

section bls
open Proofs.CurveGroup Proofs.CurveInst

local notation "r" => Model.Bls.r

abbrev E1P := (W Bls.p 0 4).Point
abbrev E2P := (Proofs.CurveGroup2.W Bls.p (0, 0) (4, 4)).Point
abbrev G1 := torsion r E1P
abbrev G2 := torsion r E2P

/-- the generator of G2 of the model, as an element of the `r`-torsion of the curve over `F_p²` -/
noncomputable def g2 : G2 :=
  ⟨Proofs.CurveGroup2.toPoint Bls.p (0, 0) (4, 4) Bls.g2, (mem_torsion _).2 Proofs.BlsFeldman.rG⟩

/-- the validity predicate of the signature codec is the validity predicate of the group bridge -/
theorem e1_valid_iff (P : Bls.P1) : Proofs.E1Codec.Valid P ↔ Valid Bls.p 0 4 P := by
  constructor
  · intro h
    cases P with
    | none => exact True.intro
    | some xy =>
      obtain ⟨x, y⟩ := xy
      obtain ⟨hx, hy, hc⟩ := h x y rfl
      refine ⟨hx, hy, ?_⟩
      show (Fp.mul Bls.p y y == Fp.add Bls.p (Fp.add Bls.p (Fp.mul Bls.p (Fp.mul Bls.p x x) x) (Fp.mul Bls.p 0 x)) 4) = true
      rw [beq_iff_eq]
      unfold Fp.mul Fp.add
      rw [hc]
      simp [Nat.add_mod, Nat.mul_mod]
  · intro h x y hP
    subst hP
    obtain ⟨hx, hy, hc⟩ := h
    refine ⟨hx, hy, ?_⟩
    have hc' : (Fp.mul Bls.p y y == Fp.add Bls.p (Fp.add Bls.p (Fp.mul Bls.p (Fp.mul Bls.p x x) x) (Fp.mul Bls.p 0 x)) 4) = true := hc
    rw [beq_iff_eq] at hc'
    unfold Fp.mul Fp.add at hc'
    rw [hc']
    simp [Nat.add_mod, Nat.mul_mod]

/-- **the G1 membership test of the model is `r • P = 0` in the group of the curve** -/
theorem inG1_iff_torsion (P : Bls.P1) (hP : Valid Bls.p 0 4 P) :
    Bls.inG1 P = true ↔ r • toPoint Bls.p 0 4 P = 0 := by
  have hr800 : r < 2 ^ 800 := by decide +kernel
  obtain ⟨k, hk⟩ : ∃ k, k = r := ⟨_, rfl⟩
  have m := mul_eq Bls.p 0 4 bls_Δ bls_two bls_bits k (hk ▸ hr800) P hP
  unfold Bls.inG1
  rw [bls_E1, ← hk, ← m.2]
  constructor
  · intro h
    rw [Option.isNone_iff_eq_none] at h
    rw [h]; rfl
  · intro h
    have vn : Valid Bls.p 0 4 none := True.intro
    have := toPoint_inj Bls.p 0 4 bls_Δ _ _ m.1 vn (h.trans rfl)
    rw [this]; rfl

/-- a point of the model that passes the membership test, as an element of `G1` -/
noncomputable def mkG1 (H : Bls.P1) (hv : Valid Bls.p 0 4 H) (hG : Bls.inG1 H = true) : G1 :=
  ⟨toPoint Bls.p 0 4 H, (mem_torsion _).2 ((inG1_iff_torsion H hv).1 hG)⟩

variable (GT : Type) [AddCommGroup GT] [Module (ZMod r) GT] (e : G1 →ₗ[ZMod r] G2 →ₗ[ZMod r] GT)
  (nd : ∀ s : G1, e s g2 = 0 → s = 0)

open Classical in
/-- **the pairing setting on the groups of the executable model**: everything is concrete but the pairing `e` -/
noncomputable def concrete : PairingGroups r where
  E1 := E1P
  G1 := G1
  G2 := G2
  GT := GT
  ι := (torsion r E1P).subtype
  ι_inj := Subtype.coe_injective
  toG1 := fun x => if h : r • x = 0 then some ⟨x, (mem_torsion x).2 h⟩ else none
  toG1_iff := by
    intro x s
    constructor
    · intro h
      split at h
      · cases h; rfl
      · cases h
    · rintro rfl
      exact dif_pos ((mem_torsion s.1).1 s.2)
  e := e
  g2 := g2
  nondeg_g2 := nd
  decG2 := Classical.decEq _
  decGT := Classical.decEq _

/-- `E1_read_bytes` of the model, into the group of the curve -/
noncomputable def decodeF (b : Model.Bytes) : Option E1P :=
  match Bls.readE1 b with
  | .ok Q => some (toPoint Bls.p 0 4 Q)
  | .error _ => none

/-- `E1_write_bytes` of the model, from the group of the curve -/
def encodeF (x : E1P) : Model.Bytes := Bls.writeE1 (ofPoint Bls.p 0 4 x)

theorem dec_enc (x : E1P) : decodeF (encodeF x) = some x := by
  unfold decodeF encodeF
  rw [Proofs.E1Codec.e1_roundtrip _ ((e1_valid_iff _).2 (valid_ofPoint Bls.p 0 4 x))]
  show some _ = some _
  rw [toPoint_ofPoint]

theorem decodeF_some (b : Model.Bytes) (x : E1P) (h : decodeF b = some x) :
    ∃ Q, Bls.readE1 b = .ok Q ∧ toPoint Bls.p 0 4 Q = x ∧ Valid Bls.p 0 4 Q := by
  unfold decodeF at h
  cases hr : Bls.readE1 b with
  | error e => rw [hr] at h; cases h
  | ok Q =>
    rw [hr] at h
    exact ⟨Q, rfl, Option.some.inj h, (e1_valid_iff Q).1 (Proofs.E1Codec.e1_accepts_valid b Q hr)⟩

theorem enc_dec (b : Model.Bytes) (x : E1P) (h : decodeF b = some x) : encodeF x = b := by
  obtain ⟨Q, hr, hx, hv⟩ := decodeF_some b x h
  unfold encodeF
  rw [← hx, ofPoint_toPoint Bls.p 0 4 bls_Δ Q hv]
  exact Proofs.E1Codec.e1_canonical b Q hr

theorem dec_len (b : Model.Bytes) (x : E1P) (h : decodeF b = some x) : b.length = 48 := by
  obtain ⟨Q, hr, _, _⟩ := decodeF_some b x h
  unfold Bls.readE1 at hr
  split at hr
  · cases hr
  · omega

instance : NeZero r := ⟨(Fact.out : Nat.Prime r).ne_zero⟩

/-- scalar multiplication in the module `G1` is the model's double-and-add, and its encoding is `Bls.signPoint` -/
theorem encode_smul (sk : ZMod r) (H : Bls.P1) (hv : Valid Bls.p 0 4 H) (hG : Bls.inG1 H = true) :
    encodeF ((sk • mkG1 H hv hG : G1) : E1P) = Bls.signPoint sk.val H := by
  have hr800 : r < 2 ^ 800 := by decide +kernel
  obtain ⟨k, hk⟩ : ∃ k, k = sk.val := ⟨_, rfl⟩
  have hk800 : k < 2 ^ 800 := by rw [hk]; exact lt_trans (ZMod.val_lt sk) hr800
  have m := mul_eq Bls.p 0 4 bls_Δ bls_two bls_bits k hk800 H hv
  rw [← bls_E1] at m
  unfold encodeF Bls.signPoint
  rw [torsion_smul, ← hk]
  show Bls.writeE1 (ofPoint Bls.p 0 4 (k • toPoint Bls.p 0 4 H)) = _
  rw [← m.2, ofPoint_toPoint Bls.p 0 4 bls_Δ _ m.1]

/-- `Bls.readE1` / `Bls.writeE1` as the codec of the abstract setting: its laws are the codec theorems -/
noncomputable def codec : Codec (concrete GT e nd) where
  decode := decodeF
  encode := encodeF
  dec_enc := dec_enc
  enc_dec := enc_dec
  len := dec_len

/-! ### the `G2` side -/

/-- the validity predicate of the public-key codec is the validity predicate of the group bridge -/
theorem e2_valid_iff (P : Bls.P2) : Proofs.E2Codec.Valid P ↔ Proofs.CurveGroup2.Valid Bls.p (0, 0) (4, 4) P := by
  constructor
  · intro h
    cases P with
    | none => exact True.intro
    | some xy =>
      obtain ⟨x, y⟩ := xy
      obtain ⟨hx1, hx2, hy1, hy2, hc⟩ := h x y rfl
      refine ⟨⟨hx1, hx2⟩, ⟨hy1, hy2⟩, ?_⟩
      show (Fp2.mul Bls.p y y == Fp2.add Bls.p (Fp2.add Bls.p (Fp2.mul Bls.p (Fp2.mul Bls.p x x) x)
        (Fp2.mul Bls.p (0, 0) x)) (4, 4)) = true
      rw [beq_iff_eq, hc]
      unfold Proofs.E2Codec.rhs
      rw [← Proofs.CurveGroup2.cast_inj Bls.p (Proofs.CurveGroup2.lt_add Bls.p _ _) (Proofs.CurveGroup2.lt_add Bls.p _ _),
        Proofs.CurveGroup2.c_add, Proofs.CurveGroup2.c_add, Proofs.CurveGroup2.c_add,
        Proofs.CurveGroup2.c_mul Bls.p (0, 0) x, Proofs.CurveGroup2.c_zero]
      ring
  · intro h x y hP
    subst hP
    obtain ⟨hx, hy, hc⟩ := h
    refine ⟨hx.1, hx.2, hy.1, hy.2, ?_⟩
    have hc' : (Fp2.mul Bls.p y y == Fp2.add Bls.p (Fp2.add Bls.p (Fp2.mul Bls.p (Fp2.mul Bls.p x x) x)
        (Fp2.mul Bls.p (0, 0) x)) (4, 4)) = true := hc
    rw [beq_iff_eq] at hc'
    rw [hc']
    unfold Proofs.E2Codec.rhs
    rw [← Proofs.CurveGroup2.cast_inj Bls.p (Proofs.CurveGroup2.lt_add Bls.p _ _) (Proofs.CurveGroup2.lt_add Bls.p _ _),
      Proofs.CurveGroup2.c_add, Proofs.CurveGroup2.c_add, Proofs.CurveGroup2.c_add,
      Proofs.CurveGroup2.c_mul Bls.p (0, 0) x, Proofs.CurveGroup2.c_zero]
    ring

/-- **the G2 membership test of the model is `r • P = 0` in the group of the curve over `F_p²`** -/
theorem inG2_iff_torsion (P : Bls.P2) (hP : Proofs.CurveGroup2.Valid Bls.p (0, 0) (4, 4) P) :
    Bls.inG2 P = true ↔ r • Proofs.CurveGroup2.toPoint Bls.p (0, 0) (4, 4) P = 0 := by
  have hr800 : r < 2 ^ 800 := by decide +kernel
  obtain ⟨k, hk⟩ : ∃ k, k = r := ⟨_, rfl⟩
  have m := Proofs.CurveGroup2.mul_eq Bls.p (0, 0) (4, 4) Proofs.CurveInst2.bls2_Δ Proofs.CurveInst2.bls2_two
    Proofs.CurveInst2.bls2_bits k (hk ▸ hr800) P hP
  unfold Bls.inG2
  rw [Proofs.CurveInst2.bls_E2, ← hk, ← m.2]
  constructor
  · intro h
    rw [Option.isNone_iff_eq_none] at h
    rw [h]; rfl
  · intro h
    have vn : Proofs.CurveGroup2.Valid Bls.p (0, 0) (4, 4) none := True.intro
    have := Proofs.CurveGroup2.toPoint_inj Bls.p (0, 0) (4, 4) Proofs.CurveInst2.bls2_Δ _ _ m.1 vn (h.trans rfl)
    rw [this]; rfl

theorem g2_ne_zero : g2 ≠ 0 := by
  intro h
  have h0 : Proofs.CurveGroup2.toPoint Bls.p (0, 0) (4, 4) Bls.g2 =
      Proofs.CurveGroup2.toPoint Bls.p (0, 0) (4, 4) none := congrArg Subtype.val h
  have vn : Proofs.CurveGroup2.Valid Bls.p (0, 0) (4, 4) none := True.intro
  have := Proofs.CurveGroup2.toPoint_inj Bls.p (0, 0) (4, 4) Proofs.CurveInst2.bls2_Δ _ _
    Proofs.CurveInst2.bls_g2_valid vn h0
  exact absurd this (by decide)

/-- the public key `sk • g2` of the abstract setting is the point `Bls.publicKeyOf sk` of the model -/
theorem smul_g2 (sk : ZMod r) :
    ((sk • g2 : G2) : E2P) = Proofs.CurveGroup2.toPoint Bls.p (0, 0) (4, 4) (Bls.publicKeyOf sk.val) := by
  have hr800 : r < 2 ^ 800 := by decide +kernel
  obtain ⟨k, hk⟩ : ∃ k, k = sk.val := ⟨_, rfl⟩
  have hk800 : k < 2 ^ 800 := by rw [hk]; exact lt_trans (ZMod.val_lt sk) hr800
  have m := Proofs.BlsFeldman.gmul k hk800
  rw [torsion_smul, ← hk]
  unfold Bls.publicKeyOf
  rw [Proofs.CurveInst2.bls_E2, m.2]
  rfl

end bls

end Proofs.BlsConcrete
