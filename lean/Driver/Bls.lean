import Model.Bls

/-! Line-protocol front end for the BLS12-381 model. -/

namespace Driver.Bls
open Model Model.Bls

def okHex (b : Bytes) : String := "ok " ++ toHex b

/-- `fr.dec <b>`: DecodePrivateKey(BLS, b) then Encode -/
def frDec (args : List String) : String :=
  match args with
  | [b] => match parseBytes? b with
    | some b => match decodePrivateKey b with
      | some x => okHex (writeFr x)
      | none => "err"
    | none => "bad-op"
  | _ => "bad-op"

/-- `pk.dec <b>`: DecodePublicKey(BLS, b) then Encode -/
def pkDec (args : List String) : String :=
  match args with
  | [b] => match parseBytes? b with
    | some b => match decodePublicKey b with
      | some P => okHex (writeE2 P)
      | none => "err"
    | none => "bad-op"
  | _ => "bad-op"

/-- `e1.dec <b>`: E1_read_bytes (no subgroup check) then E1_write_bytes -/
def e1Dec (args : List String) : String :=
  match args with
  | [b] => match parseBytes? b with
    | some b => match readE1 b with
      | .ok P => okHex (writeE1 P)
      | .error _ => "err"
    | none => "bad-op"
  | _ => "bad-op"

/-- `e2.dec <b>`: E2_read_bytes (no subgroup check) then E2_write_bytes -/
def e2Dec (args : List String) : String :=
  match args with
  | [b] => match parseBytes? b with
    | some b => match readE2 b with
      | .ok P => okHex (writeE2 P)
      | .error _ => "err"
    | none => "bad-op"
  | _ => "bad-op"

def parseNat? (s : String) : Option Nat :=
  if s.startsWith "0x" then (unhex? (let h := (s.drop 2).toString; if h.length % 2 = 1 then "0" ++ h else h)).map beNat
  else s.toNat?

/-- `pk.of <sk>`: public key bytes of a scalar -/
def pkOf (args : List String) : String :=
  match args with
  | [k] => match parseNat? k with
    | some k => okHex (writeE2 (publicKeyOf (k % r)))
    | none => "bad-op"
  | _ => "bad-op"

/-- ZCash serialization of a G2 point: the F_p² coordinate is written c1 ‖ c0 (imaginary part first) -/
def writeE2Zcash : P2 → Bytes
  | none => 0xC0 :: zeros 95
  | some (x, y) =>
    match natBE 48 x.2 ++ natBE 48 x.1 with
    | [] => []
    | h :: t => (h ||| UInt8.ofNat (0x80 + 0x20 * Fp2.sign p y)) :: t

/-- `pk.zcash <sk>`: the public key bytes the cited ZCash format prescribes -/
def pkZcash (args : List String) : String :=
  match args with
  | [k] => match parseNat? k with
    | some k => okHex (writeE2Zcash (publicKeyOf (k % r)))
    | none => "bad-op"
  | _ => "bad-op"

/-- `sig.expect <sk> <H>`: encode(sk • decode(H)) -/
def sigExpect (args : List String) : String :=
  match args with
  | [k, h] => match parseNat? k, parseBytes? h with
    | some k, some h => match readE1 h with
      | .ok H => okHex (signPoint (k % r) H)
      | .error _ => "err"
    | _, _ => "bad-op"
  | _ => "bad-op"

/-- x-coordinates 1,2,3,… that give a point of E1; the i-th one, multiplied by `r`, is a point of
    order dividing the cofactor (outside G1 unless it is the identity) -/
def e1PointFromX (fuel : Nat) (x : Nat) : Option P1 :=
  match fuel with
  | 0 => none
  | fuel+1 =>
    match Fp.sqrt? p ((x * x % p * x + 4) % p) with
    | some y => some (some (x, y))
    | none => e1PointFromX fuel (x + 1)

/-- `e1.torsion <i>`: a non-identity point of E1 annihilated by the cofactor (so outside G1) -/
def e1Torsion (i : Nat) : P1 :=
  match e1PointFromX 100 (1000 * (i + 1)) with
  | some P => Curve.mul E1 r P
  | none => none

/-- `e1.offgroup <i>`: a point of E1 outside G1 with full-order component -/
def e1Off (i : Nat) : P1 :=
  match e1PointFromX 100 (7777 * (i + 1)) with
  | some P => P
  | none => none

def e1Gen (args : List String) : String :=
  match args with
  | ["torsion", i] => match i.toNat? with
    | some i => okHex (writeE1 (e1Torsion i))
    | none => "bad-op"
  | ["off", i] => match i.toNat? with
    | some i => okHex (writeE1 (e1Off i))
    | none => "bad-op"
  | ["add", a, b] => match parseBytes? a, parseBytes? b with
    | some a, some b => match readE1 a, readE1 b with
      | .ok A, .ok B => okHex (writeE1 (Curve.addAff E1 A B))
      | _, _ => "err"
    | _, _ => "bad-op"
  | ["neg", a] => match parseBytes? a with
    | some a => match readE1 a with
      | .ok A => okHex (writeE1 (Curve.negAff E1 A))
      | _ => "err"
    | _ => "bad-op"
  | ["mul", k, a] => match parseNat? k, parseBytes? a with
    | some k, some a => match readE1 a with
      | .ok A => okHex (writeE1 (Curve.mul E1 k A))
      | _ => "err"
    | _, _ => "bad-op"
  | ["ing1", a] => match parseBytes? a with
    | some a => match readE1 a with
      | .ok A => if inG1 A then "true" else "false"
      | _ => "err"
    | _ => "bad-op"
  | _ => "bad-op"

def e2PointFromX (fuel : Nat) (x : Fp2.El) : Option P2 :=
  match fuel with
  | 0 => none
  | fuel+1 =>
    let f := E2.f
    match Fp2.sqrt? p (f.add (f.mul (f.mul x x) x) E2.b) with
    | some y => some (some (x, y))
    | none => e2PointFromX fuel (x.1 + 1, x.2)

def e2Gen (args : List String) : String :=
  match args with
  | ["off", i] => match i.toNat? with
    | some i => match e2PointFromX 100 (31 * (i + 1), i + 2) with
      | some P => okHex (writeE2 P)
      | none => "err"
    | none => "bad-op"
  | ["torsion", i] => match i.toNat? with
    | some i => match e2PointFromX 100 (31 * (i + 1), i + 2) with
      | some P => okHex (writeE2 (Curve.mul E2 r P))
      | none => "err"
    | none => "bad-op"
  | ["add", a, b] => match parseBytes? a, parseBytes? b with
    | some a, some b => match readE2 a, readE2 b with
      | .ok A, .ok B => okHex (writeE2 (Curve.addAff E2 A B))
      | _, _ => "err"
    | _, _ => "bad-op"
  | ["neg", a] => match parseBytes? a with
    | some a => match readE2 a with
      | .ok A => okHex (writeE2 (Curve.negAff E2 A))
      | _ => "err"
    | _ => "bad-op"
  | ["mul", k, a] => match parseNat? k, parseBytes? a with
    | some k, some a => match readE2 a with
      | .ok A => okHex (writeE2 (Curve.mul E2 k A))
      | _ => "err"
    | _, _ => "bad-op"
  | ["ing2", a] => match parseBytes? a with
    | some a => match readE2 a with
      | .ok A => if inG2 A then "true" else "false"
      | _ => "err"
    | _ => "bad-op"
  | _ => "bad-op"

end Driver.Bls
