import Model.Bls
import Model.HashToCurve
import Extracted.Consts

/-! Line-protocol front end for the BLS12-381 model. -/

namespace Driver.Bls
open Model Model.Bls

def okHex (b : Bytes) : String := "ok " ++ toHex b

/-- `fr.dec <b>`: DecodePrivateKey(BLS, b) then Encode -/
def frDec (args : List String) : String :=
  match args with
  | [b] => match parseBytes? b with
    | some b => match decodePrivateKey b with
      | some x => okHex (writeFr x)
      | none => "err"
    | none => "bad-op"
  | _ => "bad-op"

/-- `pk.dec <b>`: DecodePublicKey(BLS, b) then Encode -/
def pkDec (args : List String) : String :=
  match args with
  | [b] => match parseBytes? b with
    | some b => match decodePublicKey b with
      | some P => okHex (writeE2 P)
      | none => "err"
    | none => "bad-op"
  | _ => "bad-op"

/-- `e1.dec <b>`: E1_read_bytes (no subgroup check) then E1_write_bytes -/
def e1Dec (args : List String) : String :=
  match args with
  | [b] => match parseBytes? b with
    | some b => match readE1 b with
      | .ok P => okHex (writeE1 P)
      | .error _ => "err"
    | none => "bad-op"
  | _ => "bad-op"

/-- `e2.dec <b>`: E2_read_bytes (no subgroup check) then E2_write_bytes -/
def e2Dec (args : List String) : String :=
  match args with
  | [b] => match parseBytes? b with
    | some b => match readE2 b with
      | .ok P => okHex (writeE2 P)
      | .error _ => "err"
    | none => "bad-op"
  | _ => "bad-op"

def parseNat? (s : String) : Option Nat :=
  if s.startsWith "0x" then (unhex? (let h := (s.drop 2).toString; if h.length % 2 = 1 then "0" ++ h else h)).map beNat
  else s.toNat?

/-- `h2c.map <128 bytes>`: the point `map_to_G1` computes, compressed -/
def h2cMap (args : List String) : String :=
  match args with
  | [h] => match parseBytes? h with
    | some h => if h.length = 128 then okHex (writeE1 (H2C.mapToG1 h)) else "err"
    | none => "bad-op"
  | _ => "bad-op"

/-- `bls.signmsg <sk> <tag> <msg>`: `Sign(msg, NewExpandMsgXOFKMAC128(tag))` from the message: KMAC128 expand-message
    keyed with `tag ‖ signature suite` (the suite string is regenerated from the source), hash-to-curve, scalar
    multiplication, compression -/
def signMsg (args : List String) : String :=
  match args with
  | [k, tag, msg] => match parseNat? k, parseBytes? tag, parseBytes? msg with
    | some k, some tag, some msg =>
      okHex (H2C.sign Extracted.Consts.crypto_blsSigCipherSuite.toUTF8.toList (k % r) tag msg)
    | _, _, _ => "bad-op"
  | _ => "bad-op"

/-- `pop.gen <sk>`: `BLSGeneratePOP`: the signature of the public key bytes under the PoP suite (empty tag) -/
def popGen (args : List String) : String :=
  match args with
  | [k] => match parseNat? k with
    | some k =>
      okHex (H2C.sign Extracted.Consts.crypto_blsPOPCipherSuite.toUTF8.toList (k % r) [] (writeE2 (publicKeyOf (k % r))))
    | none => "bad-op"
  | _ => "bad-op"

/-- `pk.of <sk>`: public key bytes of a scalar -/
def pkOf (args : List String) : String :=
  match args with
  | [k] => match parseNat? k with
    | some k => okHex (writeE2 (publicKeyOf (k % r)))
    | none => "bad-op"
  | _ => "bad-op"

/-- ZCash serialization of a G2 point: the F_p² coordinate is written c1 ‖ c0 (imaginary part first) -/
def writeE2Zcash : P2 → Bytes
  | none => 0xC0 :: zeros 95
  | some (x, y) =>
    match natBE 48 x.2 ++ natBE 48 x.1 with
    | [] => []
    | h :: t => (h ||| UInt8.ofNat (0x80 + 0x20 * Fp2.sign p y)) :: t

/-- `pk.zcash <sk>`: the public key bytes the cited ZCash format prescribes -/
def pkZcash (args : List String) : String :=
  match args with
  | [k] => match parseNat? k with
    | some k => okHex (writeE2Zcash (publicKeyOf (k % r)))
    | none => "bad-op"
  | _ => "bad-op"

/-- `sig.expect <sk> <H>`: encode(sk • decode(H)) -/
def sigExpect (args : List String) : String :=
  match args with
  | [k, h] => match parseNat? k, parseBytes? h with
    | some k, some h => match readE1 h with
      | .ok H => okHex (signPoint (k % r) H)
      | .error _ => "err"
    | _, _ => "bad-op"
  | _ => "bad-op"

/-- `bls.verify <sk> <H> <cand>`: the verdict the specification prescribes for `Verify` under the public key
    `sk • g2` (sk = 0: identity key) of the candidate string: true iff it is the one string `encode(sk • H)` -/
def blsVerify (args : List String) : String :=
  match args with
  | [k, h, cand] => match parseNat? k, parseBytes? h, parseBytes? cand with
    | some k, some h, some cand => match readE1 h with
      | .ok H =>
        if cand.length ≠ 48 then "false"
        else if k % r = 0 then "false"
        else if cand == signPoint (k % r) H then "true" else "false"
      | .error _ => "err"
    | _, _, _ => "bad-op"
  | _ => "bad-op"

def parseNats? (l : List String) : Option (List Nat) := l.mapM parseNat?

/-- `agg.sk <k>*`: encoding of the aggregated private key -/
def aggSk (args : List String) : String :=
  match parseNats? args with
  | some ks => if ks.isEmpty then "err EmptyList" else okHex (writeFr (ks.foldl (· + ·) 0 % r))
  | none => "bad-op"

/-- `agg.pk <k>*`: the aggregate of the public keys of the scalars, i.e. `(Σ k) • g2` -/
def aggPk (args : List String) : String :=
  match parseNats? args with
  | some ks => if ks.isEmpty then "err EmptyList" else okHex (writeE2 (publicKeyOf (ks.foldl (· + ·) 0 % r)))
  | none => "bad-op"

/-- `agg.sig <b>*`: AggregateBLSSignatures -/
def aggSig (args : List String) : String :=
  match args.mapM parseBytes? with
  | some bs =>
    if bs.isEmpty then "err EmptyList" else
    match bs.mapM (fun b => match readE1 b with | .ok P => some P | .error _ => none) with
    | some ps => okHex (writeE1 (Curve.sum E1 ps))
    | none => "err InvalidSignature"
  | none => "bad-op"

/-- `bls.many <cand> (<sk> <H>)*`: VerifyBLSSignatureManyMessages under keys `sk_i • g2`:
    true iff no key is the identity and `cand = encode(Σ sk_i • H_i)` -/
def blsMany (args : List String) : String :=
  match args with
  | cand :: rest =>
    let rec pairs : List String → Option (List (Nat × P1))
      | [] => some []
      | k :: h :: t => do
        let k ← parseNat? k
        let h ← parseBytes? h
        let H ← (match readE1 h with | .ok H => some H | .error _ => none)
        let r' ← pairs t
        pure ((k % r, H) :: r')
      | _ => none
    match parseBytes? cand, pairs rest with
    | some cand, some ps =>
      if cand.length ≠ 48 then "false"
      else if ps.isEmpty then "err EmptyList"
      else if ps.any (fun kh => kh.1 = 0) then "false"
      else if cand == writeE1 (Curve.sum E1 (ps.map fun kh => Curve.mul E1 kh.1 kh.2)) then "true" else "false"
    | _, _ => "bad-op"
  | _ => "bad-op"

/-- `spock <sk1> <p1> <sk2> <p2>`: SPOCKVerify under keys `sk_i • g2`: both proofs canonical encodings of G1
    elements, neither key the identity, `e(p1, pk2) = e(p2, pk1)` i.e. `sk2 • P1 = sk1 • P2` -/
def spock (args : List String) : String :=
  match args with
  | [k1, p1, k2, p2] =>
    match parseNat? k1, parseBytes? p1, parseNat? k2, parseBytes? p2 with
    | some k1, some p1, some k2, some p2 =>
      if p1.length ≠ 48 ∨ p2.length ≠ 48 then "false"
      else if k1 % r = 0 ∨ k2 % r = 0 then "false"
      else match readE1 p1, readE1 p2 with
        | .ok P1, .ok P2 =>
          if !(inG1 P1) || !(inG1 P2) then "false"
          else if Curve.mul E1 (k2 % r) P1 == Curve.mul E1 (k1 % r) P2 then "true" else "false"
        | _, _ => "false"
    | _, _, _, _ => "bad-op"
  | _ => "bad-op"

/-- x-coordinates 1,2,3,… that give a point of E1; the i-th one, multiplied by `r`, is a point of
    order dividing the cofactor (outside G1 unless it is the identity) -/
def e1PointFromX (fuel : Nat) (x : Nat) : Option P1 :=
  match fuel with
  | 0 => none
  | fuel+1 =>
    match Fp.sqrt? p ((x * x % p * x + 4) % p) with
    | some y => some (some (x, y))
    | none => e1PointFromX fuel (x + 1)

/-- `e1.torsion <i>`: a non-identity point of E1 annihilated by the cofactor (so outside G1) -/
def e1TorsionBig (i : Nat) : P1 :=
  match e1PointFromX 100 (1000 * (i + 1)) with
  | some P => Curve.mul E1 r P
  | none => none

/-- cofactor of G1 in E1: `3 · 11² · 10177² · 859267² · 52437899²` -/
def e1Cofactor : Nat := 0x396c8c005555e1568c00aaab0000aaab

/-- a point of order exactly `q` (a prime factor of the cofactor), searched deterministically -/
def e1SmallOrder (q : Nat) : Nat → Nat → P1
  | 0, _ => none
  | fuel+1, k =>
    match Curve.mul E1 (e1Cofactor / (q * q)) (e1TorsionBig k) with
    | none => e1SmallOrder q fuel (k + 1)
    | some P =>
      match Curve.mul E1 q (some P) with
      | none => some P
      | some Q => some Q

/-- indices below 100: torsion points of large order; 100, 101: the two points of order 3, `(0, ±2)`;
    102: a point of order 11; 103: a point of order 10177 -/
def e1Torsion (i : Nat) : P1 :=
  if i = 100 then some (0, 2)
  else if i = 101 then some (0, p - 2)
  else if i = 102 then e1SmallOrder 11 40 7
  else if i = 103 then e1SmallOrder 10177 40 7
  else e1TorsionBig i

/-- `e1.offgroup <i>`: a point of E1 outside G1 with full-order component -/
def e1Off (i : Nat) : P1 :=
  match e1PointFromX 100 (7777 * (i + 1)) with
  | some P => P
  | none => none

def e1Gen (args : List String) : String :=
  match args with
  | ["lift", x] => match parseNat? x with           -- the point with the first abscissa >= x that is on the curve
    | some x => match e1PointFromX 200 (x % p) with
      | some P => okHex (writeE1 P)
      | none => "err"
    | none => "bad-op"
  | ["torsion", i] => match i.toNat? with
    | some i => okHex (writeE1 (e1Torsion i))
    | none => "bad-op"
  | ["off", i] => match i.toNat? with
    | some i => okHex (writeE1 (e1Off i))
    | none => "bad-op"
  | ["add", a, b] => match parseBytes? a, parseBytes? b with
    | some a, some b => match readE1 a, readE1 b with
      | .ok A, .ok B => okHex (writeE1 (Curve.addAff E1 A B))
      | _, _ => "err"
    | _, _ => "bad-op"
  | ["neg", a] => match parseBytes? a with
    | some a => match readE1 a with
      | .ok A => okHex (writeE1 (Curve.negAff E1 A))
      | _ => "err"
    | _ => "bad-op"
  | ["mul", k, a] => match parseNat? k, parseBytes? a with
    | some k, some a => match readE1 a with
      | .ok A => okHex (writeE1 (Curve.mul E1 k A))
      | _ => "err"
    | _, _ => "bad-op"
  | ["ing1", a] => match parseBytes? a with
    | some a => match readE1 a with
      | .ok A => if inG1 A then "true" else "false"
      | _ => "err"
    | _ => "bad-op"
  | _ => "bad-op"

def e2PointFromX (fuel : Nat) (x : Fp2.El) : Option P2 :=
  match fuel with
  | 0 => none
  | fuel+1 =>
    let f := E2.f
    match Fp2.sqrt? p (f.add (f.mul (f.mul x x) x) E2.b) with
    | some y => some (some (x, y))
    | none => e2PointFromX fuel (x.1 + 1, x.2)

def e2Gen (args : List String) : String :=
  match args with
  | ["off", i] => match i.toNat? with
    | some i => match e2PointFromX 100 (31 * (i + 1), i + 2) with
      | some P => okHex (writeE2 P)
      | none => "err"
    | none => "bad-op"
  | ["torsion", i] => match i.toNat? with
    | some i => match e2PointFromX 100 (31 * (i + 1), i + 2) with
      | some P => okHex (writeE2 (Curve.mul E2 r P))
      | none => "err"
    | none => "bad-op"
  | ["add", a, b] => match parseBytes? a, parseBytes? b with
    | some a, some b => match readE2 a, readE2 b with
      | .ok A, .ok B => okHex (writeE2 (Curve.addAff E2 A B))
      | _, _ => "err"
    | _, _ => "bad-op"
  | ["neg", a] => match parseBytes? a with
    | some a => match readE2 a with
      | .ok A => okHex (writeE2 (Curve.negAff E2 A))
      | _ => "err"
    | _ => "bad-op"
  | ["mul", k, a] => match parseNat? k, parseBytes? a with
    | some k, some a => match readE2 a with
      | .ok A => okHex (writeE2 (Curve.mul E2 k A))
      | _ => "err"
    | _, _ => "bad-op"
  | ["ing2", a] => match parseBytes? a with
    | some a => match readE2 a with
      | .ok A => if inG2 A then "true" else "false"
      | _ => "err"
    | _ => "bad-op"
  | _ => "bad-op"

end Driver.Bls
