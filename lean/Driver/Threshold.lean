import Model.Threshold
import Driver.Dkg

/-! BLS12-381 instance of the threshold-signature model and its line protocol. -/

namespace Driver.Threshold
open Model Model.Threshold

def r := Bls.r

/-- Lagrange coefficient at 0 by the textbook formula: Π_{j≠i} x_j / (x_j - x_i) in F_r -/
def coeffSpec (xs : List Nat) (i : Nat) : Nat :=
  let xi := xs.getD i 0
  (List.range xs.length).foldl (fun acc j =>
    if j = i then acc else
      let xj := xs.getD j 0
      acc * xj % r * powMod ((xj + r - xi) % r) (r - 2) r % r) 1

/-- the same coefficient from the limb-batched loop of the C code (`Model.Threshold.coeff`) -/
def coeffImpl (xs : List Nat) (i : Nat) : Nat := coeff r xs i

/-- `E1_lagrange_interpolate_at_zero_write`; the coefficient is computed both ways and must agree -/
def interpolate (pairs : List (Nat × Bytes)) : Option Bytes := do
  let pts ← pairs.mapM fun p => match Bls.readE1 p.2 with | .ok P => some P | .error _ => none
  let xs := pairs.map (·.1)
  let terms := (List.range pts.length).map fun i =>
    let c := coeffSpec xs i
    if c == coeffImpl xs i then Curve.mul Bls.E1 c (pts.getD i none) else Curve.mul Bls.E1 1 Bls.g1  -- poison on disagreement
  pure (Bls.writeE1 (Curve.sum Bls.E1 terms))

def keysOf (n t : Nat) (seed : Bytes) : Option (List Nat × Nat) :=
  (Driver.Dkg.genPoly seed t).map fun a => ((List.range n).map fun i => Driver.Dkg.polyEval a (i + 1), a.headD 0)

/-- `th.keygen <n> <t> <seed>` -/
def keygen (args : List String) : String :=
  match args with
  | [n, t, seed] =>
    match n.toInt?, t.toInt?, parseBytes? seed with
    | some n, some t, some seed =>
      if n < 2 ∨ n > 254 then "err" else if t ≥ n ∨ t < 1 then "err" else
      match keysOf n.toNat t.toNat seed with
      | none => "err"
      | some (xs, a0) =>
        "ok " ++ ",".intercalate (xs.map fun x => toHex (Bls.writeFr x)) ++ " " ++
          ",".intercalate (xs.map fun x => toHex (Bls.writeE2 (Bls.publicKeyOf x))) ++ " " ++
          toHex (Bls.writeE2 (Bls.publicKeyOf a0))
    | _, _, _ => "bad-op"
  | _ => "bad-op"

def parsePairs? (l : List String) : Option (List (Int × Bytes)) :=
  l.mapM fun tok => match tok.splitOn ":" with
    | [i, b] => do pure ((← i.toInt?), (← parseBytes? b))
    | _ => none

/-- `th.rec <n> <t> <signer:share>*` : BLSReconstructThresholdSignature -/
def reconstruct (args : List String) : String :=
  match args with
  | n :: t :: rest =>
    match n.toInt?, t.toInt?, parsePairs? rest with
    | some n, some t, some pairs =>
      if n < 2 ∨ n > 254 then "err InvalidInputs"
      else if t ≥ n ∨ t < 1 then "err InvalidInputs"
      else if pairs.length < t.toNat + 1 then "err NotEnoughShares"
      else
        -- the loop over the shares: per-index checks in order
        let rec loop (i : Nat) (seen : List Int) : List (Int × Bytes) → Option String
          | [] => none
          | (s, b) :: rest =>
            if i ≤ t.toNat ∧ b.length ≠ 48 then some "err InvalidSignature"
            else if s ≥ n ∨ s < 0 then some "err InvalidInputs"
            else if seen.contains s then some "err DuplicatedSigner"
            else loop (i + 1) (s :: seen) rest
        match loop 0 [] pairs with
        | some e => e
        | none =>
          match interpolate ((pairs.take (t.toNat + 1)).map fun p => (p.1.toNat + 1, p.2)) with
          | none => "err InvalidSignature"
          | some s => "ok " ++ toHex s
    | _, _, _ => "bad-op"
  | _ => "bad-op"

def mkEnv (n t : Nat) (xs : List Nat) (a0 : Nat) (H : Bls.P1) : Env :=
  { size := n, threshold := t,
    verifyShare := fun i share => share.length == 48 && xs.getD i 0 != 0 && share == Bls.signPoint (xs.getD i 0) H
    verifyGroup := fun s => s.length == 48 && s == Bls.signPoint a0 H
    interpolate := interpolate }

def parseOp? (tok : String) : Option Op :=
  match tok.splitOn ":" with
  | ["T", i, b] => do pure (.trustedAdd (← i.toInt?) (← parseBytes? b))
  | ["V", i, b] => do pure (.verifyAndAdd (← i.toInt?) (← parseBytes? b))
  | ["H", i] => i.toInt?.map .hasShare
  | ["E"] => some .enoughShares
  | ["VS", i, b] => do pure (.verifyShare (← i.toInt?) (← parseBytes? b))
  | ["VT", b] => (parseBytes? b).map .verifyThresholdSignature
  | ["S"] => some .thresholdSignature
  | _ => none

def showRet : Ret → String
  | .bool b => if b then "true" else "false"
  | .bool2 a b => (if a then "true" else "false") ++ "/" ++ (if b then "true" else "false")
  | .sig s => "sig:" ++ toHex s
  | .invalidInputs => "InvalidInputs"
  | .duplicatedSigner => "DuplicatedSigner"
  | .notEnoughShares => "NotEnoughShares"
  | .invalidSignature => "InvalidSignature"

def parseRet? (s : String) : Option Ret :=
  match s with
  | "true" => some (.bool true)
  | "false" => some (.bool false)
  | "true/true" => some (.bool2 true true)
  | "true/false" => some (.bool2 true false)
  | "false/true" => some (.bool2 false true)
  | "false/false" => some (.bool2 false false)
  | "InvalidInputs" => some .invalidInputs
  | "DuplicatedSigner" => some .duplicatedSigner
  | "NotEnoughShares" => some .notEnoughShares
  | "InvalidSignature" => some .invalidSignature
  | _ => if s.startsWith "sig~" then (parseBytes? (s.drop 4).toString).map .sig else none

def withEnv (args : List String) (k : Env → List String → String) : String :=
  match args with
  | n :: t :: seed :: h :: rest =>
    match n.toNat?, t.toNat?, parseBytes? seed, parseBytes? h with
    | some n, some t, some seed, some h =>
      match keysOf n t seed, Bls.readE1 h with
      | some (xs, a0), .ok H => k (mkEnv n t xs a0 H) rest
      | _, _ => "err"
    | _, _, _, _ => "bad-op"
  | _ => "bad-op"

/-- `th.groupsig <n> <t> <seed> <H>`: the one signature every reconstruction must give: `a0 • H` -/
def groupsig (args : List String) : String :=
  match args with
  | [n, t, seed, h] =>
    match n.toNat?, t.toNat?, parseBytes? seed, parseBytes? h with
    | some n, some t, some seed, some h =>
      match keysOf n t seed, Bls.readE1 h with
      | some (_, a0), .ok H => "ok " ++ toHex (Bls.signPoint a0 H)
      | _, _ => "err"
    | _, _, _, _ => "bad-op"
  | _ => "bad-op"

/-- `th.obj <n> <t> <seed> <H> <op>*`: sequential semantics -/
def obj (args : List String) : String :=
  withEnv args fun E toks =>
    match toks.mapM parseOp? with
    | none => "bad-op"
    | some ops => " ".intercalate ("ok" :: (run E {} ops).2.map showRet)

/-- `th.lin <n> <t> <seed> <H> <inv,res,op,ret>*`: is the concurrent history linearizable? -/
def lin (args : List String) : String :=
  withEnv args fun E toks =>
    let evs := toks.mapM fun tok =>
      match tok.splitOn "," with
      | [i, r, op, ret] => do
        pure ({ inv := (← i.toNat?), res := (← r.toNat?), op := (← parseOp? op), ret := (← parseRet? ret) } : Event)
      | _ => none
    match evs with
    | none => "bad-op"
    | some evs => if linearizable E (evs.length + 1) {} evs then "linearizable" else "not-linearizable"

end Driver.Threshold
