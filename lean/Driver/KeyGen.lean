import Model.KeyGen

namespace Driver.KeyGen
open Model

/-- `keygen <algo> <seed>` → `ok <private key bytes> <public key bytes>` | `err` -/
def run (args : List String) : String :=
  match args with
  | ["maptofr", b] =>
    match parseBytes? b with
    | some b => "ok " ++ toHex (Bls.writeFr (Bls.mapToFr b))
    | none => "bad-op"
  | ["sk", algo, seed] =>
    -- the private key alone (cheap: no scalar multiplication), for long concurrent histories
    match parseBytes? seed with
    | none => "bad-op"
    | some seed =>
      match algo with
      | "bls" => match KeyGen.bls seed with
        | some sk => "ok " ++ toHex (Bls.writeFr sk)
        | none => "err"
      | "p256" => match KeyGen.ecdsa Ecdsa.p256 seed with
        | some d => "ok " ++ toHex (natBE 32 d)
        | none => "err"
      | "k256" => match KeyGen.ecdsa Ecdsa.k256 seed with
        | some d => "ok " ++ toHex (natBE 32 d)
        | none => "err"
      | _ => "bad-op"
  | [algo, seed] =>
    match parseBytes? seed with
    | none => "bad-op"
    | some seed =>
      match algo with
      | "bls" => match KeyGen.bls seed with
        | some sk => "ok " ++ toHex (Bls.writeFr sk) ++ " " ++ toHex (Bls.writeE2 (Bls.publicKeyOf sk))
        | none => "err"
      | "p256" => match KeyGen.ecdsa Ecdsa.p256 seed with
        | some d => match Ecdsa.publicKeyOf Ecdsa.p256 d with
          | some Q => "ok " ++ toHex (natBE 32 d) ++ " " ++ toHex (Ecdsa.encodePublicKey Q)
          | none => "err-internal"
        | none => "err"
      | "k256" => match KeyGen.ecdsa Ecdsa.k256 seed with
        | some d => match Ecdsa.publicKeyOf Ecdsa.k256 d with
          | some Q => "ok " ++ toHex (natBE 32 d) ++ " " ++ toHex (Ecdsa.encodePublicKey Q)
          | none => "err-internal"
        | none => "err"
      | _ => "bad-op"
  | _ => "bad-op"

end Driver.KeyGen
