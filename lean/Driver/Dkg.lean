import Model.Dkg
import Model.Bls
import Model.KeccakF
import Model.Prg

/-! BLS12-381 instance of `Model.Dkg.Ops` and the line-protocol front end. -/

namespace Driver.Dkg
open Model Model.Dkg

structure Vec where
  a0 : Bls.P2
  ys : List Bls.P2

def chunks (n : Nat) : Nat → Bytes → List Bytes
  | 0, _ => []
  | k+1, b => b.take n :: chunks n k (b.drop n)

/-- `E2_polynomial_image`: Horner with the small exponent -/
def polyImageE2 (A : List Bls.P2) (x : Nat) : Bls.P2 :=
  A.foldr (fun Ai acc => Curve.addAff Bls.E2 (Curve.mul Bls.E2 x acc) Ai) none

def readVec (t size : Nat) (data : Bytes) : Option Vec := do
  let pts ← (chunks 96 (t + 1) data).mapM fun c =>
    match Bls.readE2 c with
    | .ok P => if Bls.inG2 P then some P else none
    | .error _ => none
  let a0 ← pts.head?
  pure { a0 := a0, ys := (List.range size).map fun i => polyImageE2 pts (i + 1) }

def polyEval (a : List Nat) (x : Nat) : Nat := a.foldr (fun c acc => (acc * x + c) % Bls.r) 0

/-- `randFr`: 48 PRG bytes reduced modulo r -/
def randFr (blk : Nat → Bytes) (s : Prg.State) : Prg.State × Nat :=
  let (s', b) := Prg.read blk s 48
  (s', Bls.mapToFr b)

def randFrStar (blk : Nat → Bytes) : Nat → Prg.State → Prg.State × Nat
  | 0, s => (s, 1)
  | fuel+1, s => let (s', x) := randFr blk s; if x = 0 then randFrStar blk fuel s' else (s', x)

/-- `generateFrPolynomial` -/
def genPoly (seed : Bytes) (degree : Nat) : Option (List Nat) :=
  if seed.length < 32 then none else
  let prgSeed := KeccakF.sha3_256 seed
  match Prg.new? prgSeed "gen_poly".toUTF8.toList with
  | none => none
  | some s0 =>
    let blk := ChaCha20.block s0.seed s0.cust
    let (s1, a0) := randFrStar blk 8 s0
    if degree = 0 then some [a0] else
    let (s2, mid) := (List.range (degree - 1)).foldl (fun (acc : Prg.State × List Nat) _ =>
      let (s', x) := randFr blk acc.1; (s', acc.2 ++ [x])) (s1, [])
    let (_, aTop) := randFrStar blk 8 s2
    some (a0 :: mid ++ [aTop])

def blsOps : Ops where
  Vec := Vec
  readVec := readVec
  checkLog := fun v i x => match v.ys[i]? with
    | some y => Curve.mul Bls.E2 x Bls.g2 == y
    | none => false
  readScalar := fun b => match Bls.readFrStar b with | .ok x => some x | .error _ => none
  writeScalar := Bls.writeFr
  addScalar := fun a b => (a + b) % Bls.r
  groupKey := fun v => Bls.writeE2 v.a0
  pubShares := fun v => v.ys.map Bls.writeE2
  groupKeyIsIdentity := fun v => v.a0.isNone
  sumVecs := fun vs => match vs with
    | [] => none
    | v :: rest => some (rest.foldl (fun acc w =>
        { a0 := Curve.addAff Bls.E2 acc.a0 w.a0, ys := List.zipWith (Curve.addAff Bls.E2) acc.ys w.ys }) v)
  genPoly := genPoly
  polyEval := polyEval
  vecBytes := fun a => a.flatMap fun c => Bls.writeE2 (Curve.mul Bls.E2 c Bls.g2)
  vecOfPoly := fun size a =>
    { a0 := Curve.mul Bls.E2 (a.headD 0) Bls.g2,
      ys := (List.range size).map fun i => Curve.mul Bls.E2 (polyEval a (i + 1)) Bls.g2 }

def showOut : Out → String
  | .bcast m => "b" ++ toHex m
  | .send d m => s!"s{d}:" ++ toHex m
  | .disq i => s!"d{i}"
  | .flag i => s!"f{i}"

def showRes : Res → String
  | .ok => "ok"
  | .invalidTransition => "IT"
  | .invalidInputs => "II"
  | .failure => "fail"
  | .otherErr => "other"
  | .bool b => if b then "true" else "false"
  | .keys x Y ys => "keys:" ++ toHex (Bls.writeFr x) ++ ":" ++ toHex Y ++ ":" ++ ",".intercalate (ys.map toHex)

def parseCall? (tok : String) : Option Call :=
  match tok.splitOn ":" with
  | ["S", seed] => (parseBytes? seed).map Call.start
  | ["T"] => some .nextTimeout
  | ["E"] => some .end_
  | ["R"] => some .running
  | ["B", o, m] => do pure (Call.bcast (← o.toInt?) (← parseBytes? m))
  | ["P", o, m] => do pure (Call.priv (← o.toInt?) (← parseBytes? m))
  | ["F", i] => i.toInt?.map Call.forceDisq
  | _ => none

def proto? : String → Option Proto
  | "fvss" => some .fvss
  | "fvssq" => some .fvssq
  | "joint" => some .joint
  | _ => none

/-- `dkg <proto> <n> <t> <me> <dealer> <call>*` -/
def run (args : List String) : String :=
  match args with
  | p :: n :: t :: me :: dealer :: calls =>
    match proto? p, n.toInt?, t.toInt?, me.toInt?, dealer.toInt? with
    | some p, some n, some t, some me, some dealer =>
      match new? blsOps p n t me dealer with
      | none => "err"
      | some inst =>
        let (_, outs) := calls.foldl (fun (acc : Inst blsOps × List String) tok =>
          match parseCall? tok with
          | none => (acc.1, "bad-op" :: acc.2)
          | some c =>
            let (i', o, r) := step acc.1 c
            (i', (showRes r ++ "|" ++ ";".intercalate (o.map showOut)) :: acc.2)) (inst, [])
        " ".intercalate ("ok" :: outs.reverse)
    | _, _, _, _, _ => "bad-op"
  | _ => "bad-op"

end Driver.Dkg
