import Model.Prg

/-! Line-protocol front end for the PRG model. -/

namespace Driver.Prg
open Model Model.Prg

def blkOf (seed cust : Bytes) : Nat → Bytes := fun i => ChaCha20.block seed cust i

def fuel : Nat := 100000

def showList (l : List Nat) : String :=
  if l.isEmpty then "[]" else ",".intercalate (l.map toString)

def showSwaps (l : List (Nat × Nat)) : String :=
  if l.isEmpty then "[]" else ",".intercalate (l.map fun (a, b) => s!"{a}:{b}")

def parseInt? (s : String) : Option Int := s.toInt?

def pair? (s : String) : Option (Int × Int) :=
  match s.splitOn "," with
  | [a, b] => do pure ((← a.toInt?), (← b.toInt?))
  | _ => none

/-- one op; returns new state and the printed result -/
def opWith (blk : Nat → Bytes) (s : State) (tok : String) : State × String :=
  if tok == "st" then (s, toHex (store s))
  else if tok == "rs" then
    match restore? blkOf (store s) with
    | some s' => (s', "ok")
    | none => (s, "err")
  else if tok.startsWith "r" then
    match (tok.drop 1).toNat? with
    | some n => let (s', out) := read blk s n; (s', toHex out)
    | none => (s, "bad-op")
  else if tok.startsWith "u" then
    match (tok.drop 1).toNat? with
    | some n =>
      if n = 0 then (s, "panic") else
      match uintN blk fuel s n with
      | some (s', v) => (s', toString v)
      | none => (s, "stuck")
    | none => (s, "bad-op")
  else if tok.startsWith "p" then
    match parseInt? (tok.drop 1).toString with
    | some n =>
      match permutation blk fuel s n with
      | (s', .ok l) => (s', showList l)
      | (s', .err) => (s', "err")
      | (s', .stuck) => (s', "stuck")
    | none => (s, "bad-op")
  else if tok.startsWith "sp" then (s, "bad-op")
  else (s, "bad-op")

def op2With (blk : Nat → Bytes) (s : State) (tok : String) : State × String :=
  if tok.startsWith "sp" then
    match pair? (tok.drop 2).toString with
    | some (n, m) =>
      match subPermutation blk fuel s n m with
      | (s', .ok l) => (s', showList l)
      | (s', .err) => (s', "err")
      | (s', .stuck) => (s', "stuck")
    | none => (s, "bad-op")
  else if tok.startsWith "sm" then
    match pair? (tok.drop 2).toString with
    | some (n, m) =>
      match samples blk fuel s n m with
      | (s', .ok l) => (s', showSwaps l)
      | (s', .err) => (s', "err")
      | (s', .stuck) => (s', "stuck")
    | none => (s, "bad-op")
  else if tok.startsWith "sh" then
    match parseInt? (tok.drop 2).toString with
    | some n =>
      match shuffle blk fuel s n with
      | (s', .ok l) => (s', showSwaps l)
      | (s', .err) => (s', "err")
      | (s', .stuck) => (s', "stuck")
    | none => (s, "bad-op")
  else opWith blk s tok

def op2 (s : State) (tok : String) : State × String := op2With (blkOf s.seed s.cust) s tok

/-- the byte tape as a block function: block `i` is bytes `64 i .. 64 i + 63` of the tape, zeros once it is used up -/
def tapeBlk (tape : Bytes) : Nat → Bytes := fun i =>
  let b := (tape.drop (64 * i)).take 64
  b ++ zeros (64 - b.length)

/-- `prgtape <tape> <op>*`: the generic methods of rand.go (`u`, `p`, `sp`, `sm`, `sh`, `r`) over a caller-chosen byte
    source (hook `random.NewTapeRand`); `st` / `rs` belong to the ChaCha20 object and are refused -/
def runTape (args : List String) : String :=
  match args with
  | tape :: ops =>
    match parseBytes? tape with
    | some tape =>
      if ops.any (fun t => t == "st" || t == "rs") then "bad-op" else
      let s0 : State := { seed := zeros 32, cust := zeros 12, counter := 0, cipher := { ctr := 0, buf := [] }, ubuf := zeros 8 }
      let (_, outs) := ops.foldl (fun (acc : State × List String) tok =>
        let (s', o) := op2With (tapeBlk tape) acc.1 tok; (s', o :: acc.2)) (s0, [])
      " ".intercalate ("ok" :: outs.reverse)
    | none => "bad-op"
  | _ => "bad-op"

/-- `prg <seed> <cust> <op>*` -/
def run (args : List String) : String :=
  match args with
  | seed :: cust :: ops =>
    match parseBytes? seed, parseBytes? cust with
    | some seed, some cust =>
      match new? seed cust with
      | none => "err"
      | some s0 =>
        let (_, outs) := ops.foldl (fun (acc : State × List String) tok =>
          let (s', o) := op2 acc.1 tok; (s', o :: acc.2)) (s0, [])
        " ".intercalate ("ok" :: outs.reverse)
    | _, _ => "bad-op"
  | _ => "bad-op"

/-- `prgrestore <state>` then ops -/
def runRestore (args : List String) : String :=
  match args with
  | st :: ops =>
    match parseBytes? st with
    | some st =>
      match restore? blkOf st with
      | none => "err"
      | some s0 =>
        let (_, outs) := ops.foldl (fun (acc : State × List String) tok =>
          let (s', o) := op2 acc.1 tok; (s', o :: acc.2)) (s0, [])
        " ".intercalate ("ok" :: outs.reverse)
    | none => "bad-op"
  | _ => "bad-op"

end Driver.Prg
