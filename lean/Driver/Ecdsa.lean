import Model.Ecdsa

namespace Driver.Ecdsa
open Model Model.Ecdsa

def curve? : String → Option CurveSpec
  | "p256" => some p256
  | "k256" => some k256
  | _ => none

def run (args : List String) : String :=
  match args with
  | [op, c, b] =>
    match curve? c, parseBytes? b with
    | some S, some b =>
      match op with
      | "skdec" => match decodePrivateKey S b with
        | some d => "ok " ++ toHex (natBE 32 d)
        | none => "err"
      | "pkdec" => match decodePublicKey S b with
        | some Q => "ok " ++ toHex (encodePublicKey Q)
        | none => "err"
      | "pkdecc" => match decodePublicKeyCompressed S b with
        | some Q => "ok " ++ toHex (encodePublicKeyCompressed Q)
        | none => "err"
      | "fmt" => if formatCheck S b then "true" else "false"
      | "pkof" => match decodePrivateKey S b with
        | some d => match publicKeyOf S d with
          | some Q => "ok " ++ toHex (encodePublicKey Q) ++ " " ++ toHex (encodePublicKeyCompressed Q)
          | none => "err"
        | none => "err"
      | _ => "bad-op"
    | _, _ => "bad-op"
  | ["signwith", c, d, k, h] =>
    match curve? c, parseBytes? d, parseBytes? k, parseBytes? h with
    | some S, some d, some k, some h =>
      match signWith S (beNat d) (beNat k) h with
      | some sig => "ok " ++ toHex sig
      | none => "err"
    | _, _, _, _ => "bad-op"
  | ["verify", c, pk, h, sig] =>
    match curve? c, parseBytes? pk, parseBytes? h, parseBytes? sig with
    | some S, some pk, some h, some sig =>
      match decodePublicKey S pk with
      | some Q => if verifyHash S Q h sig then "true" else "false"
      | none => "err"
    | _, _, _, _ => "bad-op"
  | _ => "bad-op"

end Driver.Ecdsa
