import Model.Hash

/-! Front end for hashers: `hash <algo> <op>*`, `kmac <key> <cust> <outlen> <op>*`.
    ops: `w:<bytes>` Write, `s` SumHash, `r` Reset, `c:<bytes>` ComputeHash, `o:<bytes>` one-shot helper. -/

namespace Driver.Hash
open Model Model.Hash

def algo? : String → Option Algo
  | "sha2_256" => some .sha2_256
  | "sha2_384" => some .sha2_384
  | "sha3_256" => some .sha3_256
  | "sha3_384" => some .sha3_384
  | "keccak256" => some .keccak256
  | _ => none

/-- digest by the standard; for the sponge algorithms the answer is additionally cross-checked against
    the reference the C13 theorems talk about (`Sponge.refHash` on the concrete parameters). -/
def digestChecked (a : Algo) (m : Bytes) : String :=
  let d := digest a m
  match spongeOf a with
  | some P => if Sponge.refHash P m == d then toHex d else "spec-mismatch"
  | none => toHex d

def splitOp (tok : String) : String × String :=
  match tok.splitOn ":" with
  | [a] => (a, "")
  | a :: rest => (a, ":".intercalate rest)
  | [] => ("", "")

def runHash (args : List String) : String :=
  match args with
  | a :: ops =>
    match algo? a with
    | none => "bad-op"
    | some a =>
      let isSha2 := a == .sha2_256 || a == .sha2_384
      let (_, outs) := ops.foldl (fun (acc : Bytes × List String) tok =>
        let (w, outs) := acc
        let (op, arg) := splitOp tok
        match op, parseBytes? arg with
        | "w", some b => (w ++ b, outs)
        | "s", _ => (w, digestChecked a w :: outs)
        | "r", _ => ([], outs)
        | "c", some b => (if isSha2 then b else [], digestChecked a b :: outs)
        | "o", some b => (w, digestChecked a b :: outs)
        | _, _ => (w, "bad-op" :: outs)) ([], [])
      " ".intercalate ("ok" :: outs.reverse)
  | _ => "bad-op"

def runKmac (args : List String) : String :=
  match args with
  | key :: cust :: outLen :: ops =>
    match parseBytes? key, parseBytes? cust, outLen.toInt? with
    | some key, some cust, some outLen =>
      if outLen < 0 ∨ key.length < 16 then "err" else
      let L := outLen.toNat
      let (_, outs) := ops.foldl (fun (acc : Bytes × List String) tok =>
        let (w, outs) := acc
        let (op, arg) := splitOp tok
        match op, parseBytes? arg with
        | "w", some b => (w ++ b, outs)
        | "s", _ => (w, toHex (Kmac.spec key cust w L) :: outs)
        | "r", _ => ([], outs)
        | "c", some b => (w, toHex (Kmac.spec key cust b L) :: outs)
        | _, _ => (w, "bad-op" :: outs)) ([], [])
      " ".intercalate ("ok" :: outs.reverse)
    | _, _, _ => "bad-op"
  | _ => "bad-op"

end Driver.Hash
