import Driver.Prg
import Driver.Bls
import Driver.Ecdsa
import Driver.Hash
import Driver.KeyGen
import Driver.Dkg
import Driver.Threshold

/-! Model driver: one request per line on stdin, one canonical answer per line on stdout.
    First field: case id (echoed), second: operation. Unknown lines are answered `bad-op`. -/

def dispatch (op : String) (args : List String) : String :=
  match op with
  | "prg" => Driver.Prg.run args
  | "prgrestore" => Driver.Prg.runRestore args
  | "prgtape" => Driver.Prg.runTape args
  | "fr.dec" => Driver.Bls.frDec args
  | "pk.dec" => Driver.Bls.pkDec args
  | "e1.dec" => Driver.Bls.e1Dec args
  | "e2.dec" => Driver.Bls.e2Dec args
  | "pk.of" => Driver.Bls.pkOf args
  | "h2c.map" => Driver.Bls.h2cMap args
  | "bls.signmsg" => Driver.Bls.signMsg args
  | "pop.gen" => Driver.Bls.popGen args
  | "pk.zcash" => Driver.Bls.pkZcash args
  | "sig.expect" => Driver.Bls.sigExpect args
  | "bls.verify" => Driver.Bls.blsVerify args
  | "bls.many" => Driver.Bls.blsMany args
  | "agg.sk" => Driver.Bls.aggSk args
  | "agg.pk" => Driver.Bls.aggPk args
  | "agg.sig" => Driver.Bls.aggSig args
  | "spock" => Driver.Bls.spock args
  | "e1" => Driver.Bls.e1Gen args
  | "e2" => Driver.Bls.e2Gen args
  | "ecdsa" => Driver.Ecdsa.run args
  | "hash" => Driver.Hash.runHash args
  | "keygen" => Driver.KeyGen.run args
  | "dkg" => Driver.Dkg.run args
  | "th.keygen" => Driver.Threshold.keygen args
  | "th.rec" => Driver.Threshold.reconstruct args
  | "th.obj" => Driver.Threshold.obj args
  | "th.groupsig" => Driver.Threshold.groupsig args
  | "th.lin" => Driver.Threshold.lin args
  | "kmac" => Driver.Hash.runKmac args
  | "expect" => " ".intercalate (args.takeWhile (fun a => !a.startsWith "#"))
  | _ => "bad-op"

def answer (line : String) : String :=
  match (line.trimAscii.toString.splitOn " ").filter (· ≠ "") with
  | id :: op :: args => id ++ " " ++ dispatch op args
  | _ => "? bad-op"

partial def loop (hin hout : IO.FS.Stream) : IO Unit := do
  let line ← hin.getLine
  if line.isEmpty then return ()
  hout.putStrLn (answer line)
  hout.flush
  loop hin hout

def main : IO Unit := do
  let hin ← IO.getStdin
  let hout ← IO.getStdout
  loop hin hout
  hout.flush
