import Driver.Prg

/-! Model driver: one request per line on stdin, one canonical answer per line on stdout.
    First field: case id (echoed), second: operation. Unknown lines are answered `bad-op`. -/

def dispatch (op : String) (args : List String) : String :=
  match op with
  | "prg" => Driver.Prg.run args
  | "prgrestore" => Driver.Prg.runRestore args
  | _ => "bad-op"

def answer (line : String) : String :=
  match (line.trimAscii.toString.splitOn " ").filter (· ≠ "") with
  | id :: op :: args => id ++ " " ++ dispatch op args
  | _ => "? bad-op"

partial def loop (hin hout : IO.FS.Stream) : IO Unit := do
  let line ← hin.getLine
  if line.isEmpty then return ()
  hout.putStrLn (answer line)
  loop hin hout

def main : IO Unit := do
  let hin ← IO.getStdin
  let hout ← IO.getStdout
  loop hin hout
  hout.flush
